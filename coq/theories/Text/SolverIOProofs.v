(** Proofs about Text/SolverIO.v: what is parsed from the solver's output is
    the solver's assignment. *)
From Coq Require Import String Ascii ZArith List Bool Lia.
From SP Require Import Base.Sat Text.Tok Text.TokProofs Text.Dimacs Text.SolverIO.
Import ListNotations.
Open Scope Z_scope.

(** * The literals of an assignment *)

Lemma lits_from_length i bs : length (lits_from i bs) = length bs.
Proof. revert i. induction bs as [|b r IH]; intros i; cbn [lits_from length]; [reflexivity|now rewrite IH]. Qed.

Lemma lits_from_nonzero i bs : 0 < i -> nonzero (lits_from i bs).
Proof.
  revert i. induction bs as [|b r IH]; intros i Hi; [intros x []|].
  cbn [lits_from]. apply nonzero_cons. split; [destruct b; lia | apply IH; lia].
Qed.

Lemma firstn_lits_from k i bs : firstn k (lits_from i bs) = lits_from i (firstn k bs).
Proof.
  revert i bs. induction k as [|k IH]; intros i bs; [reflexivity|].
  destruct bs as [|b r]; [reflexivity|]. cbn [lits_from firstn]. now rewrite IH.
Qed.

(** [s] carries the values [bs] on the variables [i, i+1, ...]. *)
Definition asg_matches (s : asg) (i : Z) (bs : list bool) : Prop :=
  forall j, (j < length bs)%nat -> s (i + Z.of_nat j) = nth j bs false.

Lemma lits_from_sat s i bs :
  0 < i -> forallb (lit_true s) (lits_from i bs) = true <-> asg_matches s i bs.
Proof.
  revert i. induction bs as [|b r IH]; intros i Hi.
  - split; [intros _ j Hj; cbn in Hj; lia | reflexivity].
  - cbn [lits_from forallb]. rewrite andb_true_iff, (IH (i + 1)) by lia.
    assert (E : lit_true s (if b then i else - i) = true <-> s i = b).
    { destruct b; [rewrite lit_true_pos by lia | rewrite lit_true_neg by lia];
        destruct (s i); cbn [negb]; intuition congruence. }
    rewrite E. split.
    + intros [H0 H1] j Hj. destruct j as [|j].
      * cbn [nth]. now rewrite Z.add_0_r.
      * cbn [nth]. cbn [length] in Hj. rewrite <- (H1 j) by lia. f_equal. lia.
    + intros H. split.
      * specialize (H 0%nat). cbn [nth length] in H. rewrite Z.add_0_r in H. apply H. lia.
      * intros j Hj. specialize (H (S j)). cbn [nth length] in H. rewrite <- H by lia. f_equal. lia.
Qed.

(** The previous solution as the solver reports it: the assignment [p]
    restricted to the support variables [1..n]. *)
Definition sol_of (p : asg) (n : Z) : list Z := lits_of (map p (support_set n)).

Lemma sol_of_nonzero p n : nonzero (sol_of p n).
Proof. apply lits_from_nonzero. lia. Qed.

Lemma sol_of_sat s p n :
  forallb (lit_true s) (sol_of p n) = true <-> agree_upto n s p.
Proof.
  unfold sol_of, lits_of. rewrite lits_from_sat by lia.
  unfold asg_matches, support_set. rewrite !map_length, seq_length. split.
  - intros H v Hv. specialize (H (Z.to_nat (v - 1)) ltac:(lia)).
    replace (1 + Z.of_nat (Z.to_nat (v - 1))) with v in H by lia. rewrite H.
    rewrite (nth_indep _ false (p 0)) by (rewrite !map_length, seq_length; lia).
    rewrite map_nth. f_equal.
    rewrite (nth_indep _ 0 (Z.of_nat 0)) by (rewrite map_length, seq_length; lia).
    rewrite map_nth, seq_nth by lia. lia.
  - intros H j Hj.
    rewrite (nth_indep _ false (p 0)) by (rewrite !map_length, seq_length; lia).
    rewrite map_nth.
    rewrite (nth_indep _ 0 (Z.of_nat 0)) by (rewrite map_length, seq_length; lia).
    rewrite map_nth, seq_nth by lia.
    replace (Z.of_nat (1 + j)) with (1 + Z.of_nat j) by lia. apply H. lia.
Qed.

(** * pycryptosat path: print, then parse *)

Lemma parse_v_cms_output bs : parse_v_lines (cms_output bs) = Some (lits_of bs ++ [0]).
Proof.
  unfold parse_v_lines, cms_output.
  cbn [map_opt v_line_toks line_starts starts_with Ascii.eqb Bool.eqb is_word String.eqb concat app].
  rewrite app_nil_r. apply ints_of_clause_toks.
Qed.

(** [compute_solutions] keeps [solution[:support]]: the assignment of the
    support variables, provided the solver knows at least [support] variables. *)
Lemma solve_result_cms_output bs support :
  0 <= support <= Z.of_nat (length bs) ->
  solve_result (cms_output bs) support = Some (lits_of (firstn (Z.to_nat support) bs)).
Proof.
  intros H. unfold solve_result. rewrite parse_v_cms_output. f_equal.
  unfold lits_of. rewrite firstn_app, lits_from_length.
  replace (Z.to_nat support - length bs)%nat with 0%nat by lia.
  cbn [firstn]. rewrite app_nil_r. apply firstn_lits_from.
Qed.

(** Otherwise the terminating 0 of the [v] line leaks into the "solution". *)
Lemma solve_result_terminator_leaks :
  exists bs support l, solve_result (cms_output bs) support = Some l /\ In 0 l.
Proof. exists [true], 2, [1; 0]. split; [vm_compute; reflexivity | right; now left]. Qed.

(** * CLI-shaped output: the literals spread over any number of [v] lines *)

Lemma ints_of_concat_TI chunks :
  ints_of (concat (map (fun ch => map TI ch) chunks)) = Some (concat chunks).
Proof.
  induction chunks as [|ch chunks IH]; [reflexivity|].
  cbn [map concat]. now rewrite ints_of_app, ints_of_TI, IH.
Qed.

Lemma parse_v_cli_output chunks : parse_v_lines (cli_output chunks) = Some (concat chunks).
Proof.
  unfold parse_v_lines, cli_output.
  cbn [map_opt v_line_toks line_starts starts_with Ascii.eqb Bool.eqb].
  rewrite (map_opt_map v_line_toks (fun ch => TW "v" :: map TI ch) (fun ch => map TI ch))
    by reflexivity.
  cbn [concat app]. apply ints_of_concat_TI.
Qed.

(** * Sampler output: pyunigen / pycmsgen samples, then [build_solution] *)

Lemma filter_not_v_TI l t :
  is_word "v" t = false ->
  filter (fun t => negb (is_word "v" t)) (map TI l ++ [t]) = map TI l ++ [t].
Proof.
  intros Ht. induction l as [|z l IH]; cbn [map app filter is_word negb].
  - now rewrite Ht.
  - now rewrite IH.
Qed.

Lemma build_solution_unigen smp :
  build_solution (TW "v" :: map TI smp ++ [TFreq 0 1]) = Some (smp, 1).
Proof.
  unfold build_solution. cbn [filter is_word String.eqb Ascii.eqb Bool.eqb negb].
  rewrite filter_not_v_TI by reflexivity.
  rewrite rev_app_distr. cbn [rev app]. rewrite rev_involutive, ints_of_TI. reflexivity.
Qed.

Lemma build_solution_cmsgen smp :
  build_solution (TW "v" :: map TI smp ++ [TI 0]) = Some (smp, 0).
Proof.
  unfold build_solution. cbn [filter is_word String.eqb Ascii.eqb Bool.eqb negb].
  rewrite filter_not_v_TI by reflexivity.
  rewrite rev_app_distr. cbn [rev app]. rewrite rev_involutive, ints_of_TI. reflexivity.
Qed.

Lemma parse_sampler_lines (mk : list Z -> line) (fq : Z) (samples : list (list Z)) :
  (forall smp, exists r, mk smp = TW "v" :: r) ->
  (forall smp, build_solution (mk smp) = Some (smp, fq)) ->
  parse_sampler_output (map mk samples ++ [[]]) = Some (map (fun smp => (smp, fq)) samples).
Proof.
  intros Hv Hb. unfold parse_sampler_output.
  assert (NE : all_nonempty (map mk samples)).
  { intros l Hl. apply in_map_iff in Hl. destruct Hl as [smp [<- _]].
    destruct (Hv smp) as [r ->]. reflexivity. }
  rewrite (strip_file_lines_blank _ NE).
  assert (F : filter (fun l => negb (is_empty_line l) && negb (line_starts "c" l)) (map mk samples)
              = map mk samples).
  { induction samples as [|smp samples IH]; [reflexivity|].
    cbn [map filter]. destruct (Hv smp) as [r Hr]. rewrite Hr.
    cbn [is_empty_line line_starts starts_with Ascii.eqb Bool.eqb negb andb].
    f_equal. apply IH.
    intros l Hl. apply NE. now right. }
  rewrite F. apply map_opt_map. intros smp _. apply Hb.
Qed.

Lemma parse_sampler_unigen samples :
  parse_sampler_output (unigen_format samples) = Some (map (fun smp => (smp, 1)) samples).
Proof.
  unfold unigen_format.
  apply (parse_sampler_lines (fun smp => TW "v" :: map TI smp ++ [TFreq 0 1]) 1).
  - intros smp. eexists. reflexivity.
  - apply build_solution_unigen.
Qed.

Lemma parse_sampler_cmsgen ss sols :
  parse_sampler_output (cmsgen_format ss sols)
  = Some (map (fun sol => (map (cms_lit sol) ss, 0)) sols).
Proof.
  unfold cmsgen_format.
  rewrite <- (map_map (fun sol => map (cms_lit sol) ss) (fun smp => TW "v" :: map TI smp ++ [TI 0])).
  rewrite <- (map_map (fun sol => map (cms_lit sol) ss) (fun smp => (smp, 0))).
  apply (parse_sampler_lines (fun smp => TW "v" :: map TI smp ++ [TI 0]) 0).
  - intros smp. eexists. reflexivity.
  - apply build_solution_cmsgen.
Qed.

(** The literal pycmsgen's tuple yields for a sampling-set variable it knows. *)
Lemma cms_lit_known sol v :
  0 < v < Z.of_nat (length sol) ->
  cms_lit sol v = if nth (Z.to_nat v) sol false then v else - v.
Proof. intros H. unfold cms_lit. replace (v <? Z.of_nat (length sol)) with true by lia. reflexivity. Qed.
