(** Character-level model of the solver text (C27) and of the OPB text (C28).

    * the lexer [lex_file]: text -> token file of Text/Tok.v
      ([text.split('\n')], then [line.split()] per line, then the
      classification of each word into the token kinds of Tok.v), and the
      inverse rendering [render_file];
    * the WRITERS, character by character as the Python code builds the text
      ([CNF.__str__], [as_dimacs_string], [as_unigen_string], [save_cnf],
      [combine_and_save_cnf], [_use_pycryptosat_library]'s output,
      [sample_non_uniform.update_file], [call_unigen_python] /
      [call_cmsgen_python]'s output; [as_opb_string], [combine_and_save_opb],
      [sample_ilp.update_file]) - compared byte for byte with the real text;
    * the READERS = the token-level parsers of Dimacs.v / SolverIO.v / Opb.v
      composed with the lexer.

    What the lexer-composed readers assume about a text they are given (the
    writers' texts satisfy all of it, see TextCharsProofs.v): ASCII; an integer
    word is a CANONICAL decimal ([str(int(w)) == w]: the real [int()] also
    accepts "007", "-0", "+007", "1_0", which the token level treats as
    non-integers); ["c ind"] / ["p cnf"] prefixes are written with exactly one
    blank (the real [startswith('c ind')] is a character test; the token level
    sees the first two words).  No proofs here. *)
From Coq Require Import String Ascii ZArith List Bool.
From SP Require Import Base.Sat Core.Card Text.Tok Text.Chars Text.Dimacs Text.SolverIO Text.Opb.
Import ListNotations.
Open Scope Z_scope.

(** * Lexer *)

(** [w] is the canonical decimal of an integer: [str(int(w)) == w]. *)
Definition canon_Z (w : string) : option Z :=
  match Z_of_string w with
  | Some z => if String.eqb (string_of_Z z) w then Some z else None
  | None => None
  end.

(** ["+" ++ str(z)], [z >= 0] *)
Definition plus_tok (w : string) : option tok :=
  match w with
  | String c r =>
    if Ascii.eqb c "+" then
      match canon_Z r with
      | Some z => if 0 <=? z then Some (TPlus z) else None
      | None => None
      end
    else None
  | EmptyString => None
  end.

(** ["v" ++ str(z)] *)
Definition v_tok (w : string) : option tok :=
  match w with
  | String c r =>
    if Ascii.eqb c "v" then
      match canon_Z r with Some z => Some (TV z) | None => None end
    else None
  | EmptyString => None
  end.

(** cut at the first ':' *)
Fixpoint cut_colon (s : string) : option (string * string) :=
  match s with
  | EmptyString => None
  | String c r =>
    if Ascii.eqb c ":" then Some (EmptyString, r)
    else match cut_colon r with
         | Some (a, b) => Some (String c a, b)
         | None => None
         end
  end.

(** [str(a) ++ ":" ++ str(b)] *)
Definition freq_tok (w : string) : option tok :=
  match cut_colon w with
  | Some (a, b) =>
    match canon_Z a, canon_Z b with
    | Some x, Some y => Some (TFreq x y)
    | _, _ => None
    end
  | None => None
  end.

Definition tok_of_string (w : string) : tok :=
  match canon_Z w with
  | Some z => TI z
  | None =>
    match plus_tok w with
    | Some t => t
    | None =>
      match v_tok w with
      | Some t => t
      | None => match freq_tok w with Some t => t | None => TW w end
      end
    end
  end.

Definition string_of_tok (t : tok) : string :=
  match t with
  | TI z => string_of_Z z
  | TPlus z => String "+" (string_of_Z z)
  | TV z => String "v" (string_of_Z z)
  | TFreq a b => string_of_Z a +s+ String ":" (string_of_Z b)
  | TW s => s
  end.

Definition lex_line (s : string) : line := map tok_of_string (split_ws s).
Definition lex_file (s : string) : file := map lex_line (lines s).

(** tokens separated by one blank, lines by one newline *)
Definition render_line (l : line) : string := join sp (map string_of_tok l).
Definition render_file (f : file) : string := join nl_s (map render_line f).

(** * DIMACS writers (core/cnf.py, core/generate/utility.py) *)

(** [str(clause) + ' 0'] with [str(clause) = ' '.join(str(var) ...)]; the empty
    clause is written [" 0"], with the blank. *)
Definition clause_text (c : clause) : string := join sp (map string_of_Z c) +s+ " 0".

(** [CNF.__str__]: [''.join(str(clause) + ' 0\n' for clause in reversed(self._vals))] *)
Definition str_text (cls : cnf) : string :=
  join EmptyString (map (fun c => clause_text c +s+ nl_s) (rev cls)).

(** [f"p cnf {fresh_variable_count} {len(self)}\n\n"] *)
Definition header_text (nv m : Z) : string :=
  "p cnf " +s+ string_of_Z nv +s+ sp +s+ string_of_Z m +s+ nl_s +s+ nl_s.

(** [as_dimacs_string] *)
Definition dimacs_text (nv : Z) (cls : cnf) : string :=
  header_text nv (Z.of_nat (length cls)) +s+ str_text cls.

(** ['\n'.join("c ind " + ' '.join(map(str, chunk)) + " 0" for chunk in support_chunks)] *)
Definition ind_text (ch : list Z) : string := "c ind " +s+ join sp (map string_of_Z ch) +s+ " 0".
Definition support_string (ss : list Z) : string :=
  join nl_s (map ind_text (chunks10 (length ss) ss)).

(** [as_unigen_string]: [dimacs_string.replace('\n', '\n' + support_string, 1)] *)
Definition unigen_text (nv : Z) (ss : list Z) (cls : cnf) : string :=
  replace_first_nl (dimacs_text nv cls) (nl_s +s+ support_string ss).

(** [save_cnf]: [filename.write_text(cnf.as_unigen_string(support_set_length=support))] *)
Definition save_cnf_text (cls : cnf) (support : option Z) : string :=
  unigen_text (cnf_num_vars cls)
              (match support with Some n => support_set n | None => [] end) cls.

(** [combine_and_save_cnf] *)
Definition combine_save_text (initial : cnf) (fresh support : Z)
           (reqs : list (kind * Z * list Z)) : option string :=
  let '(ok, _, cls) := combine_requests initial fresh reqs in
  if ok then Some (save_cnf_text cls (Some support)) else None.

(** * DIMACS readers *)

Definition parse_cms_text (s : string) : option (Z * list clause) := parse_cms (lex_file s).
Definition parse_unigen_text (s : string) : option (list clause * list Z * Z) :=
  parse_unigen (lex_file s).
Definition sampler_input_text (solve : list clause -> bool) (s : string) :=
  sampler_input solve (lex_file s).

(** * [sample_non_uniform.update_file], on the characters *)

(** [' '.join(segments[:3] + [str(int(segments[3]) + 1)])] for
    [segments = header.strip().split()]; [None]: IndexError / ValueError. *)
Definition update_header_text (h : string) : option string :=
  match split_ws h with
  | a :: b :: c :: d :: _ =>
    match Z_of_string d with
    | Some m => Some (join sp [a; b; c; string_of_Z (m + 1)])
    | None => None
    end
  | _ => None
  end.

(** [lines = text.strip().splitlines()] (line breaks: '\n' only - the texts
    contain no other break character), new header, the other lines unchanged,
    [' '.join(str(var) for var in negated_solution + [0])], joined by '\n'. *)
Definition update_file_text (s : string) (sol : list Z) : option string :=
  match lines (strip s) with
  | h :: rest =>
    match update_header_text h with
    | Some h' => Some (join nl_s (h' :: rest ++ [join sp (map string_of_Z (blocking_clause sol ++ [0]))]))
    | None => None
    end
  | [] => None
  end.

(** * Solver output *)

(** [f"s SATISFIABLE\nv {' '.join(solution_parts)}\n"], [solution_parts] ending in "0" *)
Definition cms_output_text (bs : list bool) : string :=
  "s SATISFIABLE" +s+ nl_s +s+ "v " +s+ join sp (map string_of_Z (lits_of bs) ++ ["0"%string]) +s+ nl_s.

Definition parse_v_text (s : string) : option (list Z) := parse_v_lines (lex_file s).
Definition solve_result_text (s : string) (support : Z) : option (list Z) :=
  solve_result (lex_file s) support.

(** [call_unigen_python]: ["v " + " ".join(map(str, sample)) + " 0:1"] per
    sample, ['\n'.join(...) + '\n'] when there is a sample. *)
Definition unigen_sample_text (smp : list Z) : string :=
  "v " +s+ join sp (map string_of_Z smp) +s+ " 0:1".
(** [""] without samples, else ['\n'.join(output_lines) + '\n'] *)
Definition unigen_format_text (samples : list (list Z)) : string :=
  match samples with
  | [] => EmptyString
  | _ => join nl_s (map unigen_sample_text samples) +s+ nl_s
  end.
(** [call_cmsgen_python]: ["v " + " ".join(sample_lits) + " 0"] per solution,
    ['\n'.join(output_lines) + '\n'] (also without any line: then ["\n"]). *)
Definition cmsgen_sample_text (ss : list Z) (sol : list bool) : string :=
  "v " +s+ join sp (map string_of_Z (map (cms_lit sol) ss)) +s+ " 0".
Definition cmsgen_format_text (ss : list Z) (sols : list (list bool)) : string :=
  join nl_s (map (cmsgen_sample_text ss) sols) +s+ nl_s.
Definition parse_sampler_text (s : string) : option (list (list Z * Z)) :=
  parse_sampler_output (lex_file s).

(** * OPB writers (core/cnf.py, core/generate/utility.py, sample_ilp.py) *)

(** [str(v)[0] == '-'] *)
Definition first_minus (s : string) : bool :=
  match s with String c _ => Ascii.eqb c "-" | EmptyString => false end.
(** [str(v)[1:]] *)
Definition tail_s (s : string) : string :=
  match s with String _ r => r | EmptyString => EmptyString end.

(** ['-1 v' + str(v)[1:] if str(v)[0] == '-' else '+1 v' + str(v)] *)
Definition opb_term_text (v : Z) : string :=
  let s := string_of_Z v in
  if first_minus s then "-1 v" +s+ tail_s s else "+1 v" +s+ s.

Definition count_false_text (c : list Z) : Z :=
  Z.of_nat (length (filter (fun v => first_minus (string_of_Z v)) c)).

(** terms + [' >= ' + str(-count_false_var(clause) + 1) + ' ;'] *)
Definition opb_clause_text (c : clause) : string :=
  join sp (map opb_term_text c) +s+ " >= " +s+ string_of_Z (- count_false_text c + 1) +s+ " ;".

(** [as_opb_string] *)
Definition opb_text (cls : cnf) : string := join nl_s (map opb_clause_text (rev cls)).

(** [' = ' + str(k)], [' <= ' + str(k - 1)], [' >= ' + str(k + 1)] *)
Definition cmp_text (kd : kind) (k : Z) : string :=
  match kd with
  | EQ => " = " +s+ string_of_Z k
  | LT => " <= " +s+ string_of_Z (k - 1)
  | GT => " >= " +s+ string_of_Z (gt_rhs k)
  end.

(** ['\n' + ' '.join('+1 v' + str(x) ...) + comparison + ' ; '] (trailing blank) *)
Definition opb_request_text (r : kind * Z * list Z) : string :=
  let '(kd, k, vs) := r in
  nl_s +s+ join sp (map (fun x => "+1 v" +s+ string_of_Z x) vs) +s+ cmp_text kd k +s+ " ; ".

(** [combine_and_save_opb] on a fresh file *)
Definition opb_file_text (cls : cnf) (reqs : list (kind * Z * list Z)) : string :=
  opb_text cls +s+ join EmptyString (map opb_request_text reqs).

(** [sample_ilp.update_file]:
    ['-1 v' + str(abs(x)) if str(x)[0] == '-' else '+1 v' + str(x)] *)
Definition ilp_term_text (x : Z) : string :=
  if first_minus (string_of_Z x) then "-1 v" +s+ string_of_Z (Z.abs x) else "+1 v" +s+ string_of_Z x.
Definition ilp_update_text (f : string) (sol : list Z) : string :=
  f +s+ nl_s +s+ join sp (map ilp_term_text sol) +s+ " <= "
    +s+ string_of_Z (Z.of_nat (length sol) - 1 - count_neg sol) +s+ " ;" +s+ nl_s.

(** * OPB reader: the pseudo-Boolean meaning of a text *)
Definition pb_file_sat_text (s : asg) (t : string) : option bool := pb_file_sat s (lex_file t).
