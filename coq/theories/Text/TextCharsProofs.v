(** The characters written by the writers of Text/TextChars.v, read with
    [split('\n')] / [split()] / the word classifier, ARE the token files of the
    token-level model (Dimacs.v, SolverIO.v, Opb.v): [lex_file (x_text a) = x_lines a].
    With that, every token-level theorem of C27/C28 lifts to the text. *)
From Coq Require Import String Ascii ZArith List Bool Lia.
From SP Require Import Base.Sat Core.Card Text.Tok Text.TokProofs Text.Chars Text.CharsProofs.
From SP Require Import Text.Dimacs Text.SolverIO Text.Opb Text.OpbProofs Text.TextChars.
Import ListNotations.
Open Scope Z_scope.

(** * Words *)

Lemma canon_Z_str z : canon_Z (string_of_Z z) = Some z.
Proof. unfold canon_Z. now rewrite Z_of_string_of_Z, String.eqb_refl. Qed.

Lemma tok_of_string_Z z : tok_of_string (string_of_Z z) = TI z.
Proof. unfold tok_of_string. now rewrite canon_Z_str. Qed.

Lemma Z_of_string_letter c r :
  digit_val c = None -> is_ws c = false -> c <> "-"%char -> c <> "+"%char -> no_ws r = true ->
  Z_of_string (String c r) = None.
Proof.
  intros Hd Hw H1 H2 Hr.
  rewrite (Z_of_string_unsigned (String c r) c r); [|apply strip_c_no_ws|exact H1|exact H2].
  - cbn [digits_val]. rewrite Hd. destruct (Ascii.eqb c "_"); reflexivity.
  - unfold no_ws. cbn [str_forall]. now rewrite Hw.
Qed.

Lemma tok_of_string_V z : tok_of_string (String "v" (string_of_Z z)) = TV z.
Proof.
  unfold tok_of_string, canon_Z.
  rewrite Z_of_string_letter; [|reflexivity|reflexivity|discriminate|discriminate|apply string_of_Z_no_ws].
  cbn. now rewrite canon_Z_str.
Qed.

Lemma tok_p : tok_of_string "p" = TW "p". Proof. reflexivity. Qed.
Lemma tok_cnf : tok_of_string "cnf" = TW "cnf". Proof. reflexivity. Qed.
Lemma tok_c : tok_of_string "c" = TW "c". Proof. reflexivity. Qed.
Lemma tok_ind : tok_of_string "ind" = TW "ind". Proof. reflexivity. Qed.
Lemma tok_s : tok_of_string "s" = TW "s". Proof. reflexivity. Qed.
Lemma tok_SAT : tok_of_string "SATISFIABLE" = TW "SATISFIABLE". Proof. reflexivity. Qed.
Lemma tok_v : tok_of_string "v" = TW "v". Proof. reflexivity. Qed.
Lemma tok_0 : tok_of_string "0" = TI 0. Proof. reflexivity. Qed.
Lemma tok_m1 : tok_of_string "-1" = TI (-1). Proof. reflexivity. Qed.
Lemma tok_p1 : tok_of_string "+1" = TPlus 1. Proof. reflexivity. Qed.
Lemma tok_freq01 : tok_of_string "0:1" = TFreq 0 1. Proof. reflexivity. Qed.
Lemma tok_ge : tok_of_string ">=" = TW ">=". Proof. reflexivity. Qed.
Lemma tok_le : tok_of_string "<=" = TW "<=". Proof. reflexivity. Qed.
Lemma tok_eq : tok_of_string "=" = TW "=". Proof. reflexivity. Qed.
Lemma tok_semi : tok_of_string ";" = TW ";". Proof. reflexivity. Qed.

Lemma map_tok_Z l : map tok_of_string (map string_of_Z l) = map TI l.
Proof. rewrite map_map. apply map_ext. apply tok_of_string_Z. Qed.

Lemma word_V z : is_word_s (String "v" (string_of_Z z)) = true.
Proof. unfold is_word_s, no_ws. cbn [str_forall]. exact (string_of_Z_no_ws z). Qed.

(** * Lines *)

Theorem lines_app_nl_gen a b : lines (a +s+ String nl b) = lines a ++ lines b.
Proof.
  induction a as [|c r IH]; [apply lines_nl|].
  unfold lines in *. cbn [String.append lines_go].
  destruct (lines_go (r +s+ String nl b)) as [l ls]. destruct (lines_go r) as [l' ls'].
  cbn [app] in IH. injection IH as -> ->.
  destruct (Ascii.eqb c nl); reflexivity.
Qed.

Lemma join_cons sep a l : l <> [] -> join sep (a :: l) = a +s+ sep +s+ join sep l.
Proof. destruct l; [congruence|reflexivity]. Qed.

Lemma join_empty_cons a l : join EmptyString (a :: l) = a +s+ join EmptyString l.
Proof. destruct l; [cbn [join]; now rewrite app_nil_r_s|reflexivity]. Qed.

Definition all_no_nl (ls : list string) : Prop := Forall (fun w => no_nl w = true) ls.

Lemma lines_join_nl ls : all_no_nl ls -> ls <> [] -> lines (join nl_s ls) = ls.
Proof.
  induction ls as [|a r IH]; intros H N; [congruence|].
  inversion H as [|? ? Ha Hr]; subst.
  destruct r as [|b r2]; [now apply lines_no_nl|].
  rewrite join_cons by discriminate. unfold nl_s at 1. cbn [String.append].
  rewrite lines_app_nl by exact Ha. now rewrite IH.
Qed.

(** [''.join(l + '\n' for l in ls) + rest] *)
Lemma lines_concat_nl ls rest :
  all_no_nl ls ->
  lines (join EmptyString (map (fun l => l +s+ nl_s) ls) +s+ rest) = ls ++ lines rest.
Proof.
  induction ls as [|a r IH]; intros H; [reflexivity|].
  inversion H as [|? ? Ha Hr]; subst.
  cbn [map]. rewrite join_empty_cons, !app_assoc_s. unfold nl_s at 1. cbn [String.append].
  rewrite lines_app_nl by exact Ha. now rewrite IH.
Qed.

Ltac no_nl_tac :=
  repeat (rewrite no_nl_app); rewrite ?string_of_Z_no_nl;
  rewrite ?no_nl_join_sp by (apply no_nl_map_Z); reflexivity.

(** * DIMACS: the printed lines, tokenised *)

Definition hdr_text (nv m : Z) : string := "p cnf " +s+ string_of_Z nv +s+ sp +s+ string_of_Z m.

Lemma header_text_app nv m x :
  header_text nv m +s+ x = hdr_text nv m +s+ String nl (String nl x).
Proof.
  unfold header_text, hdr_text. rewrite !app_assoc_s. reflexivity.
Qed.

Lemma no_nl_hdr nv m : no_nl (hdr_text nv m) = true.
Proof. unfold hdr_text. no_nl_tac. Qed.

Lemma lex_hdr nv m : lex_line (hdr_text nv m) = header nv m.
Proof.
  unfold lex_line, hdr_text.
  change ("p cnf " +s+ string_of_Z nv +s+ sp +s+ string_of_Z m)
    with ("p" +s+ String " " ("cnf" +s+ String " " (string_of_Z nv +s+ String " " (string_of_Z m)))).
  rewrite !split_ws_cons by (reflexivity || apply string_of_Z_word).
  rewrite split_ws_single by apply string_of_Z_word.
  cbn [map]. now rewrite tok_p, tok_cnf, !tok_of_string_Z.
Qed.

Lemma clause_text_eq c : clause_text c = join sp (map string_of_Z c) +s+ sp +s+ string_of_Z 0.
Proof. reflexivity. Qed.

Lemma no_nl_clause_text c : no_nl (clause_text c) = true.
Proof. unfold clause_text. no_nl_tac. Qed.

(** Tokenising the printed clause line gives the literals and the 0 - also
    for the empty clause, whose line [" 0"] begins with a blank. *)
Lemma lex_clause_text c : lex_line (clause_text c) = clause_line c.
Proof.
  unfold lex_line, clause_line. rewrite clause_text_eq, split_ws_clause_line.
  rewrite map_tok_Z, map_app. reflexivity.
Qed.

Lemma no_nl_ind_text ch : no_nl (ind_text ch) = true.
Proof. unfold ind_text. no_nl_tac. Qed.

Lemma lex_ind_text ch : lex_line (ind_text ch) = ind_line ch.
Proof.
  unfold lex_line, ind_line, ind_text.
  change ("c ind " +s+ join sp (map string_of_Z ch) +s+ " 0")
    with ("c" +s+ String " " ("ind" +s+ String " " (join sp (map string_of_Z ch) +s+ sp +s+ string_of_Z 0))).
  rewrite !split_ws_cons by reflexivity. rewrite split_ws_clause_line.
  cbn [map]. rewrite tok_c, tok_ind, map_tok_Z, map_app. reflexivity.
Qed.

Lemma lex_empty : lex_line EmptyString = [].
Proof. reflexivity. Qed.

Lemma all_no_nl_map {A} (f : A -> string) l :
  (forall a, no_nl (f a) = true) -> all_no_nl (map f l).
Proof. intros H. induction l; constructor; auto. Qed.

Lemma lines_str_text cls : lines (str_text cls) = map clause_text (rev cls) ++ [EmptyString].
Proof.
  unfold str_text. rewrite <- (app_nil_r_s (join _ _)).
  rewrite <- (map_map clause_text (fun l => l +s+ nl_s)).
  rewrite lines_concat_nl by (apply all_no_nl_map, no_nl_clause_text). reflexivity.
Qed.

Lemma lex_str_text cls : lex_file (str_text cls) = str_lines cls ++ [[]].
Proof.
  unfold lex_file, str_lines. rewrite lines_str_text, map_app, map_map. cbn [map].
  f_equal. apply map_ext, lex_clause_text.
Qed.

(** [as_dimacs_string] *)
Theorem lex_dimacs_text nv cls : lex_file (dimacs_text nv cls) = dimacs_lines nv cls.
Proof.
  unfold dimacs_text, dimacs_lines. rewrite header_text_app.
  unfold lex_file. rewrite lines_app_nl by apply no_nl_hdr. rewrite lines_nl.
  cbn [map]. rewrite lex_hdr, lex_empty. do 2 f_equal. apply lex_str_text.
Qed.

Lemma lines_support_string ss :
  lines (support_string ss)
  = match chunks10 (length ss) ss with [] => [EmptyString] | ch => map ind_text ch end.
Proof.
  unfold support_string. destruct (chunks10 (length ss) ss) as [|c r] eqn:E; [reflexivity|].
  apply lines_join_nl; [apply all_no_nl_map, no_nl_ind_text|discriminate].
Qed.

(** [as_unigen_string]: the replacement of the first newline lands right after
    the header line. *)
Lemma unigen_text_eq nv ss cls :
  unigen_text nv ss cls
  = hdr_text nv (Z.of_nat (length cls)) +s+ String nl (support_string ss +s+ String nl (str_text cls)).
Proof.
  unfold unigen_text, dimacs_text. rewrite header_text_app.
  rewrite replace_first_nl_app by apply no_nl_hdr.
  unfold nl_s. cbn [String.append]. reflexivity.
Qed.

Theorem lex_unigen_text nv ss cls : lex_file (unigen_text nv ss cls) = unigen_lines nv ss cls.
Proof.
  rewrite unigen_text_eq. unfold lex_file, unigen_lines.
  rewrite lines_app_nl by apply no_nl_hdr. rewrite lines_app_nl_gen, lines_support_string.
  cbn [map]. rewrite lex_hdr. f_equal. rewrite map_app. f_equal; [|apply lex_str_text].
  destruct (chunks10 (length ss) ss) as [|c r]; [reflexivity|].
  cbn [map]. rewrite lex_ind_text, map_map. f_equal. apply map_ext, lex_ind_text.
Qed.

(** [save_cnf] / [combine_and_save_cnf] *)
Theorem lex_save_cnf_text cls support :
  lex_file (save_cnf_text cls support) = save_cnf_lines cls support.
Proof. apply lex_unigen_text. Qed.

Theorem lex_combine_save_text initial fresh support reqs :
  match combine_save_text initial fresh support reqs, combine_save_lines initial fresh support reqs with
  | Some t, Some f => lex_file t = f
  | None, None => True
  | _, _ => False
  end.
Proof.
  unfold combine_save_text, combine_save_lines.
  destruct (combine_requests initial fresh reqs) as [[ok n] cls].
  destruct ok; [apply lex_save_cnf_text|exact I].
Qed.

(** When no clause is empty the text is also the plain rendering of the token
    file (one blank between tokens, one newline between lines); the empty
    clause is the one place where the writer deviates (its line is [" 0"]). *)
Lemma render_clause_line c : c <> [] -> render_line (clause_line c) = clause_text c.
Proof.
  intros H. unfold render_line, clause_line, clause_text.
  rewrite map_app, map_map. cbn [map string_of_tok].
  rewrite <- join_snoc by (destruct c; [congruence|discriminate]). reflexivity.
Qed.

Lemma render_empty_clause_refuted :
  render_line (clause_line []) <> clause_text [] /\ lex_line (clause_text []) = clause_line [].
Proof. split; [discriminate|reflexivity]. Qed.

(** * Solver output *)

Definition v_text (ws : list string) : string := "v" +s+ String " " (join sp ws).

Lemma cms_output_text_eq bs :
  cms_output_text bs
  = "s SATISFIABLE" +s+ String nl (v_text (map string_of_Z (lits_of bs) ++ ["0"%string]) +s+ String nl EmptyString).
Proof. reflexivity. Qed.

Lemma lex_v_text ws : words ws -> lex_line (v_text ws) = TW "v" :: map tok_of_string ws.
Proof.
  intros H. unfold lex_line, v_text. rewrite split_ws_cons by reflexivity.
  rewrite split_ws_join by exact H. cbn [map]. now rewrite tok_v.
Qed.

Lemma no_nl_v_text ws : all_no_nl ws -> no_nl (v_text ws) = true.
Proof. intros H. unfold v_text. cbn. now apply no_nl_join_sp. Qed.

Theorem lex_cms_output_text bs : lex_file (cms_output_text bs) = cms_output bs.
Proof.
  rewrite cms_output_text_eq. unfold lex_file, cms_output.
  rewrite lines_app_nl by reflexivity.
  rewrite lines_app_nl.
  2:{ apply no_nl_v_text. apply Forall_app. split; [apply no_nl_map_Z|now constructor]. }
  cbn [map]. rewrite lex_v_text.
  2:{ apply words_app; [apply words_map_Z|now constructor]. }
  rewrite map_app, map_tok_Z. reflexivity.
Qed.

(** * OPB: the printed constraint lines, tokenised *)

Lemma first_minus_str v : first_minus (string_of_Z v) = (v <? 0).
Proof. exact (string_of_Z_sign v). Qed.

Definition term_w1 (v : Z) : string := if v <? 0 then "-1"%string else "+1"%string.
Definition term_w2 (v : Z) : string := String "v" (string_of_Z (if v <? 0 then - v else v)).
Definition term_words (v : Z) : list string := [term_w1 v; term_w2 v].

Lemma opb_term_text_eq v : opb_term_text v = term_w1 v +s+ sp +s+ term_w2 v.
Proof.
  unfold opb_term_text, term_w1, term_w2. rewrite first_minus_str.
  destruct (v <? 0) eqn:E; [|reflexivity].
  rewrite (string_of_Z_neg v) by lia. reflexivity.
Qed.

Lemma ilp_term_text_eq x : ilp_term_text x = opb_term_text x.
Proof.
  rewrite opb_term_text_eq. unfold ilp_term_text, term_w1, term_w2. rewrite first_minus_str.
  destruct (x <? 0) eqn:E; [|reflexivity].
  replace (Z.abs x) with (- x) by lia. reflexivity.
Qed.

Lemma count_false_text_eq c : count_false_text c = count_neg c.
Proof.
  unfold count_false_text, count_neg. do 2 f_equal. apply filter_ext. intros v. apply first_minus_str.
Qed.

Lemma join_opb_terms c : join sp (map opb_term_text c) = join sp (flat_map term_words c).
Proof.
  rewrite (map_ext _ _ opb_term_text_eq). apply join_pairs.
Qed.

Lemma words_flat_map {A} (f : A -> list string) l :
  (forall a, words (f a)) -> words (flat_map f l).
Proof. intros H. induction l; cbn [flat_map]; [constructor|apply words_app; auto]. Qed.

Lemma words_term v : words (term_words v).
Proof.
  unfold term_words, term_w1. repeat constructor; [now destruct (v <? 0)|apply word_V].
Qed.

Lemma toks_term v : map tok_of_string (term_words v) = opb_term v.
Proof.
  unfold term_words, term_w1, term_w2, opb_term. cbn [map]. rewrite tok_of_string_V.
  destruct (v <? 0); reflexivity.
Qed.

Lemma map_flat_map {A B C} (g : B -> C) (f : A -> list B) l :
  map g (flat_map f l) = flat_map (fun a => map g (f a)) l.
Proof. induction l; cbn [flat_map]; [reflexivity|]. now rewrite map_app, IHl. Qed.

Lemma toks_terms c : map tok_of_string (flat_map term_words c) = flat_map opb_term c.
Proof. rewrite map_flat_map. apply flat_map_ext. apply toks_term. Qed.

Definition plus_words (x : Z) : list string := ["+1"%string; String "v" (string_of_Z x)].

Lemma join_plus_terms vs :
  join sp (map (fun x => "+1 v" +s+ string_of_Z x) vs) = join sp (flat_map plus_words vs).
Proof. exact (join_pairs (fun _ => "+1"%string) (fun x => String "v" (string_of_Z x)) vs). Qed.

Lemma words_plus x : words (plus_words x).
Proof. repeat constructor. apply word_V. Qed.

Lemma toks_plus vs :
  map tok_of_string (flat_map plus_words vs) = flat_map (fun x => [TPlus 1; TV x]) vs.
Proof.
  rewrite map_flat_map. apply flat_map_ext. intros x. cbn [plus_words map].
  now rewrite tok_p1, tok_of_string_V.
Qed.

(** [terms + ' ' + op + ' ' + str(k) + ' ;' + trail] *)
Definition constraint_text (W : list string) (op : string) (k : Z) (trail : string) : string :=
  join sp W +s+ sp +s+ (op +s+ String " " (string_of_Z k +s+ String " " (String ";" trail))).

Lemma lex_constraint W op k trail :
  words W -> is_word_s op = true -> split_ws (String ";" trail) = [";"%string] ->
  lex_line (constraint_text W op k trail) = map tok_of_string W ++ [tok_of_string op; TI k; TW ";"].
Proof.
  intros HW Hop Ht. unfold lex_line, constraint_text.
  rewrite split_ws_join_app by exact HW.
  rewrite split_ws_cons by (exact Hop || reflexivity).
  rewrite split_ws_cons by (apply string_of_Z_word || reflexivity).
  rewrite Ht, map_app. cbn [map]. now rewrite tok_of_string_Z, tok_semi.
Qed.

Lemma all_chars_join p l :
  p " "%char = true -> Forall (fun w => str_forall p w = true) l -> str_forall p (join sp l) = true.
Proof.
  intros Hs. induction l as [|a r IH]; intros H; [reflexivity|].
  inversion H as [|? ? Ha Hr]; subst. destruct r as [|b r2]; [exact Ha|].
  change (join sp (a :: b :: r2)) with (a +s+ sp +s+ join sp (b :: r2)).
  rewrite !str_forall_app, Ha, (IH Hr). cbn. now rewrite Hs.
Qed.

Lemma no_nl_words_Z (f : Z -> list string) l :
  (forall x, all_no_nl (f x)) -> all_no_nl (flat_map f l).
Proof.
  intros H. induction l as [|a l IH]; cbn [flat_map]; [constructor|].
  apply Forall_app. split; [apply H|exact IH].
Qed.

Lemma no_nl_term v : all_no_nl (term_words v).
Proof.
  unfold term_words, term_w1, term_w2. repeat constructor; [now destruct (v <? 0)|].
  unfold no_nl. cbn [str_forall]. exact (string_of_Z_no_nl _).
Qed.

Lemma no_nl_plus x : all_no_nl (plus_words x).
Proof.
  unfold plus_words. repeat constructor. unfold no_nl. cbn [str_forall]. exact (string_of_Z_no_nl _).
Qed.

Lemma no_nl_constraint W op k trail :
  all_no_nl W -> no_nl op = true -> no_nl trail = true -> no_nl (constraint_text W op k trail) = true.
Proof.
  intros HW Hop Ht. unfold constraint_text.
  rewrite !no_nl_app, (no_nl_join_sp W HW), Hop. cbn [andb sp no_nl str_forall].
  change (str_forall (fun c => negb (Ascii.eqb c nl)) ?x) with (no_nl x).
  rewrite no_nl_app, string_of_Z_no_nl. cbn. exact Ht.
Qed.

Lemma opb_clause_text_eq c :
  opb_clause_text c = constraint_text (flat_map term_words c) ">=" (- count_neg c + 1) EmptyString.
Proof.
  unfold opb_clause_text, constraint_text. rewrite join_opb_terms, count_false_text_eq.
  reflexivity.
Qed.

Lemma lex_opb_clause_text c : lex_line (opb_clause_text c) = opb_clause_line c.
Proof.
  rewrite opb_clause_text_eq, lex_constraint by (apply words_flat_map, words_term || reflexivity).
  unfold opb_clause_line. now rewrite toks_terms, tok_ge.
Qed.

Lemma no_nl_opb_clause_text c : no_nl (opb_clause_text c) = true.
Proof.
  rewrite opb_clause_text_eq. apply no_nl_constraint; [apply no_nl_words_Z, no_nl_term| |]; reflexivity.
Qed.

Definition request_body (r : kind * Z * list Z) : string :=
  let '(kd, k, vs) := r in
  constraint_text (flat_map plus_words vs)
                  (match kd with EQ => "=" | LT => "<=" | GT => ">=" end)
                  (match kd with EQ => k | LT => k - 1 | GT => gt_rhs k end) " ".

Lemma opb_request_text_eq r : opb_request_text r = String nl (request_body r).
Proof.
  destruct r as [[kd k] vs]. unfold opb_request_text, request_body, constraint_text.
  rewrite join_plus_terms. unfold nl_s. cbn [String.append]. f_equal.
  destruct kd; unfold cmp_text; rewrite !app_assoc_s; reflexivity.
Qed.

Lemma lex_request_body r : lex_line (request_body r) = opb_request_line r.
Proof.
  destruct r as [[kd k] vs]. unfold request_body.
  rewrite lex_constraint; [|apply words_flat_map, words_plus|now destruct kd|reflexivity].
  unfold opb_request_line, opb_request_line_with, cmp_toks. rewrite toks_plus.
  destruct kd; reflexivity.
Qed.

Lemma no_nl_request_body r : no_nl (request_body r) = true.
Proof.
  destruct r as [[kd k] vs]. unfold request_body.
  apply no_nl_constraint; [apply no_nl_words_Z, no_nl_plus|now destruct kd|reflexivity].
Qed.

Lemma lines_requests t reqs :
  lines (t +s+ join EmptyString (map opb_request_text reqs)) = lines t ++ map request_body reqs.
Proof.
  revert t. induction reqs as [|r rs IH]; intros t.
  - cbn [map join]. now rewrite app_nil_r_s, app_nil_r.
  - cbn [map]. rewrite join_empty_cons, opb_request_text_eq.
    change (String nl (request_body r) +s+ ?x) with (String nl (request_body r +s+ x)).
    replace (t +s+ String nl (request_body r +s+ join EmptyString (map opb_request_text rs)))
      with ((t +s+ String nl (request_body r)) +s+ join EmptyString (map opb_request_text rs))
      by (rewrite app_assoc_s; reflexivity).
    rewrite IH, lines_app_nl_gen, (lines_no_nl _ (no_nl_request_body r)), <- app_assoc. reflexivity.
Qed.

Lemma lex_opb_text cls : lex_file (opb_text cls) = opb_lines cls.
Proof.
  unfold lex_file, opb_text, opb_lines, join_lines.
  destruct (rev cls) as [|c r] eqn:E; [reflexivity|].
  rewrite lines_join_nl; [|apply all_no_nl_map, no_nl_opb_clause_text|discriminate].
  rewrite map_map. cbn [map]. rewrite lex_opb_clause_text. f_equal. apply map_ext, lex_opb_clause_text.
Qed.

(** [combine_and_save_opb] *)
Theorem lex_opb_file_text cls reqs : lex_file (opb_file_text cls reqs) = opb_file cls reqs.
Proof.
  unfold opb_file_text, opb_file, opb_file_with. unfold lex_file at 1.
  rewrite lines_requests, map_app, map_map. f_equal; [apply lex_opb_text|].
  apply map_ext, lex_request_body.
Qed.

(** [sample_ilp.update_file] *)
Lemma ilp_update_text_eq f sol :
  ilp_update_text f sol
  = f +s+ String nl (constraint_text (flat_map term_words sol) "<="
                                     (Z.of_nat (length sol) - 1 - count_neg sol) EmptyString
                     +s+ String nl EmptyString).
Proof.
  unfold ilp_update_text, constraint_text.
  rewrite (map_ext _ _ ilp_term_text_eq), join_opb_terms.
  rewrite !app_assoc_s. cbn [String.append sp nl_s]. rewrite !app_assoc_s. reflexivity.
Qed.

Theorem lex_ilp_update_text f sol :
  lex_file (ilp_update_text f sol) = ilp_update (lex_file f) sol.
Proof.
  rewrite ilp_update_text_eq. unfold ilp_update, lex_file.
  rewrite lines_app_nl_gen, map_app. f_equal.
  rewrite lines_app_nl.
  2:{ apply no_nl_constraint; [apply no_nl_words_Z, no_nl_term| |]; reflexivity. }
  cbn [map]. rewrite lex_constraint by (apply words_flat_map, words_term || reflexivity).
  unfold ilp_block_line. rewrite toks_terms, tok_le.
  rewrite (flat_map_ext _ _ (fun x => eq_sym (OpbProofs.ilp_term_opb x))). reflexivity.
Qed.

(** * Sampler output ([call_unigen_python], [call_cmsgen_python]) *)

Lemma lex_sample_lines {A} (mk_text : A -> string) (mk_line : A -> line) xs :
  (forall x, no_nl (mk_text x) = true) -> (forall x, lex_line (mk_text x) = mk_line x) -> xs <> [] ->
  lex_file (join nl_s (map mk_text xs) +s+ nl_s) = map mk_line xs ++ [[]].
Proof.
  intros Hn Hl Hx. unfold lex_file, nl_s. rewrite lines_app_nl_gen.
  rewrite lines_join_nl; [|now apply all_no_nl_map|destruct xs; [congruence|discriminate]].
  rewrite map_app, map_map. f_equal. now apply map_ext.
Qed.

Definition sample_text (lits : list Z) (term : string) : string :=
  "v" +s+ String " " (join sp (map string_of_Z lits) +s+ sp +s+ term).

Lemma lex_sample_text lits term :
  is_word_s term = true ->
  lex_line (sample_text lits term) = TW "v" :: map TI lits ++ [tok_of_string term].
Proof.
  intros H. unfold lex_line, sample_text. rewrite split_ws_cons by reflexivity.
  rewrite split_ws_join_snoc by (apply words_map_Z || exact H).
  cbn [map]. now rewrite tok_v, map_app, map_tok_Z.
Qed.

Lemma no_nl_sample_text lits term : no_nl term = true -> no_nl (sample_text lits term) = true.
Proof.
  intros H. unfold sample_text. cbn [String.append no_nl str_forall]. cbn [Ascii.eqb nl negb andb].
  change (str_forall (fun c => negb (Ascii.eqb c nl)) ?x) with (no_nl x).
  rewrite !no_nl_app, H, (no_nl_join_sp _ (no_nl_map_Z lits)). reflexivity.
Qed.

Theorem lex_unigen_format_text samples : lex_file (unigen_format_text samples) = unigen_format samples.
Proof.
  unfold unigen_format_text, unigen_format. destruct samples as [|s r]; [reflexivity|].
  apply (lex_sample_lines unigen_sample_text); [| |discriminate].
  - intros x. exact (no_nl_sample_text x "0:1" eq_refl).
  - intros x. exact (lex_sample_text x "0:1" eq_refl).
Qed.

Theorem lex_cmsgen_format_text ss sols :
  sols <> [] -> lex_file (cmsgen_format_text ss sols) = cmsgen_format ss sols.
Proof.
  intros H. unfold cmsgen_format_text, cmsgen_format.
  apply (lex_sample_lines (cmsgen_sample_text ss)); [| |exact H].
  - intros x. exact (no_nl_sample_text _ "0" eq_refl).
  - intros x. exact (lex_sample_text _ "0" eq_refl).
Qed.

(** Without any solution [call_cmsgen_python] returns ["\n"], one blank line more
    than the token-level [cmsgen_format] has; both parse to no sample. *)
Lemma lex_cmsgen_format_text_nil ss : lex_file (cmsgen_format_text ss []) = [[]; []].
Proof. reflexivity. Qed.
