(** The character-level statements of Properties/C27.v and C28.v: the
    token-level theorems of Text/TextTheorems.v transported along
    [lex_file (x_text a) = x_lines a] (Text/TextCharsProofs.v). *)
From Coq Require Import String Ascii ZArith List Bool Lia Permutation.
From SP Require Import Base.Sat Core.Card Text.Tok Text.TokProofs Text.Chars Text.CharsProofs.
From SP Require Import Text.Dimacs Text.SolverIO Text.Opb Text.DimacsProofs Text.SolverIOProofs Text.OpbProofs.
From SP Require Import Text.TextTheorems Text.TextChars Text.TextCharsProofs.
Import ListNotations.
Open Scope Z_scope.

(** * The character layer itself *)

Lemma chars_layer :
  (forall z, Z_of_string (string_of_Z z) = Some z) /\
  (forall z, is_word_s (string_of_Z z) = true /\ no_nl (string_of_Z z) = true) /\
  (forall toks, words toks -> split_ws (join sp toks) = toks) /\
  (forall c : list Z,
     split_ws (join sp (map string_of_Z c) +s+ sp +s+ string_of_Z 0) = map string_of_Z (c ++ [0]) /\
     map_opt_s Z_of_string (split_ws (join sp (map string_of_Z c) +s+ sp +s+ string_of_Z 0)) = Some (c ++ [0])).
Proof.
  split; [exact Z_of_string_of_Z|]. split; [intros z; split; [apply string_of_Z_word|apply string_of_Z_no_nl]|].
  split; [exact split_ws_join|]. intros c. split; [apply split_ws_clause_line|apply ints_of_clause_line].
Qed.

(** The text of every writer, cut into lines and words, is the token file of
    the token-level model. *)
Lemma text_lexes_to_tokens :
  (forall cls support, lex_file (save_cnf_text cls support) = save_cnf_lines cls support) /\
  (forall nv ss cls, lex_file (unigen_text nv ss cls) = unigen_lines nv ss cls) /\
  (forall nv cls, lex_file (dimacs_text nv cls) = dimacs_lines nv cls) /\
  (forall cls, lex_file (str_text cls) = str_lines cls ++ [[]]) /\
  (forall bs, lex_file (cms_output_text bs) = cms_output bs).
Proof.
  split; [exact lex_save_cnf_text|]. split; [exact lex_unigen_text|]. split; [exact lex_dimacs_text|].
  split; [exact lex_str_text|exact lex_cms_output_text].
Qed.

(** * C27 *)

Lemma parse_print_chars (cls : cnf) n :
  (forall c, In c cls -> nonzero c) -> no_empty_clause cls ->
  parse_cms_text (save_cnf_text cls (Some n)) = Some (cnf_num_vars cls, rev cls) /\
  parse_unigen_text (save_cnf_text cls (Some n)) = Some (rev cls, support_set n, cnf_num_vars cls) /\
  Permutation (rev cls) cls.
Proof.
  unfold parse_cms_text, parse_unigen_text. rewrite lex_save_cnf_text. apply parse_print.
Qed.

Lemma parse_print_general_chars nv ss (cls : cnf) :
  nonzero ss -> (forall c, In c cls -> nonzero c) ->
  parse_cms_text (unigen_text nv ss cls) = Some (nv, nonempty_clauses (rev cls)) /\
  parse_unigen_text (unigen_text nv ss cls) = Some (nonempty_clauses (rev cls), sort_uniq ss, nv) /\
  parse_cms_text (dimacs_text nv cls) = Some (nv, nonempty_clauses (rev cls)).
Proof.
  unfold parse_cms_text, parse_unigen_text. rewrite lex_unigen_text, lex_dimacs_text.
  apply parse_print_general.
Qed.

(** The empty clause is written as the line [" 0"]; both parsers drop it. *)
Lemma parse_print_empty_clause_chars_refuted :
  exists cls s cs,
    lines (save_cnf_text cls (Some 1))
    = ["p cnf 1 2"; "c ind 1 0"; " 0"; "1 0"; ""]%string /\
    sat s cls = false /\
    parse_cms_text (save_cnf_text cls (Some 1)) = Some (cnf_num_vars cls, cs) /\
    parse_unigen_text (save_cnf_text cls (Some 1)) = Some (cs, [1], cnf_num_vars cls) /\
    sat s cs = true /\ ~ Permutation cs cls.
Proof.
  exists [[1]; []], (fun _ => true), [[1]].
  split; [vm_compute; reflexivity|]. split; [reflexivity|].
  split; [vm_compute; reflexivity|]. split; [vm_compute; reflexivity|]. split; [reflexivity|].
  intros P. apply Permutation_length in P. discriminate.
Qed.

Lemma sampling_set_chars solve (cls : cnf) n :
  (forall c, In c cls -> nonzero c) -> no_empty_clause cls -> cls <> [] -> 1 <= n ->
  (solve (rev cls) = true ->
   sampler_input_text solve (save_cnf_text cls (Some n)) = Some (Some (rev cls, support_set n))) /\
  (solve (rev cls) = false ->
   sampler_input_text solve (save_cnf_text cls (Some n)) = Some None).
Proof.
  intros H1 H2 H3 H4. unfold sampler_input_text. rewrite lex_save_cnf_text.
  destruct (sampling_set solve cls n H1 H2 H3 H4) as [A [B _]]. now split.
Qed.

Lemma save_cnf_first_line cls support :
  hd EmptyString (lines (save_cnf_text cls support))
  = hdr_text (cnf_num_vars cls) (Z.of_nat (length cls)).
Proof.
  unfold save_cnf_text. rewrite unigen_text_eq, lines_app_nl by apply no_nl_hdr. reflexivity.
Qed.

Lemma header_vars_chars (cls : cnf) support :
  hd EmptyString (lines (save_cnf_text cls support))
  = "p cnf " +s+ string_of_Z (cnf_num_vars cls) +s+ sp +s+ string_of_Z (Z.of_nat (length cls)) /\
  split_ws (hd EmptyString (lines (save_cnf_text cls support)))
  = ["p"%string; "cnf"%string; string_of_Z (cnf_num_vars cls); string_of_Z (Z.of_nat (length cls))] /\
  (forall c l, In c cls -> In l c -> Z.abs l <= cnf_num_vars cls) /\
  (0 < cnf_num_vars cls -> exists c l, In c cls /\ In l c /\ Z.abs l = cnf_num_vars cls).
Proof.
  split; [apply save_cnf_first_line|]. split.
  - rewrite save_cnf_first_line. unfold hdr_text.
    change ("p cnf " +s+ ?a +s+ sp +s+ ?b) with ("p" +s+ String " " ("cnf" +s+ String " " (a +s+ String " " b))).
    rewrite !split_ws_cons by (reflexivity || apply string_of_Z_word).
    now rewrite split_ws_single by apply string_of_Z_word.
  - split; [apply header_vars_bound|apply header_vars_tight].
Qed.

Lemma solver_output_roundtrip_chars bs support :
  0 <= support <= Z.of_nat (length bs) ->
  parse_v_text (cms_output_text bs) = Some (lits_of bs ++ [0]) /\
  solve_result_text (cms_output_text bs) support = Some (lits_of (firstn (Z.to_nat support) bs)) /\
  (forall s, forallb (lit_true s) (lits_of bs) = true <-> asg_matches s 1 bs).
Proof.
  unfold parse_v_text, solve_result_text. rewrite lex_cms_output_text. apply solver_output_roundtrip.
Qed.

(** * C28 *)

Lemma opb_file_chars s (cls : cnf) reqs :
  (forall c, In c cls -> nonzero c) ->
  lex_file (opb_file_text cls reqs) = opb_file cls reqs /\
  pb_file_sat_text s (opb_file_text cls reqs) = Some (sat s cls && forallb (req_holds s) reqs).
Proof.
  intros H. split; [apply lex_opb_file_text|].
  unfold pb_file_sat_text. rewrite lex_opb_file_text. now apply opb_file_equiv.
Qed.

Lemma ilp_update_chars s f sol :
  nonzero sol ->
  lex_file (ilp_update_text f sol) = ilp_update (lex_file f) sol /\
  pb_file_sat_text s (ilp_update_text f sol)
  = match pb_file_sat_text s f with
    | Some b => Some (b && negb (forallb (lit_true s) sol))
    | None => None
    end.
Proof.
  intros H. split; [apply lex_ilp_update_text|].
  unfold pb_file_sat_text. rewrite lex_ilp_update_text. now apply ilp_update_sat.
Qed.

(** * The update step of the non-uniform sampler, on the characters *)
From SP Require Import Text.TextCharsUpdate.

Lemma update_file_chars s sol f' :
  update_file (lex_file s) sol = Some f' ->
  exists t, update_file_text s sol = Some t /\ lex_file t = f'.
Proof. apply update_file_text_correct. Qed.

Lemma update_file_blocks_chars s nv m rest sol :
  has_header (lex_file s) nv m rest -> sol <> [] -> nonzero sol ->
  exists t,
    update_file_text s sol = Some t /\
    has_header (lex_file t) nv (m + 1) (rest ++ [clause_line (blocking_clause sol)]) /\
    (forall n cs, parse_cms_text s = Some (n, cs) ->
                  parse_cms_text t = Some (n, cs ++ [blocking_clause sol])) /\
    (forall cs ss n, parse_unigen_text s = Some (cs, ss, n) ->
                     parse_unigen_text t = Some (cs ++ [blocking_clause sol], ss, n)).
Proof.
  intros H Hne Hnz.
  destruct (update_file_blocks (lex_file s) nv m rest sol H Hne Hnz) as [f' [U [HH [PC [PU _]]]]].
  destruct (update_file_text_correct s sol f' U) as [t [T L]].
  exists t. unfold parse_cms_text, parse_unigen_text. rewrite L. repeat split; assumption.
Qed.

(** * Sampler output, on the characters *)
Lemma sampler_output_roundtrip_chars :
  (forall samples, lex_file (unigen_format_text samples) = unigen_format samples /\
                   parse_sampler_text (unigen_format_text samples)
                   = Some (map (fun smp => (smp, 1)) samples)) /\
  (forall ss sols, sols <> [] ->
                   lex_file (cmsgen_format_text ss sols) = cmsgen_format ss sols) /\
  (forall ss sols, parse_sampler_text (cmsgen_format_text ss sols)
                   = Some (map (fun sol => (map (cms_lit sol) ss, 0)) sols)).
Proof.
  split; [|split].
  - intros samples. split; [apply lex_unigen_format_text|].
    unfold parse_sampler_text. rewrite lex_unigen_format_text. apply parse_sampler_unigen.
  - intros ss sols H. now apply lex_cmsgen_format_text.
  - intros ss sols. unfold parse_sampler_text. destruct sols as [|s r]; [reflexivity|].
    rewrite lex_cmsgen_format_text by discriminate. apply parse_sampler_cmsgen.
Qed.
