(** [sample_non_uniform.update_file] at character level: whenever the
    token-level step [Dimacs.update_file] succeeds on the tokens of a text [s]
    (ANY text), the character-level step [update_file_text] succeeds on [s] and
    the text it writes lexes to the token-level result.  The work is the
    relation between [str.strip()] on the text and the removal of blank lines at
    both ends of the token file. *)
From Coq Require Import String Ascii ZArith List Bool Lia.
From SP Require Import Base.Sat Core.Card Text.Tok Text.TokProofs Text.Chars Text.CharsProofs.
From SP Require Import Text.Dimacs Text.SolverIO Text.Opb Text.DimacsProofs Text.TextChars Text.TextCharsProofs.
Import ListNotations.
Open Scope Z_scope.

Definition blank (s : string) : bool := str_forall is_ws s.
Definition rstrip := rstrip_p is_ws.
Definition lstrip := lstrip_p is_ws.

Lemma strip_eq s : strip s = rstrip (lstrip s).
Proof. reflexivity. Qed.

(** * split() ignores blanks at both ends *)

Lemma split_go_rstrip l : split_go (rstrip l) = split_go l.
Proof.
  induction l as [|c r IH]; [reflexivity|].
  unfold rstrip in *. cbn [rstrip_p]. destruct (rstrip_p is_ws r) as [|c2 r2] eqn:E.
  - cbn [split_go]. rewrite <- IH. cbn [split_go]. destruct (is_ws c) eqn:Hc; cbn [split_go]; rewrite ?Hc; reflexivity.
  - cbn [split_go]. rewrite <- IH. reflexivity.
Qed.

Lemma split_ws_rstrip l : split_ws (rstrip l) = split_ws l.
Proof. unfold split_ws. now rewrite split_go_rstrip. Qed.

Lemma blank_split l : blank l = true -> split_go l = (EmptyString, []).
Proof.
  induction l as [|c r IH]; [reflexivity|]. unfold blank in *. cbn [str_forall split_go].
  rewrite andb_true_iff. intros [Hc Hr]. now rewrite (IH Hr), Hc.
Qed.

Lemma nonblank_split l : blank l = false -> split_ws l <> [].
Proof.
  induction l as [|c r IH]; [discriminate|]. unfold blank in *. cbn [str_forall].
  unfold split_ws in *. cbn [split_go]. destruct (split_go r) as [w ws].
  destruct (is_ws c) eqn:Hc; cbn [andb].
  - intros H. cbn [flush]. exact (IH H).
  - intros _. cbn [flush]. discriminate.
Qed.

Lemma blank_lex l : is_empty_line (lex_line l) = blank l.
Proof.
  destruct (blank l) eqn:E.
  - unfold lex_line, split_ws. now rewrite (blank_split _ E).
  - pose proof (nonblank_split _ E) as N. unfold lex_line. destruct (split_ws l); [congruence|reflexivity].
Qed.

Lemma rstrip_blank l : blank l = true -> rstrip l = EmptyString.
Proof.
  induction l as [|c r IH]; [reflexivity|]. unfold blank, rstrip in *. cbn [str_forall rstrip_p].
  rewrite andb_true_iff. intros [Hc Hr]. now rewrite (IH Hr), Hc.
Qed.

Lemma rstrip_nonblank l : blank l = false -> rstrip l <> EmptyString.
Proof.
  induction l as [|c r IH]; [discriminate|]. unfold blank, rstrip in *. cbn [str_forall rstrip_p].
  destruct (is_ws c) eqn:Hc; cbn [andb].
  - intros H. specialize (IH H). destruct (rstrip_p is_ws r); [congruence|discriminate].
  - intros _. destruct (rstrip_p is_ws r); discriminate.
Qed.

Lemma rstrip_cons_nonempty c r : rstrip r <> EmptyString -> rstrip (String c r) = String c (rstrip r).
Proof. unfold rstrip. cbn [rstrip_p]. destruct (rstrip_p is_ws r); [congruence|reflexivity]. Qed.

Lemma rstrip_cons_empty c r :
  rstrip r = EmptyString -> rstrip (String c r) = if is_ws c then EmptyString else String c EmptyString.
Proof. unfold rstrip. cbn [rstrip_p]. intros ->. reflexivity. Qed.

(** * Lines of a right-stripped text *)

(** blank lines at the end go, the last remaining line is right-stripped *)
Fixpoint rstrip_lines (ls : list string) : list string :=
  match ls with
  | [] => []
  | l :: r =>
    match rstrip_lines r with
    | [] => if blank l then [] else [rstrip l]
    | r' => l :: r'
    end
  end.

Lemma lines_cons c r :
  lines (String c r)
  = if Ascii.eqb c nl then EmptyString :: lines r
    else String c (hd EmptyString (lines r)) :: tl (lines r).
Proof.
  unfold lines. cbn [lines_go]. destruct (lines_go r) as [l ls]. destruct (Ascii.eqb c nl); reflexivity.
Qed.

Lemma lines_nonempty s : lines s <> [].
Proof. unfold lines. destruct (lines_go s). discriminate. Qed.

Lemma nl_is_ws c : Ascii.eqb c nl = true -> is_ws c = true.
Proof. intros H. apply Ascii.eqb_eq in H. now subst. Qed.

Lemma lines_rstrip t :
  (rstrip t = EmptyString -> rstrip_lines (lines t) = []) /\
  (rstrip t <> EmptyString -> lines (rstrip t) = rstrip_lines (lines t)).
Proof.
  induction t as [|c r [IH1 IH2]]; [split; [reflexivity|intros H; exfalso; apply H; reflexivity]|].
  assert (IH3 : rstrip_lines (lines r) = [] -> rstrip r = EmptyString).
  { intros E. destruct (string_dec (rstrip r) EmptyString) as [Z|N]; [exact Z|].
    specialize (IH2 N). rewrite E in IH2. now apply lines_nonempty in IH2. }
  rewrite lines_cons. destruct (Ascii.eqb c nl) eqn:Hnl.
  - (* newline *)
    pose proof (nl_is_ws _ Hnl) as Hw. cbn [rstrip_lines]. change (blank EmptyString) with true. cbn iota.
    destruct (string_dec (rstrip r) EmptyString) as [Z|N].
    + rewrite (rstrip_cons_empty _ _ Z), Hw, (IH1 Z). split; [reflexivity|congruence].
    + rewrite (rstrip_cons_nonempty _ _ N). split; [discriminate|]. intros _.
      rewrite lines_cons, Hnl, (IH2 N). pose proof (lines_nonempty (rstrip r)) as NE. rewrite (IH2 N) in NE.
      destruct (rstrip_lines (lines r)); [congruence|reflexivity].
  - (* another character: it joins the first line of [r] *)
    destruct (lines r) as [|l ls] eqn:EL; [now apply lines_nonempty in EL|].
    cbn [hd tl]. cbn [rstrip_lines] in *.
    destruct (rstrip_lines ls) as [|x xs] eqn:ER.
    + destruct (blank l) eqn:BL.
      * (* the rest is blank *)
        pose proof (IH3 eq_refl) as Z. rewrite (rstrip_cons_empty _ _ Z).
        unfold blank. cbn [str_forall]. fold (blank l). rewrite BL, andb_true_r.
        destruct (is_ws c) eqn:Hc; [split; [reflexivity|congruence]|].
        split; [discriminate|]. intros _. rewrite lines_cons, Hnl.
        change (lines EmptyString) with [EmptyString]. cbn [hd tl].
        unfold rstrip. cbn [rstrip_p].
        fold (rstrip l). rewrite (rstrip_blank _ BL), Hc. reflexivity.
      * assert (N : rstrip r <> EmptyString).
        { intros Z. specialize (IH1 Z). discriminate. }
        rewrite (rstrip_cons_nonempty _ _ N). split; [discriminate|]. intros _.
        rewrite lines_cons, Hnl, (IH2 N). cbn [hd tl].
        unfold blank. cbn [str_forall]. fold (blank l). rewrite BL, andb_false_r.
        now rewrite (rstrip_cons_nonempty _ _ (rstrip_nonblank _ BL)).
    + assert (N : rstrip r <> EmptyString).
      { intros Z. specialize (IH1 Z). discriminate. }
      rewrite (rstrip_cons_nonempty _ _ N). split; [discriminate|]. intros _.
      rewrite lines_cons, Hnl, (IH2 N). reflexivity.
Qed.

Lemma lex_rstrip_lines ls : map lex_line (rstrip_lines ls) = drop_trailing (map lex_line ls).
Proof.
  induction ls as [|l r IH]; [reflexivity|]. cbn [rstrip_lines map drop_trailing].
  rewrite <- IH. destruct (rstrip_lines r) as [|x xs]; cbn [map].
  - rewrite blank_lex. destruct (blank l); [reflexivity|].
    cbn [map]. unfold lex_line. now rewrite split_ws_rstrip.
  - reflexivity.
Qed.

(** * Lines of a left-stripped text *)

Lemma lex_file_ws c r :
  is_ws c = true -> Ascii.eqb c nl = false -> lex_file (String c r) = lex_file r.
Proof.
  intros Hw Hn. unfold lex_file. rewrite lines_cons, Hn.
  destruct (lines r) as [|l ls] eqn:E; [now apply lines_nonempty in E|].
  cbn [hd tl map]. f_equal. unfold lex_line. now rewrite split_ws_lead.
Qed.

Lemma lex_lstrip s : drop_leading (lex_file (lstrip s)) = drop_leading (lex_file s).
Proof.
  induction s as [|c r IH]; [reflexivity|]. unfold lstrip in *. cbn [lstrip_p].
  destruct (is_ws c) eqn:Hw; [|reflexivity]. rewrite IH.
  destruct (Ascii.eqb c nl) eqn:Hn.
  - apply Ascii.eqb_eq in Hn. subst c. unfold lex_file. rewrite lines_nl. reflexivity.
  - now rewrite lex_file_ws.
Qed.

Lemma lstrip_head s c r : lstrip s = String c r -> is_ws c = false.
Proof.
  induction s as [|x t IH]; [discriminate|]. unfold lstrip in *. cbn [lstrip_p].
  destruct (is_ws x) eqn:Hx; [exact IH|]. intros E. injection E as -> _. exact Hx.
Qed.

Lemma not_ws_not_nl c : is_ws c = false -> Ascii.eqb c nl = false.
Proof. intros H. destruct (Ascii.eqb c nl) eqn:E; [|reflexivity]. apply nl_is_ws in E. congruence. Qed.

Lemma lex_file_head_nonblank c r :
  is_ws c = false -> drop_leading (lex_file (String c r)) = lex_file (String c r).
Proof.
  intros Hw. unfold lex_file. rewrite lines_cons, (not_ws_not_nl _ Hw). cbn [map drop_leading].
  rewrite blank_lex. unfold blank. cbn [str_forall]. now rewrite Hw.
Qed.

(** * strip() on the text = removal of blank lines at both ends of the token file *)

Theorem lex_strip s :
  (strip s = EmptyString -> strip_file (lex_file s) = []) /\
  (strip s <> EmptyString -> lex_file (strip s) = strip_file (lex_file s)).
Proof.
  rewrite strip_eq. unfold strip_file. rewrite <- lex_lstrip.
  destruct (lstrip s) as [|c r] eqn:E; [split; [reflexivity|intros H; now contradiction H]|].
  pose proof (lstrip_head _ _ _ E) as Hw. rewrite (lex_file_head_nonblank _ _ Hw).
  destruct (lines_rstrip (String c r)) as [A B]. unfold lex_file.
  rewrite <- lex_rstrip_lines. split.
  - intros Z. now rewrite (A Z).
  - intros N. now rewrite (B N).
Qed.

(** * Words and lines contain no newline *)

Lemma flush_words w ws : no_ws w = true -> words ws -> words (flush w ws).
Proof.
  intros Hw Hs. destruct w as [|c r]; [exact Hs|]. constructor; [exact Hw|exact Hs].
Qed.

Lemma split_go_words s : no_ws (fst (split_go s)) = true /\ words (snd (split_go s)).
Proof.
  induction s as [|c r [IH1 IH2]]; [split; [reflexivity|constructor]|].
  cbn [split_go]. destruct (split_go r) as [w ws]. cbn [fst snd] in *.
  destruct (is_ws c) eqn:Hc; cbn [fst snd].
  - split; [reflexivity|now apply flush_words].
  - split; [|exact IH2]. unfold no_ws. cbn [str_forall]. now rewrite Hc.
Qed.

Theorem split_ws_words s : words (split_ws s).
Proof.
  unfold split_ws. destruct (split_go_words s) as [A B]. destruct (split_go s) as [w ws].
  now apply flush_words.
Qed.

Lemma word_no_nl w : is_word_s w = true -> no_nl w = true.
Proof.
  intros H. apply is_word_no_ws in H. eapply str_forall_impl; [|exact H].
  intros c Hc. cbv beta in *. apply negb_true_iff in Hc. apply negb_true_iff. now apply not_ws_not_nl.
Qed.

Lemma lines_go_no_nl s : no_nl (fst (lines_go s)) = true /\ all_no_nl (snd (lines_go s)).
Proof.
  induction s as [|c r [IH1 IH2]]; [split; [reflexivity|constructor]|].
  cbn [lines_go]. destruct (lines_go r) as [l ls]. cbn [fst snd] in *.
  destruct (Ascii.eqb c nl) eqn:Hc; cbn [fst snd].
  - split; [reflexivity|now constructor].
  - split; [|exact IH2]. unfold no_nl. cbn [str_forall]. now rewrite Hc.
Qed.

Theorem lines_all_no_nl s : all_no_nl (lines s).
Proof.
  unfold lines. destruct (lines_go_no_nl s) as [A B]. destruct (lines_go s) as [l ls]. now constructor.
Qed.

(** * [int] of a word the token level reads as an integer *)

Lemma canon_Z_sound w z : canon_Z w = Some z -> Z_of_string w = Some z /\ w = string_of_Z z.
Proof.
  unfold canon_Z. destruct (Z_of_string w) as [x|]; [|discriminate].
  destruct (String.eqb (string_of_Z x) w) eqn:E; [|discriminate].
  intros H. injection H as <-. apply String.eqb_eq in E. now split.
Qed.

Lemma Z_of_string_plus z : 0 <= z -> Z_of_string (String "+" (string_of_Z z)) = Some z.
Proof.
  intros H. unfold Z_of_string. rewrite strip_c_no_ws.
  - cbn. unfold string_of_Z. replace (z <? 0) with false by lia.
    now apply digits_val_string_of_nonneg.
  - unfold no_ws. cbn [str_forall]. exact (string_of_Z_no_ws z).
Qed.

Theorem tok_int_sound w m : tok_int (tok_of_string w) = Some m -> Z_of_string w = Some m.
Proof.
  unfold tok_of_string. destruct (canon_Z w) as [z|] eqn:C.
  - cbn [tok_int]. intros H. injection H as <-. now apply canon_Z_sound in C.
  - destruct (plus_tok w) as [t|] eqn:P.
    + unfold plus_tok in P. destruct w as [|c r]; [discriminate|].
      destruct (Ascii.eqb c "+") eqn:Ec; [|discriminate]. apply Ascii.eqb_eq in Ec. subst c.
      destruct (canon_Z r) as [z|] eqn:Cr; [|discriminate].
      destruct (0 <=? z) eqn:Hz; [|discriminate]. injection P as <-.
      cbn [tok_int]. rewrite Hz. intros H. injection H as <-.
      apply canon_Z_sound in Cr. destruct Cr as [_ ->]. apply Z_of_string_plus. lia.
    + destruct (v_tok w) as [t|] eqn:V.
      * unfold v_tok in V. destruct w as [|c r]; [discriminate|].
        destruct (Ascii.eqb c "v"); [|discriminate]. destruct (canon_Z r); [|discriminate].
        injection V as <-. discriminate.
      * destruct (freq_tok w) as [t|] eqn:F; [|discriminate].
        unfold freq_tok in F. destruct (cut_colon w) as [[a b]|]; [|discriminate].
        destruct (canon_Z a); [|discriminate]. destruct (canon_Z b); [|discriminate].
        injection F as <-. discriminate.
Qed.

(** * The update step *)

Definition block_text (sol : list Z) : string := join sp (map string_of_Z (blocking_clause sol ++ [0])).

Lemma lex_block_text sol : lex_line (block_text sol) = clause_line (blocking_clause sol).
Proof.
  unfold lex_line, block_text, clause_line. rewrite split_ws_join by apply words_map_Z.
  now rewrite map_tok_Z, map_app.
Qed.

Lemma no_nl_block_text sol : no_nl (block_text sol) = true.
Proof. apply no_nl_join_sp, no_nl_map_Z. Qed.

Theorem update_file_text_correct s sol f' :
  update_file (lex_file s) sol = Some f' ->
  exists t, update_file_text s sol = Some t /\ lex_file t = f'.
Proof.
  unfold update_file, update_file_text. destruct (lex_strip s) as [SE SN].
  destruct (string_dec (strip s) EmptyString) as [Z|N]; [now rewrite (SE Z)|].
  rewrite <- (SN N). unfold lex_file at 1.
  pose proof (lines_all_no_nl (strip s)) as NL.
  destruct (lines (strip s)) as [|h rest]; [discriminate|]. cbn [map].
  inversion NL as [|? ? Hh Hrest]; subst.
  unfold lex_line at 1, update_header_text. pose proof (split_ws_words h) as W.
  destruct (split_ws h) as [|wa [|wb [|wc [|wd more]]]]; try discriminate. cbn [map].
  destruct (tok_int (tok_of_string wd)) as [m|] eqn:Ti; [|discriminate].
  rewrite (tok_int_sound _ _ Ti). intros H. injection H as <-.
  eexists. split; [reflexivity|].
  inversion W as [|? ? Wa W1]; subst. inversion W1 as [|? ? Wb W2]; subst.
  inversion W2 as [|? ? Wc W3]; subst.
  assert (WH : words [wa; wb; wc; string_of_Z (m + 1)]).
  { repeat constructor; try assumption. apply string_of_Z_word. }
  unfold lex_file. fold (block_text sol). rewrite lines_join_nl; [|constructor|discriminate].
  - cbn [map]. rewrite map_app. cbn [map]. rewrite lex_block_text. f_equal.
    unfold lex_line. rewrite split_ws_join by exact WH. cbn [map]. now rewrite tok_of_string_Z.
  - apply no_nl_join_sp. eapply Forall_impl; [|exact WH]. intros w. cbv beta. apply word_no_nl.
  - apply Forall_app. split; [exact Hrest|]. constructor; [apply no_nl_block_text|constructor].
Qed.
