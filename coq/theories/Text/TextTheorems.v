(** The statements of Properties/C27.v and C28.v, assembled from the lemmas of
    DimacsProofs / SolverIOProofs / OpbProofs (and Core/CardProofs for the link
    between the OPB text and the SAT encoding). *)
From Coq Require Import String Ascii ZArith List Bool Lia Permutation.
From SP Require Import Base.Sat Base.Bits Core.CnfModel Core.Card Core.CardProofs.
From SP Require Import Text.Tok Text.TokProofs Text.Dimacs Text.SolverIO Text.Opb.
From SP Require Import Text.DimacsProofs Text.SolverIOProofs Text.OpbProofs.
Import ListNotations.
Open Scope Z_scope.

(** * C27 *)

Lemma parse_print (cls : cnf) n :
  (forall c, In c cls -> nonzero c) -> no_empty_clause cls ->
  parse_cms (save_cnf_lines cls (Some n)) = Some (cnf_num_vars cls, rev cls) /\
  parse_unigen (save_cnf_lines cls (Some n)) = Some (rev cls, support_set n, cnf_num_vars cls) /\
  Permutation (rev cls) cls.
Proof.
  intros Hnz Hne.
  assert (E : nonempty_clauses (rev cls) = rev cls)
    by (apply nonempty_clauses_id; now apply no_empty_clause_rev).
  rewrite save_cnf_parse_cms, (save_cnf_parse_unigen cls n Hnz).
  split; [do 2 f_equal; exact E|]. split; [do 3 f_equal; exact E|].
  apply Permutation_sym, Permutation_rev.
Qed.

Lemma parse_print_general nv ss (cls : cnf) :
  nonzero ss -> (forall c, In c cls -> nonzero c) ->
  parse_cms (unigen_lines nv ss cls) = Some (nv, nonempty_clauses (rev cls)) /\
  parse_unigen (unigen_lines nv ss cls) = Some (nonempty_clauses (rev cls), sort_uniq ss, nv) /\
  parse_cms (dimacs_lines nv cls) = Some (nv, nonempty_clauses (rev cls)).
Proof.
  intros Hss Hcls. split; [apply parse_cms_unigen_lines|].
  split; [now apply parse_unigen_unigen_lines|].
  exact (parse_cms_unigen_lines nv [] cls).
Qed.

Lemma sampling_set solve (cls : cnf) n :
  (forall c, In c cls -> nonzero c) -> no_empty_clause cls -> cls <> [] -> 1 <= n ->
  (solve (rev cls) = true ->
   sampler_input solve (save_cnf_lines cls (Some n)) = Some (Some (rev cls, support_set n))) /\
  (solve (rev cls) = false ->
   sampler_input solve (save_cnf_lines cls (Some n)) = Some None) /\
  (forall v, In v (support_set n) <-> 1 <= v <= n).
Proof.
  intros Hnz Hne Hcls Hn.
  assert (E0 : nonempty_clauses (rev cls) = rev cls)
    by (apply nonempty_clauses_id; now apply no_empty_clause_rev).
  assert (N : nonempty_clauses (rev cls) <> []).
  { rewrite E0. intros E. apply Hcls. destruct cls as [|c r]; [reflexivity|].
    cbn [rev] in E. now destruct (rev r). }
  split; [|split; [|apply support_set_spec]].
  - intros Hs. rewrite <- E0 in Hs.
    rewrite (save_cnf_sampler_input solve cls n Hnz Hn N Hs). do 3 f_equal. exact E0.
  - intros Hs. rewrite <- E0 in Hs. exact (save_cnf_sampler_input_unsat solve cls n Hnz Hs).
Qed.

Lemma header_vars (cls : cnf) support :
  hd [] (save_cnf_lines cls support) = header (cnf_num_vars cls) (Z.of_nat (length cls)) /\
  (forall c l, In c cls -> In l c -> Z.abs l <= cnf_num_vars cls) /\
  (0 < cnf_num_vars cls -> exists c l, In c cls /\ In l c /\ Z.abs l = cnf_num_vars cls).
Proof.
  split; [apply save_cnf_header|]. split; [apply header_vars_bound|apply header_vars_tight].
Qed.

Lemma solver_output_roundtrip bs support :
  0 <= support <= Z.of_nat (length bs) ->
  parse_v_lines (cms_output bs) = Some (lits_of bs ++ [0]) /\
  solve_result (cms_output bs) support = Some (lits_of (firstn (Z.to_nat support) bs)) /\
  (forall s, forallb (lit_true s) (lits_of bs) = true <-> asg_matches s 1 bs).
Proof.
  intros H. split; [apply parse_v_cms_output|]. split; [now apply solve_result_cms_output|].
  intros s. apply lits_from_sat. lia.
Qed.

Lemma sampler_output_roundtrip :
  (forall samples, parse_sampler_output (unigen_format samples)
                   = Some (map (fun smp => (smp, 1)) samples)) /\
  (forall ss sols, parse_sampler_output (cmsgen_format ss sols)
                   = Some (map (fun sol => (map (cms_lit sol) ss, 0)) sols)) /\
  (forall sol v, 0 < v < Z.of_nat (length sol) ->
                 cms_lit sol v = if nth (Z.to_nat v) sol false then v else - v).
Proof.
  split; [apply parse_sampler_unigen|]. split; [apply parse_sampler_cmsgen|apply cms_lit_known].
Qed.

Lemma update_file_blocks f nv m rest sol :
  has_header f nv m rest -> sol <> [] -> nonzero sol ->
  exists f',
    update_file f sol = Some f' /\
    has_header f' nv (m + 1) (rest ++ [clause_line (blocking_clause sol)]) /\
    (forall n cs, parse_cms f = Some (n, cs) ->
                  parse_cms f' = Some (n, cs ++ [blocking_clause sol])) /\
    (forall cs ss n, parse_unigen f = Some (cs, ss, n) ->
                     parse_unigen f' = Some (cs ++ [blocking_clause sol], ss, n)) /\
    (forall s, csat s (blocking_clause sol) = negb (forallb (lit_true s) sol)).
Proof.
  intros H Hne Hnz.
  exists (header nv (m + 1) :: rest ++ [clause_line (blocking_clause sol)]).
  split; [now apply update_file_shape|].
  split; [now apply (update_file_has_header f)|].
  split; [|split].
  - intros n cs P. rewrite <- (clause_it_blocking sol Hne). now apply (parse_cms_update f nv m rest).
  - intros cs ss n P. rewrite <- (clause_it_blocking sol Hne). now apply (parse_unigen_update f nv m rest).
  - intros s. now apply csat_blocking.
Qed.

Lemma blocking_excludes_exactly s p n :
  csat s (blocking_clause (sol_of p n)) = true <-> ~ agree_upto n s p.
Proof.
  rewrite csat_blocking by apply sol_of_nonzero.
  rewrite negb_true_iff, <- not_true_iff_false. now rewrite sol_of_sat.
Qed.

Lemma update_file_empty_solution_refuted :
  exists f f' n cs,
    has_header f 2 1 [[]; [TI 1; TI 2; TI 0]] /\
    update_file f [] = Some f' /\
    parse_cms f = Some (n, cs) /\ parse_cms f' = Some (n, cs).
Proof.
  exists (save_cnf_lines [[1; 2]] (Some 0)).
  eexists. exists 2, [[1; 2]]. repeat split; vm_compute; reflexivity.
Qed.

(** * C28 *)

Lemma opb_request_value s kd k vs :
  pb_line_sat s (opb_request_line (kd, k, vs)) = Some (relb kd (count_true s vs) k).
Proof.
  unfold opb_request_line. rewrite opb_request_line_sat. f_equal.
  exact (req_holds_with_succ s (kd, k, vs)).
Qed.

Lemma ilp_block_excludes_exactly :
  (forall s sol, nonzero sol ->
     pb_line_sat s (ilp_block_line sol) = Some (negb (forallb (lit_true s) sol))) /\
  (forall s f sol, nonzero sol ->
     pb_file_sat s (ilp_update f sol)
     = match pb_file_sat s f with
       | Some b => Some (b && negb (forallb (lit_true s) sol))
       | None => None
       end) /\
  (forall s p n, pb_line_sat s (ilp_block_line (sol_of p n)) = Some true <-> ~ agree_upto n s p).
Proof.
  split; [apply ilp_block_line_sat|]. split; [apply ilp_update_sat|].
  intros s p n. rewrite ilp_block_line_sat by apply sol_of_nonzero.
  rewrite <- sol_of_sat. destruct (forallb (lit_true s) (sol_of p n)); cbn [negb].
  - split; [discriminate | intros H; exfalso; now apply H].
  - split; [intros _ H; discriminate | reflexivity].
Qed.

(** The number of true variables of a request is the literal count of C10
    when the request lists positive variables. *)
Lemma count_true_count s vs :
  Forall (fun v => 0 < v) vs -> count_true s vs = count s vs.
Proof.
  unfold count_true, count. induction vs as [|v vs IH]; intros H; [reflexivity|].
  inversion H as [|? ? Hv Hvs]; subst. cbn [zcount filter].
  rewrite lit_true_pos by exact Hv. rewrite (IH Hvs).
  destruct (s v); cbn [length]; lia.
Qed.

(** The request line of the OPB text and the SAT encoding of the same request
    (C10) accept the same assignments of the variables 1..n. *)
Lemma opb_request_vs_sat_encoding kd k vs n :
  0 <= n -> 0 <= k -> vs <> [] -> Forall (fun v => 0 < v <= n) vs ->
  exists n' clauses,
    request kd k vs {| next := n; cls := [] |} = (true, {| next := n'; cls := clauses |}) /\
    forall s, pb_line_sat s (opb_request_line (kd, k, vs)) = Some true
              <-> exists t, agree_upto n s t /\ sat t clauses = true.
Proof.
  intros Hn Hk Hne Hvs.
  assert (Hin : Forall (inr n) vs).
  { eapply Forall_impl; [|exact Hvs]. intros v Hv. cbv beta in Hv. unfold inr. lia. }
  assert (Hpos : Forall (fun v => 0 < v) vs).
  { eapply Forall_impl; [|exact Hvs]. intros v Hv. cbv beta in Hv. lia. }
  destruct (request_correct kd k vs n Hn Hk Hne Hin) as [n' [clauses [E [_ [_ [S _]]]]]].
  exists n', clauses. split; [exact E|]. intros s.
  rewrite opb_request_equiv, (count_true_count s vs Hpos), S.
  destruct kd; reflexivity.
Qed.
