(** Token-level view of the text files exchanged with the solvers.

    A file is the list of lines of its text ([text.split('\n')]: a trailing
    newline shows up as a final empty line), a line is the list of its
    whitespace-separated tokens ([line.split()]).  The character level below
    this view is modelled in Text/Chars.v (the string primitives) and
    Text/TextChars.v (the lexer [lex_file] from text to the token files of this
    file, and the writers' text character by character); Text/CharsProofs.v and
    Text/TextCharsProofs.v prove what used to be trusted here: [str(int)] /
    [int(str)] are inverse on canonical decimals, [str(x)[0] == '-'] iff
    [x < 0], [str(x)[1:]] is [str(-x)] for negative [x], and the text of every
    writer lexes to the token file of the token-level model.

    Tokens:
      [TI z]      the decimal rendering [str(z)]
      [TPlus z]   ["+" ++ str(z)]        (OPB coefficient "+1")
      [TV z]      ["v" ++ str(z)]        (OPB variable "v7")
      [TFreq a b] [str(a) ++ ":" ++ str(b)]  (Unigen's "0:1" sample terminator)
      [TW s]      any other word (p, cnf, c, ind, s, v, SATISFIABLE, >=, ...);
                  by convention [s] is not the text of one of the above. *)
From Coq Require Import String Ascii ZArith List Bool.
Import ListNotations.
Open Scope Z_scope.

Inductive tok :=
| TI (z : Z)
| TPlus (z : Z)
| TV (z : Z)
| TFreq (a b : Z)
| TW (s : string).

Definition line := list tok.
Definition file := list line.

(** [tok.startswith(c)] for a letter [c]. *)
Definition starts_with (c : ascii) (t : tok) : bool :=
  match t with
  | TW (String a _) => Ascii.eqb a c
  | TV _ => Ascii.eqb "v"%char c
  | _ => false
  end.

(** [line.strip().startswith(c)] *)
Definition line_starts (c : ascii) (l : line) : bool :=
  match l with
  | t :: _ => starts_with c t
  | [] => false
  end.

Definition is_word (w : string) (t : tok) : bool :=
  match t with TW s => String.eqb w s | _ => false end.

Definition word_prefix (p : string) (t : tok) : bool :=
  match t with TW s => String.prefix p s | _ => false end.

(** [line.startswith(a ++ " " ++ b)]: first token is exactly [a], the second
    one begins with [b]. *)
Definition line_starts2 (a b : string) (l : line) : bool :=
  match l with
  | t1 :: t2 :: _ => is_word a t1 && word_prefix b t2
  | _ => false
  end.

(** [int(tok)]; [None] where Python raises [ValueError]. *)
Definition tok_int (t : tok) : option Z :=
  match t with
  | TI z => Some z
  | TPlus z => if 0 <=? z then Some z else None
  | _ => None
  end.

(** [tok == '0'] *)
Definition is_zero_tok (t : tok) : bool :=
  match t with TI 0 => true | _ => false end.

Fixpoint map_opt {A B : Type} (f : A -> option B) (l : list A) : option (list B) :=
  match l with
  | [] => Some []
  | a :: r =>
    match f a with
    | None => None
    | Some b => match map_opt f r with None => None | Some bs => Some (b :: bs) end
    end
  end.

(** [[int(x) for x in toks]] *)
Definition ints_of (l : line) : option (list Z) := map_opt tok_int l.

Definition is_empty_line (l : line) : bool := match l with [] => true | _ => false end.

(** [text.strip()] seen at line level: whitespace-only lines at both ends go. *)
Fixpoint drop_leading (f : file) : file :=
  match f with
  | [] => []
  | l :: r => if is_empty_line l then drop_leading r else f
  end.
Fixpoint drop_trailing (f : file) : file :=
  match f with
  | [] => []
  | l :: r =>
    match drop_trailing r with
    | [] => if is_empty_line l then [] else [l]
    | r' => l :: r'
    end
  end.
Definition strip_file (f : file) : file := drop_trailing (drop_leading f).

(** ['\n'.join(lines)] read back with [split('\n')]: no lines = one empty line. *)
Definition join_lines (ls : list line) : file :=
  match ls with [] => [[]] | _ => ls end.
