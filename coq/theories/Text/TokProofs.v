(** Generic lemmas about Text/Tok.v used by the Dimacs / SolverIO proofs. *)
From Coq Require Import String Ascii ZArith List Bool Lia.
From SP Require Import Base.Sat Text.Tok.
Import ListNotations.
Open Scope Z_scope.

Definition nonzero (c : list Z) : Prop := forall l, In l c -> l <> 0.

Lemma nonzero_cons l c : nonzero (l :: c) <-> l <> 0 /\ nonzero c.
Proof.
  split.
  - intros H. split; [apply H; now left | intros x Hx; apply H; now right].
  - intros [H1 H2] x [<-|Hx]; [exact H1 | now apply H2].
Qed.

Lemma nonzero_opp c : nonzero c -> nonzero (map Z.opp c).
Proof.
  intros H x Hx. apply in_map_iff in Hx. destruct Hx as [y [<- Hy]].
  specialize (H y Hy). lia.
Qed.

(** * [map_opt] *)

Lemma map_opt_app {A B} (f : A -> option B) a b :
  map_opt f (a ++ b) =
  match map_opt f a, map_opt f b with
  | Some x, Some y => Some (x ++ y)
  | _, _ => None
  end.
Proof.
  induction a as [|x a IH]; cbn [app map_opt].
  - destruct (map_opt f b); reflexivity.
  - destruct (f x) as [y|]; [|reflexivity]. rewrite IH.
    destruct (map_opt f a); [|reflexivity]. destruct (map_opt f b); reflexivity.
Qed.

Lemma map_opt_map {A B C} (f : B -> option C) (g : A -> B) (h : A -> C) l :
  (forall a, In a l -> f (g a) = Some (h a)) ->
  map_opt f (map g l) = Some (map h l).
Proof.
  induction l as [|a l IH]; intros H; [reflexivity|].
  cbn [map map_opt]. rewrite (H a) by now left.
  rewrite IH by (intros x Hx; apply H; now right). reflexivity.
Qed.

Lemma ints_of_TI l : ints_of (map TI l) = Some l.
Proof.
  unfold ints_of. rewrite (map_opt_map tok_int TI (fun z => z)); [now rewrite map_id|reflexivity].
Qed.

Lemma ints_of_app a b :
  ints_of (a ++ b) =
  match ints_of a, ints_of b with Some x, Some y => Some (x ++ y) | _, _ => None end.
Proof. apply map_opt_app. Qed.

Lemma ints_of_clause_toks l : ints_of (map TI l ++ [TI 0]) = Some (l ++ [0]).
Proof. rewrite ints_of_app, ints_of_TI. reflexivity. Qed.

(** * Stripping *)

Definition all_nonempty (f : file) : Prop := forall l, In l f -> is_empty_line l = false.

Lemma is_empty_line_true l : is_empty_line l = true -> l = [].
Proof. destruct l; [reflexivity|discriminate]. Qed.

Lemma drop_trailing_last f l :
  is_empty_line l = false -> drop_trailing (f ++ [l]) = f ++ [l].
Proof.
  intros Hl. induction f as [|x f IH].
  - cbn [app drop_trailing]. now rewrite Hl.
  - cbn [app drop_trailing]. rewrite IH.
    destruct (f ++ [l]) eqn:E; [|reflexivity].
    now destruct f.
Qed.

Lemma drop_trailing_blank f :
  all_nonempty f -> drop_trailing (f ++ [[]]) = f.
Proof.
  induction f as [|x f IH]; intros H; [reflexivity|].
  cbn [app drop_trailing]. rewrite IH by (intros l Hl; apply H; now right).
  destruct f as [|y f]; [|reflexivity].
  now rewrite (H x) by now left.
Qed.

Lemma drop_leading_nonempty l f :
  is_empty_line l = false -> drop_leading (l :: f) = l :: f.
Proof. intros H. cbn [drop_leading]. now rewrite H. Qed.

Lemma strip_file_lines_blank f :
  all_nonempty f -> strip_file (f ++ [[]]) = f.
Proof.
  intros H. unfold strip_file. destruct f as [|l f]; [reflexivity|].
  cbn [app]. rewrite drop_leading_nonempty by (apply H; now left).
  apply (drop_trailing_blank (l :: f) H).
Qed.

Lemma strip_file_fixed l f x :
  is_empty_line l = false -> is_empty_line x = false ->
  strip_file (l :: f ++ [x]) = l :: f ++ [x].
Proof.
  intros Hl Hx. unfold strip_file. rewrite drop_leading_nonempty by exact Hl.
  apply (drop_trailing_last (l :: f) x Hx).
Qed.

(** * Literal lists *)

Lemma csat_opp s sol :
  nonzero sol -> csat s (map Z.opp sol) = negb (forallb (lit_true s) sol).
Proof.
  induction sol as [|l sol IH]; intros H; [reflexivity|].
  apply nonzero_cons in H. destruct H as [Hl Hs].
  unfold csat in *. cbn [map existsb forallb].
  rewrite IH by exact Hs. rewrite lit_true_opp by exact Hl.
  now rewrite negb_andb.
Qed.
