From Coq Require Import ExtrOcamlBasic ExtrOcamlString.
From SP Require Extract.RootsFront.
Extraction Language OCaml.
Set Warnings "-extraction-opaque-accessed".
Separate Extraction SP.Extract.RootsFront.roots.
