#!/bin/sh
# Extract the Gallina models and build the driver binary.
#   ./build.sh          -> extract/spmodel        (all domains: Extract/AllModels.v, every drv_*.ml)
#   ./build.sh Card     -> extract/spmodel_Card   (Extract/RootsCard.v + drv_card.ml only)
# The .vo files of the roots must be up to date (make, or coqc by hand).
set -e
cd "$(dirname "$0")"
DOM="$1"
if [ -z "$DOM" ]; then ROOT=AllModels; GEN=gen; OUT=spmodel; DRV="";
else ROOT=Roots$DOM; GEN=gen_$DOM; OUT=spmodel_$DOM; DRV="drv_$(echo $DOM | tr A-Z a-z).ml"; fi
rm -rf $GEN && mkdir $GEN && cd $GEN
cat > ExtractAll.v <<EOV
From Coq Require Import ExtrOcamlBasic ExtrOcamlString.
From SP Require Extract.$ROOT.
Extraction Language OCaml.
Set Warnings "-extraction-opaque-accessed".
Separate Extraction SP.Extract.$ROOT.roots.
EOV
timeout 600 coqc -Q ../../coq/theories SP ExtractAll.v
rm -f ExtractAll.* .ExtractAll.aux
EXTR=$(ls *.ml)
cp ../wire.ml ../main.ml .
WF=""
if [ -f Flat.ml ]; then cp ../wire_flat.ml .; WF=wire_flat.ml; fi
ORDER=$(ocamlfind ocamldep -sort $(ls *.mli) $EXTR)
# compile the extracted modules and the wire helpers once
timeout 900 ocamlfind ocamlopt -w -a -O2 -c $ORDER wire.ml $WF 2>/dev/null || timeout 900 ocamlfind ocamlopt -w -a -c $ORDER wire.ml $WF
# every driver whose model modules were extracted for this root is linked in
# (a Roots file may include the roots of other domains); the domain's own
# driver must compile
DRVS=""
for d in ../drv_*.ml; do
  b=$(basename $d)
  cp $d .
  if ocamlfind ocamlopt -w -a -c $b >/dev/null 2>&1; then DRVS="$DRVS $b"; else
    if [ "$b" = "$DRV" ]; then ocamlfind ocamlopt -w -a -c $b; exit 1; fi
    rm -f $b
  fi
done
CMX=$(for f in $ORDER wire.ml $WF $DRVS; do case $f in *.ml) echo ${f%.ml}.cmx;; esac; done)
# link beside the target and rename, so that a check that is executing the old binary is not disturbed
timeout 900 ocamlfind ocamlopt -w -a $CMX main.ml -o ../$OUT.new.$$
mv -f ../$OUT.new.$$ ../$OUT
echo "built extract/$OUT with drivers:$DRVS"
