#!/bin/sh
# Extract the Gallina models and build the driver binary extract/spmodel.
set -e
cd "$(dirname "$0")"
rm -rf gen && mkdir gen && cd gen
cp ../../coq/extract/ExtractAll.v .
timeout 600 coqc -Q ../../coq/theories SP ExtractAll.v
rm -f ExtractAll.*
cp ../wire.ml ../drv_*.ml ../main.ml .
EXTR=$(ls *.ml | grep -v -e '^wire.ml$' -e '^drv_' -e '^main.ml$')
ORDER=$(ocamlfind ocamldep -sort $(ls *.mli) $EXTR)
timeout 900 ocamlfind ocamlopt -w -a -O2 $ORDER wire.ml drv_*.ml main.ml -o ../spmodel 2>&1 || \
timeout 900 ocamlfind ocamlopt -w -a $ORDER wire.ml drv_*.ml main.ml -o ../spmodel
echo "built extract/spmodel"
