#!/bin/sh
# Extract the Gallina models and build the driver binary.
#   ./build.sh          -> extract/spmodel        (all domains: Extract/AllModels.v, every drv_*.ml)
#   ./build.sh Card     -> extract/spmodel_Card   (Extract/RootsCard.v + drv_card.ml only)
# The .vo files of the roots must be up to date (make, or coqc by hand).
set -e
cd "$(dirname "$0")"
DOM="$1"
if [ -z "$DOM" ]; then ROOT=AllModels; GEN=gen; OUT=spmodel; DRV="../drv_*.ml";
else ROOT=Roots$DOM; GEN=gen_$DOM; OUT=spmodel_$DOM; DRV="../drv_$(echo $DOM | tr A-Z a-z).ml"; fi
rm -rf $GEN && mkdir $GEN && cd $GEN
cat > ExtractAll.v <<EOV
From Coq Require Import ExtrOcamlBasic ExtrOcamlString.
From SP Require Extract.$ROOT.
Extraction Language OCaml.
Set Warnings "-extraction-opaque-accessed".
Separate Extraction SP.Extract.$ROOT.roots.
EOV
timeout 600 coqc -Q ../../coq/theories SP ExtractAll.v
rm -f ExtractAll.* .ExtractAll.aux
EXTR=$(ls *.ml)
cp ../wire.ml ../main.ml $DRV .
WF=""
if [ -f Flat.ml ]; then cp ../wire_flat.ml .; WF=wire_flat.ml; fi
ORDER=$(ocamlfind ocamldep -sort $(ls *.mli) $EXTR)
timeout 900 ocamlfind ocamlopt -w -a -O2 $ORDER wire.ml $WF drv_*.ml main.ml -o ../$OUT 2>/dev/null || \
timeout 900 ocamlfind ocamlopt -w -a $ORDER wire.ml $WF drv_*.ml main.ml -o ../$OUT
echo "built extract/$OUT"
