(* Driver for Core/CnfModel.v and Core/Card.v *)
open Wire
let st_of nfr = { CnfModel.next = nfr; CnfModel.cls = [] }
let show_st (s : CnfModel.st) = show_z s.CnfModel.next ^ " " ^ show_cnf s.CnfModel.cls
let kind_of = function A "EQ" -> Card.EQ | A "LT" -> Card.LT | A "GT" -> Card.GT | _ -> failwith "kind"
let () =
  register "half" (function [a; b; nfr] ->
    let ((c, s), st) = CnfModel.half_adder (z_of_sexp a) (z_of_sexp b) (st_of (z_of_sexp nfr)) in
    show_zlist [c; s] ^ " " ^ show_st st | _ -> "!args");
  register "full" (function [a; b; cin; nfr] ->
    let ((c, s), st) = CnfModel.full_adder (z_of_sexp a) (z_of_sexp b) (opt_of_sexp z_of_sexp cin) (st_of (z_of_sexp nfr)) in
    show_zlist [c; s] ^ " " ^ show_st st | _ -> "!args");
  register "satadd" (function [a; b; cin; nfr] ->
    let (s, st) = CnfModel.saturate_adder (z_of_sexp a) (z_of_sexp b) (opt_of_sexp z_of_sexp cin) (st_of (z_of_sexp nfr)) in
    show_z s ^ " " ^ show_st st | _ -> "!args");
  register "ripple" (function [xs; ys; nfr] ->
    let ((c, ss), st) = CnfModel.ripple_carry (zlist_of_sexp xs) (zlist_of_sexp ys) (st_of (z_of_sexp nfr)) in
    show_opt show_z c ^ " " ^ show_zlist ss ^ " " ^ show_st st | _ -> "!args");
  register "ripplesat" (function [xs; ys; sa; nfr] ->
    let (r, st) = CnfModel.ripple_saturate (zlist_of_sexp xs) (zlist_of_sexp ys) (nat_of_sexp sa) (st_of (z_of_sexp nfr)) in
    show_opt show_zlist r ^ " " ^ show_st st | _ -> "!args");
  register "popcount" (function [vs; sa; nfr] ->
    let (r, st) = CnfModel.pop_count (zlist_of_sexp vs) (nat_of_sexp sa) (st_of (z_of_sexp nfr)) in
    show_opt show_zlist r ^ " " ^ show_st st | _ -> "!args");
  register "tobin" (function [k] -> show_zlist (Card.int_to_binary (z_of_sexp k)) | _ -> "!args");
  register "request" (function [kd; k; vs; nfr] ->
    let ((ok, nx), cl) = Card.run_request (z_of_sexp nfr) (kind_of kd) (z_of_sexp k) (zlist_of_sexp vs) in
    show_bool ok ^ " " ^ show_z nx ^ " " ^ show_cnf cl | _ -> "!args");
  register "combine" (function [init; nfr; rs] ->
    let rq = list_of_sexp (function L [kd; k; vs] -> ((kind_of kd, z_of_sexp k), zlist_of_sexp vs) | _ -> failwith "req") rs in
    let ((ok, nx), cl) = Card.combine_requests (list_of_sexp zlist_of_sexp init) (z_of_sexp nfr) rq in
    show_bool ok ^ " " ^ show_z nx ^ " " ^ show_cnf cl | _ -> "!args");
  register "sat" (function [asg; f] ->
    (* asg: list of true variables *)
    let tv = Stdlib.List.map int_of_z (zlist_of_sexp asg) in
    let s z = Stdlib.List.mem (int_of_z z) tv in
    show_bool (Sat.sat s (list_of_sexp zlist_of_sexp f)) | _ -> "!args")
