(* Driver for Check/Mismatch.v: the model of sample_mismatch_experiment.
   (mismatch FLAT ((f (c c ...)) ...))   cells: level index, -1 for ''
   -> (error E) | trialcount | (lists (factors) (constraints) (crossings)) *)
open Wire
let cell_of_sexp x = let n = int_of_sexp x in if n < 0 then None else Some (nat_of_int n)
let cand_of_sexp = list_of_sexp (function
    | L [f; row] -> (nat_of_sexp f, list_of_sexp cell_of_sexp row)
    | _ -> failwith "cand entry")
let show_err = function
  | Mismatch.EKey -> "KeyError" | Mismatch.EIndex -> "IndexError" | Mismatch.EValue -> "ValueError"
  | Mismatch.EConv -> "Exception" | Mismatch.EPred -> "pred-domain" | Mismatch.ELayout -> "layout"
  | Mismatch.EZeroDiv -> "ZeroDivisionError" | Mismatch.ELoop -> "loop"
let show_verdict = function
  | Mismatch.VError e -> "(error " ^ show_err e ^ ")"
  | Mismatch.VTrialCount -> "trialcount"
  | Mismatch.VLists (fs, cs, xs) ->
    "(lists " ^ show_list show_nat fs ^ " " ^ show_list show_nat cs ^ " " ^ show_list show_nat xs ^ ")"
let () =
  register "mismatch" (function [f; q] ->
    show_verdict (Mismatch.mismatch (Wire_flat.flat_of_sexp f) (cand_of_sexp q)) | _ -> "!args");
  (* many candidates against one flat record *)
  register "mismatches" (function [f; qs] ->
    let fb = Wire_flat.flat_of_sexp f in
    show_list (fun q -> show_verdict (Mismatch.mismatch fb (cand_of_sexp q))) (match qs with L l -> l | _ -> failwith "cands")
    | _ -> "!args");
  (* the fragment of theorem C17_mismatch_iff_valid evaluated on a flat record and candidate rows (design order):
     nfrag | per candidate (wf_rowsb, no_mismatch, valid_b (code_sem_n fb)) *)
  register "fragcheck" (function [f; qs] ->
    let fb = Wire_flat.flat_of_sexp f in
    let nf = NestProofs.nfrag fb in
    let sem = NestProofs.code_sem_n fb in
    show_bool nf ^ " " ^ show_list (fun q ->
      let rows = list_of_sexp (list_of_sexp cell_of_sexp) q in
      "(" ^ show_bool (FragmentProofs.wf_rowsb fb rows) ^ " "
      ^ show_bool (Mismatch.no_mismatch fb (FragmentProofs.cand_of_rows rows)) ^ " "
      ^ show_bool (Sem.valid_b sem rows) ^ ")") (match qs with L l -> l | _ -> failwith "cands")
    (* the fragment of theorem C17_mismatch_iff_valid_derived: dfrag, dfrag_w | per candidate
       (wf_rowsb_d, no_mismatch, valid_b (code_sem_d fb)) *)
    ^ " " ^ show_bool (DerivedFrag.dfrag fb) ^ " " ^ show_bool (DerivedFrag.dfrag_w fb) ^ " "
    ^ (let semd = DerivedFrag.code_sem_d fb in
       show_list (fun q ->
         let rows = list_of_sexp (list_of_sexp cell_of_sexp) q in
         "(" ^ show_bool (DerivedFrag.wf_rowsb_d fb rows) ^ " "
         ^ show_bool (Mismatch.no_mismatch fb (FragmentProofs.cand_of_rows rows)) ^ " "
         ^ show_bool (Sem.valid_b semd rows) ^ ")") (match qs with L l -> l | _ -> failwith "cands"))
    ^ " " ^ show_list show_bool (DerivedFrag.dfrag_why fb)
    (* the fragment of theorem C17_mismatch_iff_valid_excluded: efrag | per candidate
       (wf_rowsb_d, no_mismatch, valid_b (code_sem_x fb)) | efrag_why *)
    ^ " " ^ show_bool (DerivedFrag.efrag fb) ^ " "
    ^ (let semx = DerivedFrag.code_sem_x fb in
       show_list (fun q ->
         let rows = list_of_sexp (list_of_sexp cell_of_sexp) q in
         "(" ^ show_bool (DerivedFrag.wf_rowsb_d fb rows) ^ " "
         ^ show_bool (Mismatch.no_mismatch fb (FragmentProofs.cand_of_rows rows)) ^ " "
         ^ show_bool (Sem.valid_b semx rows) ^ ")") (match qs with L l -> l | _ -> failwith "cands"))
    ^ " " ^ show_list show_bool (DerivedFrag.efrag_why fb)
    | _ -> "!args");
  (* run counting of check_sequence on a list of cells for level l *)
  register "counts" (function [l; cells] ->
    show_list show_nat (Mismatch.counts (nat_of_sexp l) (list_of_sexp cell_of_sexp cells)) | _ -> "!args")
