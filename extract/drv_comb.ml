(* Driver for Comb/CombModel.v (sweetpea/_internal/combinatorics.py) *)
open Wire
module M = CombModel
let show_err = function
  | M.ZeroDivisionError -> "ZeroDivisionError" | M.IndexError -> "IndexError"
  | M.AssertionError -> "AssertionError" | M.ValueError -> "ValueError" | M.OutOfFuel -> "OutOfFuel"
let show_res f = function M.Ok a -> "ok " ^ f a | M.Err e -> "err " ^ show_err e
let show_kres = function M.KCount z -> "(int " ^ show_z z ^ ")" | M.KPerm p -> "(perm " ^ show_zlist p ^ ")"
let show_memo (m : M.memo_t) = show_list (fun ((a, b), v) -> show_zlist [a; b; v]) m
let moc_of = function
  | L [A "u"; m] -> M.Uniform (z_of_sexp m)
  | L [A "c"; cs] -> M.Counters (zlist_of_sexp cs)
  | _ -> failwith "moc"
let memo_of s = list_of_sexp (function L [a; b; v] -> ((z_of_sexp a, z_of_sexp b), z_of_sexp v) | _ -> failwith "memo") s
let op_of = function
  | L [A "count"; fn] -> M.OpCount (z_of_sexp fn)
  | L [A "unrank"; fn; j] -> M.OpUnrank (z_of_sexp fn, z_of_sexp j)
  | _ -> failwith "op"
let z = z_of_sexp
let () =
  register "extract_components" (function [sizes; n] ->
    show_res show_zlist (M.extract_components (zlist_of_sexp sizes) (z n)) | _ -> "!args");
  register "jth_combination" (function [l; n; j] ->
    show_res show_zlist (M.compute_jth_combination (z l) (z n) (z j)) | _ -> "!args");
  register "ncm" (function [n; m; fm] ->
    show_res show_z (M.n_choose_m_given_m_factorial (z n) (z m) (z fm)) | _ -> "!args");
  register "n_choose_m" (function [n; m] -> show_res show_z (M.n_choose_m (z n) (z m)) | _ -> "!args");
  register "cns" (function [n; m; j] ->
    show_res show_zlist (M.compute_jth_combination_without_replacement (z n) (z m) (z j)) | _ -> "!args");
  register "inversion" (function [n; m; j] ->
    show_res show_zlist (M.compute_jth_inversion_sequence (z n) (z m) (z j)) | _ -> "!args");
  register "construct_permutation" (function [inv; n] ->
    show_res show_zlist (M.construct_permutation (zlist_of_sexp inv) (z n)) | _ -> "!args");
  register "perm_prefix" (function [n; m; j] ->
    show_res show_zlist (M.compute_jth_permutation_prefix (z n) (z m) (z j)) | _ -> "!args");
  register "crp" (function [cs] -> show_res show_z (M.count_remaining_permutations (zlist_of_sexp cs)) | _ -> "!args");
  register "interleavings" (function [v; n] -> show_res show_z (M.count_interleavings (z v) (z n)) | _ -> "!args");
  register "cwc" (function [idx; q; fill; cs] ->
    show_res show_zlist (M.construct_with_copies (z idx) (z q) (z fill) (zlist_of_sexp cs)) | _ -> "!args");
  register "cpwc" (function [idx; q; m] ->
    show_res show_zlist (M.construct_permutation_with_copies (z idx) (z q) (z m)) | _ -> "!args");
  register "cpwvc" (function [idx; q; cs] ->
    show_res show_zlist (M.construct_permutation_with_varying_copies (z idx) (z q) (zlist_of_sexp cs)) | _ -> "!args");
  register "count_pwc" (function [q; m; fn] ->
    show_res show_kres (M.count_permutations_with_copies (z q) (z m) (z fn)) | _ -> "!args");
  register "count_pwvc" (function [q; cs; fn] ->
    show_res show_kres (M.count_permutations_with_varying_copies (z q) (zlist_of_sexp cs) (z fn)) | _ -> "!args");
  register "recur_count" (function [q; m; fn; memo] ->
    show_res (fun (v, mm) -> show_z v ^ " " ^ show_memo mm)
      (M.recur_count_prefixes_of_permutations_with_copies (z q) (z m) (z fn) (memo_of memo)) | _ -> "!args");
  register "kprefix" (function [q; mc; fn; find; memo] ->
    show_res (fun (v, mm) -> show_kres v ^ " " ^ show_memo mm)
      (M.k_prefixes_of_permutations_with_copies (z q) (moc_of mc) (z fn) (z find) (memo_of memo)) | _ -> "!args");
  register "session" (function [q; mc; ops] ->
    let (rs, mm) = M.memo_session (z q) (moc_of mc) (list_of_sexp op_of ops) [] in
    show_list (fun r -> "(" ^ show_res show_kres r ^ ")") rs ^ " " ^ show_memo mm | _ -> "!args");
  register "cnt" (function [cs; need] -> show_z (M.cnt (zlist_of_sexp cs) (z need)) | _ -> "!args");
  register "prefix_unrank" (function [cs; fn; idx] ->
    show_opt show_zlist (M.prefix_unrank (zlist_of_sexp cs) (z fn) (z idx)) | _ -> "!args")
