(* Driver for Encode/Compile.v: (compile FLAT), (fullcnf FLAT) *)
open Wire
let show_kind = function Card.EQ -> "EQ" | Card.LT -> "LT" | Card.GT -> "GT"
let show_req ((kd, k), vs) = "(" ^ show_kind kd ^ " " ^ show_z k ^ " " ^ show_zlist vs ^ ")"
let show_err = function
  | Compile.CIndexError -> "IndexError" | Compile.CValueError -> "ValueError" | Compile.CTypeError -> "TypeError"
  | Compile.CRuntimeError -> "RuntimeError" | Compile.CZeroDivisionError -> "ZeroDivisionError"
  | Compile.CFuel -> "Fuel" | Compile.CUnsupported -> "Unsupported"
let () =
  (* (compile FLAT) -> fresh (clauses) ((KIND k (vars)) ...)   |   error ExcName *)
  register "compile" (function [f] ->
    let fb = Wire_flat.flat_of_sexp f in
    (match Compile.compile fb with
     | Compile.COk b ->
       show_z b.Compile.b_fresh ^ " " ^ show_cnf b.Compile.b_clauses ^ " " ^ show_list show_req b.Compile.b_requests
     | Compile.CErr e -> "error " ^ show_err e)
    | _ -> "!args");
  (* (fullcnf FLAT) -> ok num_vars (clauses): combine_cnf_with_requests on the compiled request *)
  register "fullcnf" (function [f] ->
    let fb = Wire_flat.flat_of_sexp f in
    (match Compile.compile fb with
     | Compile.COk b ->
       let ((ok, nx), cl) = Compile.full_cnf b in
       show_bool ok ^ " " ^ show_z nx ^ " " ^ show_cnf cl
     | Compile.CErr e -> "error " ^ show_err e)
    | _ -> "!args")
let show_cell = function None -> "none" | Some l -> show_nat l
let () =
  (* (inf1 FLAT) -> true|false : is the flat record in the fragment F1 of compile_denotes *)
  register "inf1" (function [f] -> show_bool (CodeSem.in_f1 (Wire_flat.flat_of_sexp f)) | _ -> "!args");
  (* (codesem-all FLAT) -> all sequences valid for code_sem, each a list of rows (per design factor) of cells *)
  register "codesem-all" (function [f] ->
    let fb = Wire_flat.flat_of_sexp f in
    show_list (show_list (show_list show_cell)) (Sem.all_valid (CodeSem.code_sem fb)) | _ -> "!args")
let () =
  (* (inf1-why FLAT) -> the conjuncts of in_f1 *)
  register "inf1-why" (function [f] -> show_list show_bool (CodeSem.f1_why (Wire_flat.flat_of_sexp f)) | _ -> "!args")
