(* Driver for Out/Continuous.v (sampling of continuous factors).
   Wire syntax:
     value      (n 12) | nan | (s "text")
     dict       (("name" (value ..)) ..)
     window     (("f1" ..) width stride start)        start: none | int  (-> window_post_init)
     dependent  (num 3) | (disc "name") | (cont "name") | (win window)
     cfactor    ("name" (dependent ..) true|false)    cumulative flag
     constraint (other) | (cc ("name" ..) pred)
     pred       (le B) sum of the arguments <= B | (ge B) sum >= B | (lt) strictly increasing
                | (ne B) first argument != B          (Python semantics on NaN)
     oracle     (("name" (value ..)) ..)  the results of the factor's distribution function in
                call order: gen name a i _ = the (a*T+i)-th; past the end: (s "!exhausted")
   Commands:
     (window window idx dict)                               -> (ok input) | (err E)
     (checkdep (cfactor ..))                                -> ok | raise
     (sample T trial (cfactor ..) a oracle)                 -> (ok dict log) | (err E)
     (check (constraint ..) dict)                           -> (ok true|false) | (err E)
     (synth T (cfactor ..) (constraint ..) fuel oracle (trial ..))
                                                            -> (ok ((dict a) ..) log) | (err E)
     (verdicts T trial (cfactor ..) (constraint ..) a n oracle)
                                                            -> (v ..) for attempts a .. a+n-1,
                                                               v = accept | reject | (raise E)   [ContinuousLive.attempt]
     (scan T trial (cfactor ..) (constraint ..) fuel a oracle)
                                                            -> (ok dict a') | (err E)            [ContinuousLive.scan]
   Output: input = value | (win ((k value) ..)) | (wins ((k value) ..) ..);
           log = (("name" (input ..) value) ..). *)
open Wire
module C = Continuous
module CL = ContinuousLive

let s_of x = explode (str_of_sexp x)
let value_of = function
  | L [A "n"; z] -> C.VNum (z_of_sexp z)
  | A "nan" -> C.VNaN
  | L [A "s"; A t] -> C.VStr (explode t)
  | _ -> failwith "value"
let dict_of = list_of_sexp (function L [k; vs] -> (s_of k, list_of_sexp value_of vs) | _ -> failwith "dict entry")
let window_of = function
  | L [fs; w; st; start] ->
    C.window_post_init (list_of_sexp s_of fs) (z_of_sexp w) (z_of_sexp st)
      (match start with A "none" -> None | x -> Some (z_of_sexp x))
  | _ -> failwith "window"
let dependent_of = function
  | L [A "num"; z] -> C.DNum (z_of_sexp z)
  | L [A "disc"; n] -> C.DDisc (s_of n)
  | L [A "cont"; n] -> C.DCont (s_of n)
  | L [A "win"; w] -> C.DWin (window_of w)
  | _ -> failwith "dependent"
let cfactor_of = function
  | L [n; deps; cum] ->
    { C.cf_name = s_of n; C.cf_deps = list_of_sexp dependent_of deps; C.cf_cumulative = bool_of_sexp cum }
  | _ -> failwith "cfactor"

(* Python arithmetic / comparisons on ints and NaN; a str argument never occurs *)
let vsum vs =
  Stdlib.List.fold_left (fun acc v -> match acc, v with
    | Some a, C.VNum z -> Some (a + int_of_z z)
    | _, _ -> None) (Some 0) vs
let pred_of = function
  | L [A "le"; b] -> let b = int_of_sexp b in
    (fun vs -> match vsum vs with Some s -> s <= b | None -> false)
  | L [A "ge"; b] -> let b = int_of_sexp b in
    (fun vs -> match vsum vs with Some s -> s >= b | None -> false)
  | L [A "lt"] ->
    let rec inc = function
      | C.VNum a :: ((C.VNum b :: _) as tl) -> int_of_z a < int_of_z b && inc tl
      | [_] | [] -> true
      | _ -> false in
    inc
  | L [A "ne"; b] -> let b = int_of_sexp b in
    (function C.VNum a :: _ -> int_of_z a <> b | _ -> true)
  | _ -> failwith "pred"
let constraint_of = function
  | L [A "other"] -> C.BOther
  | L [A "cc"; names; p] -> C.BCont { C.cc_factors = list_of_sexp s_of names; C.cc_pred = pred_of p }
  | _ -> failwith "constraint"

let gen_of_oracle (t : int) orc =
  let tbl = Hashtbl.create 8 in
  (match orc with
   | L l -> Stdlib.List.iter (function
       | L [k; vs] -> Hashtbl.replace tbl (str_of_sexp k) (Array.of_list (list_of_sexp value_of vs))
       | _ -> failwith "oracle entry") l
   | _ -> failwith "oracle");
  fun name a i _inputs ->
    let k = int_of_nat a * t + int_of_nat i in
    match Hashtbl.find_opt tbl (implode name) with
    | Some arr when k < Array.length arr -> arr.(k)
    | _ -> C.VStr (explode "!exhausted")

let show_value = function
  | C.VNum z -> show_z z
  | C.VNaN -> "nan"
  | C.VStr t -> show_str t
let show_wdict d = show_list (fun (k, v) -> "(" ^ show_z k ^ " " ^ show_value v ^ ")") d
let show_input = function
  | C.IVal v -> show_value v
  | C.IWin d -> "(win " ^ show_wdict d ^ ")"
  | C.IWins ds -> "(wins " ^ Stdlib.String.concat " " (Stdlib.List.map show_wdict ds) ^ ")"
let show_err = function
  | C.KeyError -> "KeyError" | C.IndexError -> "IndexError" | C.RuntimeError -> "RuntimeError"
  | C.TypeError -> "TypeError" | C.OutOfFuel -> "OutOfFuel"
let show_res f = function C.Ok a -> "(ok " ^ f a ^ ")" | C.Err e -> "(err " ^ show_err e ^ ")"
let show_dict d = show_list (fun (k, vs) -> "(" ^ show_str k ^ " " ^ show_list show_value vs ^ ")") d
let show_log l =
  show_list (fun ((n, ins), r) -> "(" ^ show_str n ^ " " ^ show_list show_input ins ^ " " ^ show_value r ^ ")") l

let () =
  register "window" (function [w; idx; d] ->
    show_res show_input (C.get_window_val (window_of w) (z_of_sexp idx) (dict_of d)) | _ -> "!args");
  register "checkdep" (function [fs] ->
    if C.check_dependency (list_of_sexp cfactor_of fs) then "ok" else "raise" | _ -> "!args");
  register "sample" (function [t; trial; fs; a; orc] ->
    let ti = int_of_sexp t in
    show_res (fun (d, log) -> show_dict d ^ " " ^ show_log log)
      (C._sample_continuous (gen_of_oracle ti orc) (nat_of_int ti) (dict_of trial)
         (list_of_sexp cfactor_of fs) (nat_of_sexp a) []) | _ -> "!args");
  register "check" (function [cs; d] ->
    show_res show_bool (C.check_constraints (list_of_sexp constraint_of cs) (dict_of d)) | _ -> "!args");
  register "synth" (function [t; fs; cs; fuel; orc; trialss] ->
    let ti = int_of_sexp t in
    show_res (fun (ms, log) ->
        show_list (fun (d, a) -> "(" ^ show_dict d ^ " " ^ show_nat a ^ ")") ms ^ " " ^ show_log log)
      (C.synthesize_post (gen_of_oracle ti orc) (nat_of_int ti) (list_of_sexp cfactor_of fs)
         (list_of_sexp constraint_of cs) (nat_of_sexp fuel) (list_of_sexp dict_of trialss)) | _ -> "!args");
  register "verdicts" (function [t; trial; fs; cs; a; n; orc] ->
    let ti = int_of_sexp t in
    let att = CL.attempt (gen_of_oracle ti orc) (nat_of_int ti) (dict_of trial) (list_of_sexp cfactor_of fs)
        (list_of_sexp constraint_of cs) in
    let a0 = int_of_sexp a in
    show_list (fun k -> match att (nat_of_int (a0 + k)) with
        | CL.Accept _ -> "accept" | CL.Reject -> "reject" | CL.Raise e -> "(raise " ^ show_err e ^ ")")
      (Stdlib.List.init (int_of_sexp n) (fun k -> k)) | _ -> "!args");
  register "scan" (function [t; trial; fs; cs; fuel; a; orc] ->
    let ti = int_of_sexp t in
    let att = CL.attempt (gen_of_oracle ti orc) (nat_of_int ti) (dict_of trial) (list_of_sexp cfactor_of fs)
        (list_of_sexp constraint_of cs) in
    show_res (fun (d, a') -> show_dict d ^ " " ^ show_nat a')
      (CL.scan att (nat_of_sexp fuel) (nat_of_sexp a)) | _ -> "!args")
