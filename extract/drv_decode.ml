(* Driver for Sample/Decode.v; also serves the commands of Design/Layout.v
   (copied from drv_layout.ml: identical handlers, so that registering both
   drivers in one binary is harmless). *)
open Wire
let show_natlist = show_list show_nat
let show_pair (a, b) = "(" ^ show_nat a ^ " " ^ show_nat b ^ ")"
let ilist n = Stdlib.List.init n (fun i -> i)
let show_key = function
  | Decode.KName s -> show_str s
  | Decode.KHidden f -> "(hidden " ^ show_nat f ^ ")"
let () =
  (* (decode FLAT (v1 v2 ...)): the dict of Gen.decode as an ordered list of (key (level names)) *)
  register "decode" (function [f; vs] ->
    let fb = Wire_flat.flat_of_sexp f in
    (match Decode.decode fb (zlist_of_sexp vs) with
     | Decode.DOk d -> show_list (fun (k, xs) -> "(" ^ show_key k ^ " " ^ show_list show_str xs ^ ")") d
     | Decode.DIndexError -> "(error IndexError)"
     | Decode.DRuntimeError -> "(error RuntimeError)")
    | _ -> "!args");
  (* (decodes FLAT ((v..) (v..) ...)): several solutions for one flat record, results in one list *)
  register "decodes" (function [f; vss] ->
    let fb = Wire_flat.flat_of_sexp f in
    show_list (fun vs ->
      match Decode.decode fb (zlist_of_sexp vs) with
      | Decode.DOk d -> show_list (fun (k, xs) -> "(" ^ show_key k ^ " " ^ show_list show_str xs ^ ")") d
      | Decode.DIndexError -> "(error IndexError)"
      | Decode.DRuntimeError -> "(error RuntimeError)") (match vss with L l -> l | _ -> failwith "list expected")
    | _ -> "!args");
  (* (wf FLAT): the hypotheses of the C14 theorems on this flat record: wf_layout, act_keys_distinct *)
  register "wf" (function [f] ->
    let fb = Wire_flat.flat_of_sexp f in
    show_bool (LayoutWf.wf_layout fb) ^ " " ^ show_bool (DecodeWf.act_keys_distinct fb)
    | _ -> "!args");
  (* (geomobs FLAT WB ((f l) ...) ((f b) ...)): ranges | varlists of each (f l) | trial numbers of each (f b),
     the same functions as the commands ranges / varlists / trialnos, the flat record parsed once *)
  register "geomobs" (function [f; wb; fls; fbs] ->
    let fb = Wire_flat.flat_of_sexp f in
    let g = Wire_flat.geom_of_sexp wb in
    let pair = function L [a; b] -> (a, b) | _ -> failwith "pair" in
    let r = show_opt (show_list show_pair) (Layout.map_block_trial_ranges fb g) in
    let vs = Stdlib.List.map (fun x -> let (fi, l) = pair x in
        show_opt (show_list show_natlist) (Layout.build_variable_lists fb (nat_of_sexp fi) (nat_of_sexp l) g)) (list_of_sexp (fun x -> x) fls) in
    let ts = Stdlib.List.map (fun x -> let (fi, b) = pair x in
        show_opt show_natlist (Layout.get_trial_numbers fb (nat_of_sexp fi) (z_of_sexp b) g)) (list_of_sexp (fun x -> x) fbs) in
    r ^ " | " ^ Stdlib.String.concat " ; " vs ^ " | " ^ Stdlib.String.concat " ; " ts
    | _ -> "!args");
  (* (layout FLAT): vpt grid vps support | encode for every act factor/level/trial | decode 1..vps | variable_list_for_trial *)
  register "layout" (function [f] ->
    let fb = Wire_flat.flat_of_sexp f in
    let t = int_of_nat fb.Flat.fl_trials in
    let act = fb.Flat.fl_act in
    let enc = Stdlib.List.map (fun fi ->
        let nl = int_of_nat (Layout.nlevels fb fi) in
        show_list (fun l -> show_list (fun tr ->
            if Layout.applies_at fb fi (nat_of_int tr) then show_opt show_nat (Layout.encode_variable fb fi (nat_of_int l) (nat_of_int tr)) else "skip")
            (Stdlib.List.init t (fun i -> i + 1))) (ilist nl)) act in
    let vps = int_of_nat (Layout.variables_per_sample fb) in
    let dec = Stdlib.List.map (fun v -> show_opt show_pair (Layout.decode_variable fb (nat_of_int v))) (Stdlib.List.init vps (fun i -> i + 1)) in
    let vl = Stdlib.List.map (fun tr -> show_opt (show_list show_natlist) (Layout.variable_list_for_trial fb (nat_of_int tr))) (Stdlib.List.init t (fun i -> i + 1)) in
    show_nat (Layout.variables_per_trial fb) ^ " " ^ show_nat (Layout.grid_variables fb) ^ " " ^ show_nat (Layout.variables_per_sample fb)
    ^ " " ^ show_opt show_natlist (Layout.support_variables fb)
    ^ " (" ^ Stdlib.String.concat " " enc ^ ") (" ^ Stdlib.String.concat " " dec ^ ") (" ^ Stdlib.String.concat " " vl ^ ")"
    | _ -> "!args");
  register "ranges" (function [f; wb] ->
    show_opt (show_list show_pair) (Layout.map_block_trial_ranges (Wire_flat.flat_of_sexp f) (Wire_flat.geom_of_sexp wb)) | _ -> "!args");
  register "varlists" (function [f; fi; l; wb] ->
    show_opt (show_list show_natlist) (Layout.build_variable_lists (Wire_flat.flat_of_sexp f) (nat_of_sexp fi) (nat_of_sexp l) (Wire_flat.geom_of_sexp wb)) | _ -> "!args");
  register "trialnos" (function [f; fi; b; wb] ->
    show_opt show_natlist (Layout.get_trial_numbers (Wire_flat.flat_of_sexp f) (nat_of_sexp fi) (z_of_sexp b) (Wire_flat.geom_of_sexp wb)) | _ -> "!args")
