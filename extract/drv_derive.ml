(* Driver for Design/Derive.v.
   DFAC = ((NL READY)...) WIDTH STRIDE START (LEVEL...)   LEVEL = else | (TUPLE...)
   TUPLE = (CELL...)   CELL = n >= 0 (level index) | -1 (None / BeforeStart) | -2 ("") *)
open Wire
let cell_of_sexp x = let n = int_of_sexp x in
  if n >= 0 then Derive.CLevel (nat_of_int n) else if n = -1 then Derive.CBefore else Derive.CEmpty
let show_cell = function Derive.CLevel n -> show_nat n | Derive.CBefore -> "-1" | Derive.CEmpty -> "-2"
let tuple_of_sexp = list_of_sexp cell_of_sexp
let show_tuple = show_list show_cell
let level_of_sexp = function
  | A "else" -> Derive.DElse
  | x -> Derive.DTable (list_of_sexp tuple_of_sexp x)
let dfac_of_sexp = function
  | L [deps; w; st; start; levels] ->
    { Derive.df_deps = list_of_sexp (function L [nl; r] -> { Derive.dp_nlevels = nat_of_sexp nl; Derive.dp_ready = nat_of_sexp r }
                                             | _ -> failwith "dep") deps;
      Derive.df_width = nat_of_sexp w; Derive.df_stride = nat_of_sexp st; Derive.df_start = nat_of_sexp start;
      Derive.df_levels = list_of_sexp level_of_sexp levels }
  | _ -> failwith "dfac"
let show_err = function
  | Derive.NoMatchLevel (l, c, r) -> "(nomatch " ^ show_nat l ^ " " ^ show_bool c ^ " " ^ show_bool r ^ ")"
  | Derive.Uncovered t -> "(uncovered " ^ show_tuple t ^ ")"
let show_didx = function Flat.DIdx n -> show_nat n | Flat.DBefore r -> "(before " ^ show_nat r ^ ")"
let show_der (own, deps) = "(" ^ show_nat own ^ " " ^ show_list (show_list show_didx) deps ^ ")"
let show_outcome = function
  | Derive.DOverlap (l1, l2, t) -> "overlap " ^ show_nat l1 ^ " " ^ show_nat l2 ^ " " ^ show_tuple t
  | Derive.DBadIndex -> "badindex"
  | Derive.DOk (errs, ders) -> "ok " ^ show_list show_err errs ^ " " ^ show_list show_der ders
let cols_of_sexp = list_of_sexp (list_of_sexp cell_of_sexp)
let show_ocell = function None -> "-1" | Some n -> show_nat n
let ilist n = Stdlib.List.init n (fun i -> i)
let () =
  (* (check DFAC crossed rcc): outcome class, whether show_errors fails, the domain, per level the accepted domain tuples *)
  register "check" (function [f; c; r] ->
    let d = dfac_of_sexp f in
    let o = Derive.check_factor d (bool_of_sexp c) (bool_of_sexp r) in
    let dom = Derive.domain d in
    let nl = Stdlib.List.length d.Derive.df_levels in
    show_outcome o ^ " " ^ show_bool (Derive.outcome_fails o) ^ " " ^ show_list show_tuple dom ^ " "
    ^ show_list (fun li -> show_list show_tuple (Stdlib.List.filter (fun t -> Derive.accepts d (nat_of_int li) t) dom)) (ilist nl)
    | _ -> "!args");
  (* (select DFAC COLS i su) / (testtrial DFAC COLS li i su) / (implied DFAC COLS n su) / (args DFAC COLS i su) *)
  register "select" (function [f; cols; i; su] ->
    (match Derive.select_level_for_sample (dfac_of_sexp f) (cols_of_sexp cols) (nat_of_sexp i) (nat_of_sexp su) with
     | Derive.SelLevel l -> "level " ^ show_nat l | Derive.SelNoMatch -> "nomatch" | Derive.SelIndexError -> "indexerror")
    | _ -> "!args");
  register "selargs" (function [f; t] ->
    show_opt show_nat (Derive.select_level (dfac_of_sexp f) (tuple_of_sexp t)) | _ -> "!args");
  register "testtrial" (function [f; cols; li; i; su] ->
    show_opt show_bool (Derive.test_trial (dfac_of_sexp f) (cols_of_sexp cols) (nat_of_sexp li) (nat_of_sexp i) (nat_of_sexp su))
    | _ -> "!args");
  register "args" (function [f; cols; i; su] ->
    let d = dfac_of_sexp f in
    show_opt show_tuple (Derive.window_args (cols_of_sexp cols) d.Derive.df_width (nat_of_sexp i) (nat_of_sexp su)) | _ -> "!args");
  register "implied" (function [f; cols; n; su] ->
    show_opt (show_list show_ocell) (Derive.add_implied (dfac_of_sexp f) (cols_of_sexp cols) (nat_of_sexp n) (nat_of_sexp su))
    | _ -> "!args");
  (* (derive_flat FLAT): generate_derivations on the flat record *)
  register "derive_flat" (function [f] ->
    let fb = Wire_flat.flat_of_sexp f in
    (match Derive.generate_derivations fb with
     | Derive.GOverlap (f, l1, l2, t) -> "overlap " ^ show_nat f ^ " " ^ show_nat l1 ^ " " ^ show_nat l2 ^ " " ^ show_tuple t
     | Derive.GBadIndex f -> "badindex " ^ show_nat f
     | Derive.GOk (errs, ders) ->
       "ok " ^ show_list (fun (f, e) -> "(" ^ show_nat f ^ " " ^ show_err e ^ ")") errs ^ " "
       ^ show_list (function Flat.FDerivation (d, deps, f) ->
                      "(Derivation " ^ show_nat d ^ " " ^ show_list (show_list show_didx) deps ^ " " ^ show_nat f ^ ")"
                    | _ -> "?") ders
       ^ " " ^ show_opt show_bool (Derive.derivation_errors_fail fb))
    | _ -> "!args")
