(* Driver for Design/Sem.v: the reference semantics (oracle). *)
open Wire
let cell_of_sexp x = let n = int_of_sexp x in if n < 0 then None else Some (nat_of_int n)
let show_cell = function None -> "-1" | Some n -> show_nat n
let window_of_sexp = function
  | L [deps; width; stride; start; table] ->
    { Sem.w_deps = list_of_sexp nat_of_sexp deps; Sem.w_width = nat_of_sexp width;
      Sem.w_stride = nat_of_sexp stride; Sem.w_start = nat_of_sexp start;
      Sem.w_table = list_of_sexp (list_of_sexp (list_of_sexp (list_of_sexp cell_of_sexp))) table }
  | _ -> failwith "window"
let factor_of_sexp = function
  | L [nl; su; d] ->
    { Sem.f_nlevels = nat_of_sexp nl; Sem.f_sustain = nat_of_sexp su;
      Sem.f_derived = (match d with A "none" -> None | w -> Some (window_of_sexp w)) }
  | _ -> failwith "factor"
let crossing_of_sexp = function
  | L [fs; first; chunk; mult] ->
    { Sem.c_factors = list_of_sexp nat_of_sexp fs; Sem.c_first = nat_of_sexp first; Sem.c_chunk = nat_of_sexp chunk;
      Sem.c_mult = list_of_sexp (function L [c; m] -> (list_of_sexp nat_of_sexp c, nat_of_sexp m) | _ -> failwith "mult") mult }
  | _ -> failwith "crossing"
let kind_of_sexp = function
  | L [A "atmost"; k] -> Sem.KAtMost (nat_of_sexp k)
  | L [A "atleast"; k] -> Sem.KAtLeast (nat_of_sexp k)
  | L [A "exactlyrow"; k] -> Sem.KExactlyInARow (nat_of_sexp k)
  | L [A "exactlyk"; k] -> Sem.KExactlyK (nat_of_sexp k)
  | L [A "exclude"] -> Sem.KExclude
  | L [A "pin"; i; su] -> Sem.KPin (z_of_sexp i, nat_of_sexp su)
  | L [A "seqn"; first; su] -> Sem.KSequential (nat_of_sexp first, nat_of_sexp su)
  | L [A "latin"; others; nmain; first; su] ->
    Sem.KLatin (list_of_sexp (function L [f; n] -> (nat_of_sexp f, nat_of_sexp n) | _ -> failwith "latin") others,
                nat_of_sexp nmain, nat_of_sexp first, nat_of_sexp su)
  | _ -> failwith "kind"
let constraint_of_sexp = function
  | L [k; f; l; ws] ->
    { Sem.k_kind = kind_of_sexp k; Sem.k_factor = nat_of_sexp f; Sem.k_level = nat_of_sexp l;
      Sem.k_windows = list_of_sexp (function L [a; b] -> (nat_of_sexp a, nat_of_sexp b) | _ -> failwith "win") ws }
  | _ -> failwith "constraint"
let sem_of_sexp = function
  | L [t; fs; cs; ks] ->
    { Sem.s_trials = nat_of_sexp t; Sem.s_factors = list_of_sexp factor_of_sexp fs;
      Sem.s_crossings = list_of_sexp crossing_of_sexp cs; Sem.s_constraints = list_of_sexp constraint_of_sexp ks }
  | _ -> failwith "sem"
let seq_of_sexp = list_of_sexp (list_of_sexp cell_of_sexp)
let show_seq = show_list (show_list show_cell)
let () =
  register "valid" (function [s; seqs] ->
    let sem = sem_of_sexp s in
    show_list (fun q -> show_bool (Sem.valid_b sem (seq_of_sexp q))) (match seqs with L l -> l | _ -> failwith "seqs")
    | _ -> "!args");
  (* which components reject: factors / crossings / constraints (diagnostics) *)
  register "why" (function [s; q] ->
    let sem = sem_of_sexp s in let q = seq_of_sexp q in
    let fs = Stdlib.List.mapi (fun i fd -> Sem.factor_ok sem q (nat_of_int i) fd) sem.Sem.s_factors in
    show_list show_bool fs ^ " " ^ show_list (fun c -> show_bool (Sem.crossing_ok sem q c)) sem.Sem.s_crossings
    ^ " " ^ show_list (fun c -> show_bool (Sem.constraint_ok sem q c)) sem.Sem.s_constraints
    | _ -> "!args");
  register "allvalid" (function [s] ->
    let sem = sem_of_sexp s in
    show_nat (Sem.candidates_count sem) ^ " " ^ show_list show_seq (Sem.all_valid sem)
    | _ -> "!args");
  register "flatinfo" (function [f] ->
    let fb = Wire_flat.flat_of_sexp f in
    show_nat fb.Flat.fl_trials ^ " " ^ show_nat (nat_of_int (Stdlib.List.length fb.Flat.fl_design)) ^ " "
    ^ show_nat (nat_of_int (Stdlib.List.length fb.Flat.fl_constraints))
    ^ " " ^ show_list (fun i -> show_nat (Flat.sustain_of fb (nat_of_int i))) (Stdlib.List.init (Stdlib.List.length fb.Flat.fl_design) (fun i -> i))
    | _ -> "!args")
