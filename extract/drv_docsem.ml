(* Driver for Design/DocSem.v: program -> documented semantics (Sem.sem), in the wire
   form of harness/docsem.py [to_wire(ds.sem)].
   (docsem PROGRAM) -> "ok T (forder) unsat SEM" | "unsupported \"message\"" | "crash \"why\""
   PROGRAM = (FACTORS BLOCK); see harness/docsem_corr.py [program_wire]. *)
open Wire
let name_of_sexp x = explode (str_of_sexp x)
let cell_of_sexp = function L [] -> None | A s -> Some (explode s) | _ -> failwith "cell"
let entry_of_sexp = list_of_sexp (list_of_sexp cell_of_sexp)
let natopt_of_sexp = function A "none" -> None | x -> Some (nat_of_sexp x)
let al_of_sexp = function
  | A "equal" -> Flat.EqualPreamble | A "parallel" -> Flat.ParallelStart | A "post" -> Flat.PostPreamble
  | _ -> failwith "alignment"
let alopt_of_sexp = function A "none" -> None | x -> Some (al_of_sexp x)
let mode_of_sexp = function
  | A "weight" -> DocSem.DWeight | A "repeat" -> DocSem.DRepeat | A "equal" -> DocSem.DEqual | _ -> failwith "mode"
let wtype_of_sexp = function
  | A "within" -> DocSem.WWithin | A "transition" -> DocSem.WTransition
  | L [A "window"; w; st; sa] -> DocSem.WWindow (nat_of_sexp w, nat_of_sexp st, natopt_of_sexp sa)
  | _ -> failwith "wtype"
let dlevel_of_sexp = function
  | L [n; w; e; t] ->
    { DocSem.dl_name = name_of_sexp n; DocSem.dl_weight = nat_of_sexp w; DocSem.dl_else = bool_of_sexp e;
      DocSem.dl_table = list_of_sexp entry_of_sexp t }
  | _ -> failwith "dlevel"
let fkind_of_sexp = function
  | L [A "simple"; levels] ->
    DocSem.FSimple (list_of_sexp (function L [n; w] -> (name_of_sexp n, nat_of_sexp w) | _ -> failwith "level") levels)
  | L [A "derived"; L [wt; deps]; levels] ->
    DocSem.FDerived ({ DocSem.pw_type = wtype_of_sexp wt; DocSem.pw_deps = list_of_sexp nat_of_sexp deps },
                     list_of_sexp dlevel_of_sexp levels)
  | A "continuous" -> DocSem.FContinuous
  | _ -> failwith "fkind"
let factor_of_sexp = function
  | L [id; n; k] -> { DocSem.pf_id = nat_of_sexp id; DocSem.pf_name = name_of_sexp n; DocSem.pf_kind = fkind_of_sexp k }
  | _ -> failwith "factor"
let target_of_sexp = function
  | L [A "level"; f; n] -> DocSem.TLevel (nat_of_sexp f, name_of_sexp n)
  | L [A "factor"; f] -> DocSem.TFactor (nat_of_sexp f)
  | _ -> failwith "target"
let cons_of_sexp = function
  | L [A "atmost"; k; tg] -> DocSem.PKRow (DocSem.RAtMost, nat_of_sexp k, target_of_sexp tg)
  | L [A "atleast"; k; tg] -> DocSem.PKRow (DocSem.RAtLeast, nat_of_sexp k, target_of_sexp tg)
  | L [A "exactlyrow"; k; tg] -> DocSem.PKRow (DocSem.RExactlyRow, nat_of_sexp k, target_of_sexp tg)
  | L [A "exactlyk"; k; tg] -> DocSem.PKRow (DocSem.RExactlyK, nat_of_sexp k, target_of_sexp tg)
  | L [A "exclude"; f; n] -> DocSem.PExclude (nat_of_sexp f, name_of_sexp n)
  | L [A "pin"; i; f; n] -> DocSem.PPin (z_of_sexp i, nat_of_sexp f, name_of_sexp n)
  | L [A "seqn"; f] -> DocSem.PSequential (nat_of_sexp f)
  | L [A "latin"; fs] -> DocSem.PLatin (list_of_sexp nat_of_sexp fs)
  | L [A "mintrials"; n] -> DocSem.PMinimumTrials (nat_of_sexp n)
  | L [A "continuous"] -> DocSem.PContinuous
  | L [A "other"; k] -> DocSem.POther (name_of_sexp k)
  | _ -> failwith "cons"
let natl = list_of_sexp nat_of_sexp
let rec block_of_sexp = function
  | L [A "cross"; d; c; cs; rcc] -> DocSem.PCross (natl d, natl c, list_of_sexp cons_of_sexp cs, bool_of_sexp rcc)
  | L [A "multi"; d; crs; cs; rcc; m; al] ->
    DocSem.PMulti (natl d, list_of_sexp natl crs, list_of_sexp cons_of_sexp cs, bool_of_sexp rcc, mode_of_sexp m, al_of_sexp al)
  | L [A "repeat"; b; cs] -> DocSem.PRepeat (block_of_sexp b, list_of_sexp cons_of_sexp cs)
  | L [A "merge"; bs; cs; m; al] ->
    DocSem.PMerge (list_of_sexp block_of_sexp bs, list_of_sexp cons_of_sexp cs, mode_of_sexp m, alopt_of_sexp al)
  | L [A "nest"; o; i; cs; al] ->
    DocSem.PNest (block_of_sexp o, block_of_sexp i, list_of_sexp cons_of_sexp cs, alopt_of_sexp al)
  | _ -> failwith "block"
let program_of_sexp = function
  | L [fs; b] -> { DocSem.p_factors = list_of_sexp factor_of_sexp fs; DocSem.p_main = block_of_sexp b }
  | _ -> failwith "program"

(* output: the wire form of docsem.to_wire *)
let show_cell = function None -> "-1" | Some n -> show_nat n
let show_natl = show_list show_nat
let show_factor fd =
  "(" ^ show_nat fd.Sem.f_nlevels ^ " " ^ show_nat fd.Sem.f_sustain ^ " " ^
  (match fd.Sem.f_derived with
   | None -> "none"
   | Some w -> "(" ^ show_natl w.Sem.w_deps ^ " " ^ show_nat w.Sem.w_width ^ " " ^ show_nat w.Sem.w_stride ^ " "
               ^ show_nat w.Sem.w_start ^ " " ^ show_list (show_list (show_list (show_list show_cell))) w.Sem.w_table ^ ")")
  ^ ")"
let show_crossing c =
  "(" ^ show_natl c.Sem.c_factors ^ " " ^ show_nat c.Sem.c_first ^ " " ^ show_nat c.Sem.c_chunk ^ " "
  ^ show_list (fun (idx, m) -> "(" ^ show_natl idx ^ " " ^ show_nat m ^ ")") c.Sem.c_mult ^ ")"
let show_kind = function
  | Sem.KAtMost k -> "(atmost " ^ show_nat k ^ ")"
  | Sem.KAtLeast k -> "(atleast " ^ show_nat k ^ ")"
  | Sem.KExactlyInARow k -> "(exactlyrow " ^ show_nat k ^ ")"
  | Sem.KExactlyK k -> "(exactlyk " ^ show_nat k ^ ")"
  | Sem.KExclude -> "(exclude)"
  | Sem.KPin (i, su) -> "(pin " ^ show_z i ^ " " ^ show_nat su ^ ")"
  | Sem.KSequential (first, su) -> "(seqn " ^ show_nat first ^ " " ^ show_nat su ^ ")"
  | Sem.KLatin (others, n, first, su) ->
    "(latin " ^ show_list (fun (f, n) -> "(" ^ show_nat f ^ " " ^ show_nat n ^ ")") others ^ " " ^ show_nat n ^ " "
    ^ show_nat first ^ " " ^ show_nat su ^ ")"
let show_constraint k =
  "(" ^ show_kind k.Sem.k_kind ^ " " ^ show_nat k.Sem.k_factor ^ " " ^ show_nat k.Sem.k_level ^ " "
  ^ show_list (fun (a, b) -> "(" ^ show_nat a ^ " " ^ show_nat b ^ ")") k.Sem.k_windows ^ ")"
let show_sem s =
  "(" ^ show_nat s.Sem.s_trials ^ " " ^ show_list show_factor s.Sem.s_factors ^ " "
  ^ show_list show_crossing s.Sem.s_crossings ^ " " ^ show_list show_constraint s.Sem.s_constraints ^ ")"
let message = function
  | DocSem.UNestPreamble -> explode "Nest with preamble trials"
  | DocSem.UEqualPreamble -> explode "constructor rejects: EQUAL_PREAMBLE with different preambles"
  | DocSem.UEqualSizes -> explode "constructor rejects: EQUAL with different sizes"
  | DocSem.UAlignments -> explode "constructor rejects: different alignments"
  | DocSem.UDegenerateStep -> explode "degenerate repetition step"
  | DocSem.UDepOutside -> explode "derived factor depends on a factor outside the design"
  | DocSem.UEmptyCrossing -> explode "empty crossing"
  | DocSem.UStrided -> explode "run-length constraint on a strided factor: documentation silent"
  | DocSem.UHeldDerived -> explode "held derived factor over dependencies that are not held with it: outside the reference semantics"
  | DocSem.UKind k -> k
let show_res show = function
  | DocSem.Ok a -> show a
  | DocSem.Unsup e -> "unsupported " ^ show_str (message e)
  | DocSem.Crash w -> "crash " ^ show_str w
let () =
  register "docsem" (function [p] ->
    show_res (fun ds -> "ok " ^ show_nat ds.DocSem.ds_T ^ " " ^ show_natl ds.DocSem.ds_forder ^ " "
                        ^ show_bool ds.DocSem.ds_unsat ^ " " ^ show_sem ds.DocSem.ds_sem)
      (DocSem.doc_sem (program_of_sexp p))
    | _ -> "!args");
  (* (docparams PROGRAM fid) -> window_params, is_complex and the accepted tables of a derived factor *)
  register "docparams" (function [p; f] ->
    let p = program_of_sexp p in
    (match DocSem.fm p (nat_of_sexp f) with
     | DocSem.Ok fd ->
       show_res (fun (((deps, w), st), sa) -> "(" ^ show_natl deps ^ " " ^ show_nat w ^ " " ^ show_nat st ^ " " ^ show_nat sa ^ ")")
         (DocSem.window_params p fd)
       ^ " " ^ show_res show_bool (DocSem.is_complex p fd)
     | _ -> "crash \"factor\"")
    | _ -> "!args")
