(* Driver for Front/Trials.v and Front/Create.v *)
open Wire
let show_natlist = show_list show_nat
let show_pairnn (a, b) = "(" ^ show_nat a ^ " " ^ show_nat b ^ ")"
let show_geom = function
  | None -> "none"
  | Some g -> "(" ^ show_nat g.Flat.g_trials ^ " " ^ show_nat g.Flat.g_preamble ^ " " ^ show_list show_pairnn g.Flat.g_sustain ^ ")"
let mode_of_sexp = function
  | A "weight" -> Trials.MWeight | A "repeat" -> Trials.MRepeat | A "equal" -> Trials.MEqual | _ -> failwith "mode"
let show_mode = function Trials.MWeight -> "weight" | Trials.MRepeat -> "repeat" | Trials.MEqual -> "equal"
let show_al = function Flat.PostPreamble -> "post" | Flat.ParallelStart -> "parallel" | Flat.EqualPreamble -> "equal"
let alopt_of_sexp = function A "none" -> None | x -> Some (Wire_flat.alignment_of_sexp x)
let kind_of_sexp = function
  | A "AtMostKInARow" -> Create.KAtMost | A "AtLeastKInARow" -> Create.KAtLeast | A "ExactlyK" -> Create.KExactlyK
  | A "ExactlyKInARow" -> Create.KExactlyKInARow | A "ExactlyKMultipleInARow" -> Create.KExactlyKMultiple
  | A "Pin" -> Create.KPin | A "MinimumTrials" -> Create.KMinimumTrials | A "Exclude" -> Create.KExclude
  | A _ -> Create.KOther | _ -> failwith "kind"
let show_kind = function
  | Create.KAtMost -> "AtMostKInARow" | Create.KAtLeast -> "AtLeastKInARow" | Create.KExactlyK -> "ExactlyK"
  | Create.KExactlyKInARow -> "ExactlyKInARow" | Create.KExactlyKMultiple -> "ExactlyKMultipleInARow"
  | Create.KPin -> "Pin" | Create.KMinimumTrials -> "MinimumTrials" | Create.KExclude -> "Exclude" | Create.KOther -> "Other"
let cinfo_of_sexp = function
  | L [id; k; p; wb] ->
    { Create.c_id = nat_of_sexp id; Create.c_kind = kind_of_sexp k; Create.c_param = z_of_sexp p; Create.c_wb = Wire_flat.geom_of_sexp wb }
  | _ -> failwith "cinfo"
let natll_of_sexp = list_of_sexp (list_of_sexp nat_of_sexp)
let binfo_of_sexp = function
  | L [mc; d; cr; su; ws; od; ocr; ocs; al; rcc; t; p] ->
    { Create.bi_multicross = bool_of_sexp mc; Create.bi_design = list_of_sexp nat_of_sexp d; Create.bi_crossings = natll_of_sexp cr;
      Create.bi_sustains = list_of_sexp nat_of_sexp su; Create.bi_weights = zlist_of_sexp ws;
      Create.bi_orig_design = list_of_sexp nat_of_sexp od; Create.bi_orig_crossings = natll_of_sexp ocr;
      Create.bi_orig_constraints = list_of_sexp cinfo_of_sexp ocs; Create.bi_alignment = Wire_flat.alignment_of_sexp al;
      Create.bi_rcc = bool_of_sexp rcc; Create.bi_trials = nat_of_sexp t; Create.bi_common_preamble = nat_of_sexp p }
  | _ -> failwith "binfo"
let bexp_of_sexp = function
  | L [A "cross"; d; c; cs; rcc] ->
    Create.BCross (list_of_sexp nat_of_sexp d, list_of_sexp nat_of_sexp c, list_of_sexp cinfo_of_sexp cs, bool_of_sexp rcc)
  | L [A "multi"; d; crs; cs; rcc; m; al] ->
    Create.BMulti (list_of_sexp nat_of_sexp d, natll_of_sexp crs, list_of_sexp cinfo_of_sexp cs, bool_of_sexp rcc,
                   mode_of_sexp m, Wire_flat.alignment_of_sexp al)
  | L [A "repeat"; b; cs] -> Create.BRepeat (binfo_of_sexp b, list_of_sexp cinfo_of_sexp cs)
  | L [A "merge"; bs; cs; m; al] ->
    Create.BMerge (list_of_sexp binfo_of_sexp bs, list_of_sexp cinfo_of_sexp cs, mode_of_sexp m, alopt_of_sexp al)
  | L [A "nest"; o; i; cs; al] ->
    Create.BNest (binfo_of_sexp o, binfo_of_sexp i, list_of_sexp cinfo_of_sexp cs, alopt_of_sexp al)
  | _ -> failwith "bexp"
let show_origin = function
  | Create.OOwn -> "own" | Create.OBlock i -> "(block " ^ show_nat i ^ ")" | Create.OOuterCopy -> "outercopy"
let show_cinfo (o, c) =
  "(" ^ show_origin o ^ " " ^ show_nat c.Create.c_id ^ " " ^ show_kind c.Create.c_kind ^ " " ^ show_z c.Create.c_param
  ^ " " ^ show_geom c.Create.c_wb ^ ")"
let show_err = function
  | Create.ENestSharedCrossing -> "ENestSharedCrossing" | Create.ENestAlignment -> "ENestAlignment"
  | Create.ENestSustainNone -> "ENestSustainNone" | Create.EMergeEmpty -> "EMergeEmpty"
  | Create.EMergeAlignment -> "EMergeAlignment" | Create.ERepeatArg -> "ERepeatArg"
let wfactor_of_sexp = function
  | L [name; hidden; derived; deps; levels] ->
    { Desugar.wf_name = explode (str_of_sexp name); Desugar.wf_hidden = bool_of_sexp hidden; Desugar.wf_derived = bool_of_sexp derived;
      Desugar.wf_deps = list_of_sexp nat_of_sexp deps;
      Desugar.wf_levels = list_of_sexp (function L [n; w] -> (explode (str_of_sexp n), nat_of_sexp w) | _ -> failwith "level") levels }
  | _ -> failwith "wfactor"
let show_wfactor f =
  "(" ^ show_str f.Desugar.wf_name ^ " " ^ show_bool f.Desugar.wf_hidden ^ " " ^ show_bool f.Desugar.wf_derived ^ " "
  ^ show_natlist f.Desugar.wf_deps ^ " " ^ show_list (fun (n, w) -> "(" ^ show_str n ^ " " ^ show_nat w ^ ")") f.Desugar.wf_levels ^ ")"
(* reference-semantics normal forms (same wire format as harness/docsem.py / drv_design.ml) *)
let cellopt x = let n = int_of_sexp x in if n < 0 then None else Some (nat_of_int n)
let sem_window_of_sexp = function
  | L [deps; width; stride; start; table] ->
    { Sem.w_deps = list_of_sexp nat_of_sexp deps; Sem.w_width = nat_of_sexp width; Sem.w_stride = nat_of_sexp stride;
      Sem.w_start = nat_of_sexp start;
      Sem.w_table = list_of_sexp (list_of_sexp (list_of_sexp (list_of_sexp cellopt))) table }
  | _ -> failwith "window"
let sem_factor_of_sexp = function
  | L [nl; su; d] ->
    { Sem.f_nlevels = nat_of_sexp nl; Sem.f_sustain = nat_of_sexp su;
      Sem.f_derived = (match d with A "none" -> None | w -> Some (sem_window_of_sexp w)) }
  | _ -> failwith "factor"
let sem_crossing_of_sexp = function
  | L [fs; first; chunk; mult] ->
    { Sem.c_factors = list_of_sexp nat_of_sexp fs; Sem.c_first = nat_of_sexp first; Sem.c_chunk = nat_of_sexp chunk;
      Sem.c_mult = list_of_sexp (function L [c; m] -> (list_of_sexp nat_of_sexp c, nat_of_sexp m) | _ -> failwith "mult") mult }
  | _ -> failwith "crossing"
(* constraints: same wire format as extract/drv_design.ml *)
let sem_kind_of_sexp = function
  | L [A "atmost"; k] -> Sem.KAtMost (nat_of_sexp k)
  | L [A "atleast"; k] -> Sem.KAtLeast (nat_of_sexp k)
  | L [A "exactlyrow"; k] -> Sem.KExactlyInARow (nat_of_sexp k)
  | L [A "exactlyk"; k] -> Sem.KExactlyK (nat_of_sexp k)
  | L [A "exclude"] -> Sem.KExclude
  | L [A "pin"; i; su] -> Sem.KPin (z_of_sexp i, nat_of_sexp su)
  | L [A "seqn"; first; su] -> Sem.KSequential (nat_of_sexp first, nat_of_sexp su)
  | L [A "latin"; others; nmain; first; su] ->
    Sem.KLatin (list_of_sexp (function L [f; n] -> (nat_of_sexp f, nat_of_sexp n) | _ -> failwith "latin") others,
                nat_of_sexp nmain, nat_of_sexp first, nat_of_sexp su)
  | _ -> failwith "kind"
let sem_constraint_of_sexp = function
  | L [k; f; l; ws] ->
    { Sem.k_kind = sem_kind_of_sexp k; Sem.k_factor = nat_of_sexp f; Sem.k_level = nat_of_sexp l;
      Sem.k_windows = list_of_sexp (function L [a; b] -> (nat_of_sexp a, nat_of_sexp b) | _ -> failwith "win") ws }
  | _ -> failwith "constraint"
let simple_sem_of_sexp = function
  | L [t; fs; cs; ks] ->
    { Sem.s_trials = nat_of_sexp t; Sem.s_factors = list_of_sexp sem_factor_of_sexp fs;
      Sem.s_crossings = list_of_sexp sem_crossing_of_sexp cs; Sem.s_constraints = list_of_sexp sem_constraint_of_sexp ks }
  | _ -> failwith "sem"
let show_sem_constraint c =
  let kind = match c.Sem.k_kind with
    | Sem.KAtMost k -> "(atmost " ^ show_nat k ^ ")" | Sem.KAtLeast k -> "(atleast " ^ show_nat k ^ ")"
    | Sem.KExactlyInARow k -> "(exactlyrow " ^ show_nat k ^ ")" | Sem.KExactlyK k -> "(exactlyk " ^ show_nat k ^ ")"
    | _ -> "(other)" in
  "(" ^ kind ^ " " ^ show_nat c.Sem.k_factor ^ " " ^ show_nat c.Sem.k_level ^ " "
  ^ show_list (fun (a, b) -> "(" ^ show_nat a ^ " " ^ show_nat b ^ ")") c.Sem.k_windows ^ ")"
let show_sem_factor f =
  "(" ^ show_nat f.Sem.f_nlevels ^ " " ^ show_nat f.Sem.f_sustain ^ " " ^ (match f.Sem.f_derived with None -> "none" | Some _ -> "derived") ^ ")"
let show_sem_crossing c =
  "(" ^ show_natlist c.Sem.c_factors ^ " " ^ show_nat c.Sem.c_first ^ " " ^ show_nat c.Sem.c_chunk ^ " "
  ^ show_list (fun (cb, m) -> "(" ^ show_natlist cb ^ " " ^ show_nat m ^ ")") c.Sem.c_mult ^ ")"
let show_sem s =
  "(" ^ show_nat s.Sem.s_trials ^ " " ^ show_list show_sem_factor s.Sem.s_factors ^ " " ^ show_list show_sem_crossing s.Sem.s_crossings
  ^ " " ^ show_list show_sem_constraint s.Sem.s_constraints ^ ")"
(* ---- Front/CreateFlat.v: input parser and a printer of flat records in the wire format of harness/flat.py ---- *)
let iconstraint_of_sexp = function
  | L [A "factor"; A kind; k; f; wb] ->
    let kd = (match kind with
      | "AtMostKInARow" -> CreateFlat.RAtMost | "AtLeastKInARow" -> CreateFlat.RAtLeast | "ExactlyK" -> CreateFlat.RExactlyK
      | "ExactlyKInARow" -> CreateFlat.RExactlyKInARow | _ -> CreateFlat.RExactlyKMultiple) in
    CreateFlat.IKRowFactor (kd, nat_of_sexp k, nat_of_sexp f, Wire_flat.geom_of_sexp wb)
  | c -> CreateFlat.ICon (Wire_flat.constraint_of_sexp c)
let create_input_of_sexp = function
  | L [design; crossings; sustains; weights; cons; rcc; mode; al; excl; derivs; excld; errs] ->
    { CreateFlat.ci_design = list_of_sexp Wire_flat.factor_of_sexp design; CreateFlat.ci_crossings = natll_of_sexp crossings;
      CreateFlat.ci_sustains = list_of_sexp nat_of_sexp sustains; CreateFlat.ci_weights = list_of_sexp nat_of_sexp weights;
      CreateFlat.ci_constraints = list_of_sexp iconstraint_of_sexp cons; CreateFlat.ci_rcc = bool_of_sexp rcc;
      CreateFlat.ci_mode = mode_of_sexp mode; CreateFlat.ci_alignment = Wire_flat.alignment_of_sexp al;
      CreateFlat.ci_exclusions = list_of_sexp nat_of_sexp excl;
      CreateFlat.ci_derivations = list_of_sexp Wire_flat.constraint_of_sexp derivs;
      CreateFlat.ci_excluded_derived = list_of_sexp Wire_flat.pairs_of_sexp excld; CreateFlat.ci_errors_fail = bool_of_sexp errs }
  | _ -> failwith "create_input"
let show_cellopt = function None -> "-1" | Some n -> show_nat n
let show_fgeom = function
  | None -> "none"
  | Some g ->
    let ps = Stdlib.List.sort compare (Stdlib.List.map (fun (a, b) -> (int_of_nat a, int_of_nat b)) g.Flat.g_sustain) in
    "(" ^ show_nat g.Flat.g_trials ^ " " ^ show_nat g.Flat.g_preamble ^ " ("
    ^ Stdlib.String.concat " " (Stdlib.List.map (fun (a, b) -> "(" ^ string_of_int a ^ " " ^ string_of_int b ^ ")") ps) ^ "))"
let show_didx = function Flat.DIdx n -> show_nat n | Flat.DBefore r -> "(before " ^ show_nat r ^ ")"
let show_fconstraint = function
  | Flat.FCross -> "(Cross)" | Flat.FConsistency -> "(Consistency)" | Flat.FSustain -> "(Sustain)"
  | Flat.FDerivation (d, deps, f) -> "(Derivation " ^ show_nat d ^ " " ^ show_list (show_list show_didx) deps ^ " " ^ show_nat f ^ ")"
  | Flat.FAtMost (k, f, l, wb) -> "(AtMostKInARow " ^ show_nat k ^ " " ^ show_nat f ^ " " ^ show_nat l ^ " " ^ show_fgeom wb ^ ")"
  | Flat.FAtLeast (k, f, l, wb) -> "(AtLeastKInARow " ^ show_nat k ^ " " ^ show_nat f ^ " " ^ show_nat l ^ " " ^ show_fgeom wb ^ ")"
  | Flat.FExactlyK (k, f, l, wb) -> "(ExactlyK " ^ show_nat k ^ " " ^ show_nat f ^ " " ^ show_nat l ^ " " ^ show_fgeom wb ^ ")"
  | Flat.FExactlyKInARow (k, f, l, wb) -> "(ExactlyKInARow " ^ show_nat k ^ " " ^ show_nat f ^ " " ^ show_nat l ^ " " ^ show_fgeom wb ^ ")"
  | Flat.FExactlyKMultiple (k, f, l, wb) -> "(ExactlyKMultipleInARow " ^ show_nat k ^ " " ^ show_nat f ^ " " ^ show_nat l ^ " " ^ show_fgeom wb ^ ")"
  | Flat.FExclude (f, l) -> "(Exclude " ^ show_nat f ^ " " ^ show_nat l ^ ")"
  | Flat.FPin (i, f, l, wb) -> "(Pin " ^ show_z i ^ " " ^ show_nat f ^ " " ^ show_nat l ^ " " ^ show_fgeom wb ^ ")"
  | Flat.FReify f -> "(Reify " ^ show_nat f ^ ")"
  | Flat.FMinimumTrials n -> "(MinimumTrials " ^ show_z n ^ ")"
  | Flat.FContinuous -> "(ContinuousConstraint)"
  | Flat.FLatin fs -> "(LatinSquare " ^ show_natlist fs ^ ")"
  | Flat.FSequential f -> "(Sequential " ^ show_nat f ^ ")"
  | Flat.FOther name -> "(" ^ implode name ^ ")"
let show_ffactor f =
  "(" ^ show_str f.Flat.ff_name ^ " " ^ show_bool f.Flat.ff_hidden ^ " "
  ^ show_list (fun l -> "(" ^ show_str l.Flat.lv_name ^ " " ^ show_nat l.Flat.lv_weight ^ " "
                        ^ show_list (show_list (show_list show_cellopt)) l.Flat.lv_accepts ^ ")") f.Flat.ff_levels ^ " "
  ^ (match f.Flat.ff_window with
     | None -> "none"
     | Some w -> "(" ^ show_natlist w.Flat.win_deps ^ " " ^ show_nat w.Flat.win_width ^ " " ^ show_nat w.Flat.win_stride ^ " "
                 ^ show_nat w.Flat.win_start ^ " " ^ show_z w.Flat.win_start_delta ^ ")")
  ^ " " ^ show_bool f.Flat.ff_complex ^ ")"
let show_pairs = show_list show_pairnn
let show_flat fb =
  "(" ^ show_list show_ffactor fb.Flat.fl_design ^ " " ^ show_natlist fb.Flat.fl_act ^ " " ^ show_list show_natlist fb.Flat.fl_crossings
  ^ " " ^ show_natlist fb.Flat.fl_sustains ^ " " ^ show_natlist fb.Flat.fl_weights ^ " " ^ show_natlist fb.Flat.fl_sizes
  ^ " " ^ show_natlist fb.Flat.fl_preambles ^ " " ^ show_al fb.Flat.fl_alignment ^ " " ^ show_nat fb.Flat.fl_alignment_preamble
  ^ " " ^ show_nat fb.Flat.fl_min_trials ^ " " ^ show_nat fb.Flat.fl_trials ^ " " ^ show_bool fb.Flat.fl_rcc
  ^ " " ^ show_pairs fb.Flat.fl_exclude ^ " " ^ show_list show_pairs fb.Flat.fl_excluded_derived
  ^ " " ^ show_list show_fconstraint fb.Flat.fl_constraints ^ " " ^ show_bool fb.Flat.fl_errors_fail ^ ")"
let show_wres = function
  | Trials.WOk ws -> show_zlist ws | Trials.WErrEqual -> "ErrEqual" | Trials.WErrDiv -> "ErrDiv" | Trials.WErrIndex -> "ErrIndex"
let () =
  (* (trials FLAT MODE (w0 ...)) ->
     min_raw min_rounded (preambles) for_crossings trials weights common_preamble geometry0 (sizes_no_excl) wf_trials_b doc_need *)
  register "trials" (function [f; m; ws] ->
    let fb = Wire_flat.flat_of_sexp f in
    let mode = mode_of_sexp m in
    let ws0 = zlist_of_sexp ws in
    let t = Trials.model_trials fb in
    show_z (Trials.min_trials_raw fb) ^ " " ^ show_opt show_z (Trials.model_min_trials fb) ^ " "
    ^ show_opt show_natlist (Trials.model_preambles fb) ^ " "
    ^ show_opt show_nat (Trials.trials_for_crossings fb) ^ " " ^ show_opt show_z t ^ " "
    ^ (match t with Some tt -> show_wres (Trials.model_weights fb mode tt ws0) | None -> "none") ^ " "
    ^ show_opt show_nat (Trials.common_preamble fb) ^ " " ^ show_opt show_pairnn (Trials.model_geometry fb O) ^ " "
    ^ show_natlist (Stdlib.List.map (Trials.crossing_size_no_excl fb) fb.Flat.fl_crossings) ^ " "
    ^ show_bool (TrialsWf.wf_trials_b fb) ^ " "
    ^ show_nat (match fb.Flat.fl_alignment with Flat.PostPreamble -> TrialsWf.doc_need_post fb | _ -> TrialsWf.doc_need_own fb)
    | _ -> "!args");
  (* (desugar DESIGN CROSSINGS) -> (design') (crossings') ; (comboweights DESIGN c) -> size (weights...) *)
  register "desugar" (function [d; crs] ->
    let (d', crs') = Desugar.desugar (list_of_sexp wfactor_of_sexp d) (natll_of_sexp crs) in
    show_list show_wfactor d' ^ " " ^ show_list show_natlist crs'
    | _ -> "!args");
  register "comboweights" (function [d; c] ->
    let design = list_of_sexp wfactor_of_sexp d in let c = list_of_sexp nat_of_sexp c in
    show_nat (Desugar.crossing_size_wo design c) ^ " " ^ show_natlist (Desugar.combo_weights design c)
    | _ -> "!args");
  (* (nestsem OUTER_SEM INNER_SEM) -> nestable_b  (normal form of the Nest) *)
  register "nestsem" (function [o; i] ->
    let so = simple_sem_of_sexp o in let si = simple_sem_of_sexp i in
    show_bool (NestSem.nestable_b so si) ^ " " ^ show_sem (NestSem.nest_sem so si)
    | _ -> "!args");
  (* (desugarsem f (w0 w1 ...) SEM) -> free_b  (widen f (sum ws) SEM)  (orig ws c for every copy c) *)
  register "desugarsem" (function [f; ws; sm] ->
    let f = nat_of_sexp f in let ws = list_of_sexp nat_of_sexp ws in let sm = simple_sem_of_sexp sm in
    let n = Stdlib.List.fold_left (fun a w -> a + int_of_nat w) 0 ws in
    show_bool (DesugarSem.free_b sm f) ^ " " ^ show_sem (DesugarSem.widen f (nat_of_int n) sm) ^ " "
    ^ show_natlist (Stdlib.List.init n (fun c -> DesugarSem.orig ws (nat_of_int c)))
    | _ -> "!args");
  (* (createflat INPUT) -> (ok FLAT) | (error E) *)
  register "createflat" (function [i] ->
    (match CreateFlat.create_flat (create_input_of_sexp i) with
     | CreateFlat.FOk fb -> "(ok " ^ show_flat fb ^ ")"
     | CreateFlat.FErr CreateFlat.FUnsupported -> "(error unsupported)"
     | CreateFlat.FErr CreateFlat.FEqualPreamble -> "(error equal-preamble)"
     | CreateFlat.FErr CreateFlat.FEqualMode -> "(error equal-mode)"
     | CreateFlat.FErr CreateFlat.FArith -> "(error arith)")
    | _ -> "!args");
  (* (inputok INPUT) -> input_ok  (windows exclusions sustains strides consistent): Front/CreateOk.v [input_ok] on the
     recorded _create arguments, and which of its conditions hold *)
  register "inputok" (function [i] ->
    let ci = create_input_of_sexp i in
    let crs = CreateFlat.st_crossings ci in
    let fb0 = CreateOk.in_flat ci in
    let len l = Stdlib.List.length l in
    let windows = Stdlib.List.for_all CreateOk.window_ok ci.CreateFlat.ci_design in
    let excl = len ci.CreateFlat.ci_exclusions = len crs
               && Stdlib.List.for_all2 (fun c e -> int_of_nat e < int_of_nat (Trials.crossing_size_no_excl fb0 c)) crs ci.CreateFlat.ci_exclusions in
    let sus = len crs <= len ci.CreateFlat.ci_sustains && Stdlib.List.for_all (fun n -> int_of_nat n > 0) ci.CreateFlat.ci_sustains in
    let strides = Stdlib.List.for_all (Stdlib.List.for_all (fun f -> int_of_nat (Trials.fstride fb0 f) = 1)) crs in
    let cons = CreateOk.sustains_consistent (CreateOk.paired ci) in
    show_bool (CreateOk.input_ok ci) ^ " (" ^ show_bool windows ^ " " ^ show_bool excl ^ " " ^ show_bool sus ^ " "
    ^ show_bool strides ^ " " ^ show_bool cons ^ ")"
    | _ -> "!args");
  register "trreq" (function [f; fi; size] ->
    show_opt show_nat (Trials.trials_required (Wire_flat.flat_of_sexp f) (nat_of_sexp fi) (nat_of_sexp size)) | _ -> "!args");
  (* (create BEXP) -> (ok design crossings sustains weights constraints rcc mode alignment normcrossings addsustain sustainmap) | (error E) *)
  register "create" (function [e] ->
    (match Create.create_of (bexp_of_sexp e) with
     | Create.CErr er -> "(error " ^ show_err er ^ ")"
     | Create.COk a ->
       "(ok " ^ show_natlist a.Create.ca_design ^ " " ^ show_list show_natlist a.Create.ca_crossings ^ " "
       ^ show_natlist a.Create.ca_sustains ^ " " ^ show_zlist a.Create.ca_weights ^ " "
       ^ show_list show_cinfo a.Create.ca_constraints ^ " " ^ show_bool a.Create.ca_rcc ^ " " ^ show_mode a.Create.ca_mode ^ " "
       ^ show_al a.Create.ca_alignment ^ " " ^ show_list show_natlist (Create.norm_crossings a) ^ " "
       ^ show_bool (Create.adds_sustain a) ^ " " ^ show_list show_pairnn (Create.sustain_map a) ^ ")")
    | _ -> "!args")
(* ---- Front/NestSem2.v: the wider guards of the Nest group theorem (C25) ---- *)
(* normal forms printed in the wire format of harness/docsem.py [to_wire] (derived factors with their windows and
   tables, every constraint kind) *)
let show_sem_window w =
  "(" ^ show_natlist w.Sem.w_deps ^ " " ^ show_nat w.Sem.w_width ^ " " ^ show_nat w.Sem.w_stride ^ " " ^ show_nat w.Sem.w_start
  ^ " " ^ show_list (show_list (show_list (show_list show_cellopt))) w.Sem.w_table ^ ")"
let show_sem_factor_full f =
  "(" ^ show_nat f.Sem.f_nlevels ^ " " ^ show_nat f.Sem.f_sustain ^ " "
  ^ (match f.Sem.f_derived with None -> "none" | Some w -> show_sem_window w) ^ ")"
let show_sem_constraint_full c =
  let kind = match c.Sem.k_kind with
    | Sem.KAtMost k -> "(atmost " ^ show_nat k ^ ")" | Sem.KAtLeast k -> "(atleast " ^ show_nat k ^ ")"
    | Sem.KExactlyInARow k -> "(exactlyrow " ^ show_nat k ^ ")" | Sem.KExactlyK k -> "(exactlyk " ^ show_nat k ^ ")"
    | Sem.KExclude -> "(exclude)"
    | Sem.KPin (i, su) -> "(pin " ^ show_z i ^ " " ^ show_nat su ^ ")"
    | Sem.KSequential (first, su) -> "(seqn " ^ show_nat first ^ " " ^ show_nat su ^ ")"
    | Sem.KLatin (others, nmain, first, su) ->
      "(latin " ^ show_list show_pairnn others ^ " " ^ show_nat nmain ^ " " ^ show_nat first ^ " " ^ show_nat su ^ ")" in
  "(" ^ kind ^ " " ^ show_nat c.Sem.k_factor ^ " " ^ show_nat c.Sem.k_level ^ " " ^ show_list show_pairnn c.Sem.k_windows ^ ")"
let show_sem_full s =
  "(" ^ show_nat s.Sem.s_trials ^ " " ^ show_list show_sem_factor_full s.Sem.s_factors ^ " "
  ^ show_list show_sem_crossing s.Sem.s_crossings ^ " " ^ show_list show_sem_constraint_full s.Sem.s_constraints ^ ")"
let front_seq_of_sexp = list_of_sexp (list_of_sexp cellopt)
let nest_guards so si = [NestSem.nestable_b so si; NestSem2.nestable_d_b so si; NestSem3.nestable_c_b so si; NestSem3.nestable_f_b so si; NestSem4.nestable_s_b so si]
let () =
  (* (nestsem2 OUTER_SEM INNER_SEM) -> (guards: nestable_b nestable_d_b ...)  (nest_sem2, in full) *)
  register "nestsem2" (function [o; i] ->
    let so = simple_sem_of_sexp o in let si = simple_sem_of_sexp i in
    show_list show_bool (nest_guards so si) ^ " " ^ show_sem_full (NestSem2.nest_sem2 so si)
    | _ -> "!args");
  (* (nestgroups OUTER_SEM INNER_SEM (SEQ ...)) -> ((valid_b (nest_sem2 ..) s  groups2_b .. s) ...): the two sides of the
     group theorems, evaluated *)
  register "nestgroups" (function [o; i; seqs] ->
    let so = simple_sem_of_sexp o in let si = simple_sem_of_sexp i in
    let n = NestSem2.nest_sem2 so si in
    show_list (fun q -> let s = front_seq_of_sexp q in
                "(" ^ show_bool (Sem.valid_b n s) ^ " " ^ show_bool (NestSem2.groups2_b so si s) ^ ")")
      (match seqs with L l -> l | _ -> failwith "seqs")
    | _ -> "!args")
let () =
  (* (nestsem2own OUTER_SEM INNER_SEM (K ...)) / (nestgroupsown OUTER_SEM INNER_SEM (K ...) (SEQ ...)): the same with the
     constraints of the Nest itself (in normal form over the Nest's factor numbering) *)
  register "nestsem2own" (function [o; i; ks] ->
    let so = simple_sem_of_sexp o in let si = simple_sem_of_sexp i in
    let ks = list_of_sexp sem_constraint_of_sexp ks in
    show_list show_bool (nest_guards so si) ^ " " ^ show_sem_full (NestSem4.nest_sem2_own so si ks)
    | _ -> "!args");
  register "nestgroupsown" (function [o; i; ks; seqs] ->
    let so = simple_sem_of_sexp o in let si = simple_sem_of_sexp i in
    let ks = list_of_sexp sem_constraint_of_sexp ks in
    let n = NestSem4.nest_sem2_own so si ks in
    show_list (fun q -> let s = front_seq_of_sexp q in
                "(" ^ show_bool (Sem.valid_b n s) ^ " " ^ show_bool (NestSem4.groups2_own_b so si ks s) ^ ")")
      (match seqs with L l -> l | _ -> failwith "seqs")
    | _ -> "!args")
let () =
  (* (created GEOM (CINFO ...)) -> ((id kind param wb) ...): Front/Create.v [created_constraints]: the orig_constraints of the
     block that _create builds from arguments with these constraints, GEOM = its get_geometry(0) *)
  register "created" (function [g; cs] ->
    let g = (match Wire_flat.geom_of_sexp g with Some g -> g | None -> failwith "geometry") in
    let a = { Create.ca_design = []; Create.ca_crossings = []; Create.ca_sustains = []; Create.ca_weights = [];
              Create.ca_constraints = Stdlib.List.map (fun c -> (Create.OOwn, cinfo_of_sexp c)) (match cs with L l -> l | _ -> failwith "cs");
              Create.ca_rcc = true; Create.ca_mode = Trials.MWeight; Create.ca_alignment = Flat.EqualPreamble } in
    show_list (fun c -> "(" ^ show_nat c.Create.c_id ^ " " ^ show_kind c.Create.c_kind ^ " " ^ show_z c.Create.c_param
                        ^ " " ^ show_geom c.Create.c_wb ^ ")") (Create.created_constraints g a)
    | _ -> "!args")
