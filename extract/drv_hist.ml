(* Driver for Hist/BlockState.v (C19) and Hist/Reuse.v (C18).

   C19 wire syntax
     state  (DESIGN ORIG CONT CROSSINGS CONSTRAINTS MIN TPS VPT SIMPLE PREV CFS ERRORS DIST)
       DESIGN  (("name" hidden nlevels complex start stride sustain active) ..)
       ORIG    (("name" hidden) ..)          CONT (".." ..)     CROSSINGS ((".." ..) ..)
       CONSTRAINTS (id ..)   MIN int   TPS/VPT none|int   SIMPLE none|(("f" l) ..)
       PREV (("f" t n) ..)   CFS ((i (".." ..)) ..)   ERRORS (".." ..)   DIST (".." ..)
     op     (synth sat|random|sm raises returned touch_vpt touch_simple (("f" t) ..))
            print | tabulate | savecsv | totuples | todicts | (mismatch raises touch_vpt (("f" t) ..))
     (hist19 STATE T (EXCL ..) (OP ..))  ->  one "(STATE OUT)" per op
     (writes19)                          ->  declared attribute writes
     (prevpure FDESC t) (vptpure DESIGN) (simplepure DESIGN)                              *)
open Wire
module B = BlockState

let s_of x = explode (str_of_sexp x)
let strs_of = list_of_sexp s_of
let fdesc_of = function
  | L [n; h; nl; cx; st; sd; su; ac] ->
    { B.fd_name = s_of n; B.fd_hidden = bool_of_sexp h; B.fd_nlevels = z_of_sexp nl; B.fd_complex = bool_of_sexp cx;
      B.fd_start = z_of_sexp st; B.fd_stride = z_of_sexp sd; B.fd_sustain = z_of_sexp su; B.fd_active = bool_of_sexp ac }
  | _ -> failwith "fdesc"
let zopt_of = function A "none" -> None | x -> Some (z_of_sexp x)
let reqs_of = list_of_sexp (function L [f; t] -> (s_of f, z_of_sexp t) | _ -> failwith "req")
let state_of = function
  | L [d; od; ct; cr; cs; mn; tps; vpt; sm; pv; cfs; er; du] ->
    { B.st_design = list_of_sexp fdesc_of d;
      B.st_orig_design = list_of_sexp (function L [n; h] -> (s_of n, bool_of_sexp h) | _ -> failwith "orig") od;
      B.st_cont = strs_of ct; B.st_crossings = list_of_sexp strs_of cr; B.st_constraints = zlist_of_sexp cs;
      B.st_min_trials = z_of_sexp mn; B.st_tps = zopt_of tps; B.st_vpt = zopt_of vpt;
      B.st_simple = (match sm with A "none" -> None
                                 | x -> Some (list_of_sexp (function L [f; l] -> (s_of f, z_of_sexp l) | _ -> failwith "simple") x));
      B.st_prev = list_of_sexp (function L [f; t; n] -> ((s_of f, z_of_sexp t), z_of_sexp n) | _ -> failwith "prev") pv;
      B.st_cfs = list_of_sexp (function L [i; ns] -> (z_of_sexp i, strs_of ns) | _ -> failwith "cfs") cfs;
      B.st_errors = strs_of er; B.st_dist_used = strs_of du }
  | _ -> failwith "state"
let strategy_of = function
  | A "sat" -> B.SSat | A "random" -> B.SRandom | A "sm" -> B.SSM | _ -> failwith "strategy"
let op_of = function
  | L [A "synth"; st; r; k; tv; ts; reqs] ->
    B.Synth (strategy_of st, bool_of_sexp r, nat_of_sexp k, bool_of_sexp tv, bool_of_sexp ts, reqs_of reqs)
  | A "print" -> B.Print | A "tabulate" -> B.Tabulate | A "savecsv" -> B.SaveCsv
  | A "totuples" -> B.ToTuples | A "todicts" -> B.ToDicts
  | L [A "mismatch"; r; tv; reqs] -> B.Mismatch (bool_of_sexp r, bool_of_sexp tv, reqs_of reqs)
  | _ -> failwith "op"

let show_strs = show_list show_str
let show_zopt = function None -> "none" | Some z -> show_z z
let show_fdesc f =
  "(" ^ show_str f.B.fd_name ^ " " ^ show_bool f.B.fd_hidden ^ " " ^ show_z f.B.fd_nlevels ^ " " ^ show_bool f.B.fd_complex
  ^ " " ^ show_z f.B.fd_start ^ " " ^ show_z f.B.fd_stride ^ " " ^ show_z f.B.fd_sustain ^ " " ^ show_bool f.B.fd_active ^ ")"
let show_state s =
  "(" ^ show_list show_fdesc s.B.st_design ^ " "
  ^ show_list (fun (n, h) -> "(" ^ show_str n ^ " " ^ show_bool h ^ ")") s.B.st_orig_design ^ " "
  ^ show_strs s.B.st_cont ^ " " ^ show_list show_strs s.B.st_crossings ^ " " ^ show_zlist s.B.st_constraints ^ " "
  ^ show_z s.B.st_min_trials ^ " " ^ show_zopt s.B.st_tps ^ " " ^ show_zopt s.B.st_vpt ^ " "
  ^ (match s.B.st_simple with None -> "none"
                            | Some l -> show_list (fun (f, i) -> "(" ^ show_str f ^ " " ^ show_z i ^ ")") l) ^ " "
  ^ show_list (fun ((f, t), n) -> "(" ^ show_str f ^ " " ^ show_z t ^ " " ^ show_z n ^ ")") s.B.st_prev ^ " "
  ^ show_list (fun (i, ns) -> "(" ^ show_z i ^ " " ^ show_strs ns ^ ")") s.B.st_cfs ^ " "
  ^ show_strs s.B.st_errors ^ " " ^ show_strs s.B.st_dist_used ^ ")"
let show_out = function
  | B.OUnit -> "unit" | B.ORaise -> "raise" | B.ORefused -> "refused"
  | B.OCols (n, cols) -> "(cols " ^ show_nat n ^ " " ^ show_strs cols ^ ")"
  | B.OKeys ks -> "(keys " ^ show_strs ks ^ ")"

let () =
  register "hist19" (function [st; t; excl; ops] ->
    let tv = z_of_sexp t in let ex = strs_of excl in
    let tr = B.trace (fun _ _ _ -> tv) (fun _ _ _ -> ex) (list_of_sexp op_of ops) (state_of st) in
    Stdlib.String.concat " " (Stdlib.List.map (fun (s, o) -> "(" ^ show_state s ^ " " ^ show_out o ^ ")") tr)
    | _ -> "!args");
  register "writes19" (function [] ->
    show_list (fun (o, a) -> "(" ^ show_str o ^ " " ^ show_str a ^ ")") B.declared_writes | _ -> "!args");
  register "prevpure" (function [fd; t] -> show_z (B.prev_pure (fdesc_of fd) (z_of_sexp t)) | _ -> "!args");
  register "vptpure" (function [d] -> show_z (B.vpt_pure (list_of_sexp fdesc_of d)) | _ -> "!args");
  register "simplepure" (function [d] ->
    show_list (fun (f, i) -> "(" ^ show_str f ^ " " ^ show_z i ^ ")") (B.simple_pure (list_of_sexp fdesc_of d)) | _ -> "!args")

(* C18 wire syntax
     geom   (trials preamble ((f n) ..))
     cobj   (kind within k trials mtr)     kind: atmost|atleast|exactlyk|exactlyrow|pin|mintrials|nogeom
                                           within: none | geom     mtr: none | int
     desc   (KIND geom (c ..) (copied ..))  KIND: leaf | (repeat i) | (merge (i ..)) | (nest o i inner_len) | skip
     (hist18 (cobj ..) (desc ..))  -> per build "(SUMMARY (cobj ..) (cobj ..))": summary none | ((kind within k trials) ..),
                                      then the whole store, then the new block's orig_constraints with all fields
     (twin18 (cobj ..) (desc ..) i) -> summary of block i when only its dependency closure is built from fresh objects
     (writes18)                                                                                           *)
module R = Reuse
let geom_of = function
  | L [t; p; su] -> { R.g_trials = z_of_sexp t; R.g_preamble = z_of_sexp p;
                      R.g_sustain = list_of_sexp (function L [f; n] -> (z_of_sexp f, z_of_sexp n) | _ -> failwith "sustain") su }
  | _ -> failwith "geom"
let kind_of = function
  | A "atmost" -> R.KAtMost | A "atleast" -> R.KAtLeast | A "exactlyk" -> R.KExactlyK | A "exactlyrow" -> R.KExactlyKInARow
  | A "pin" -> R.KPin | A "mintrials" -> R.KMinTrials | A "nogeom" -> R.KNoGeom | _ -> failwith "ckind"
let cobj_of = function
  | L [k; w; kk; tr; m] ->
    { R.c_kind = kind_of k; R.c_within = (match w with A "none" -> None | g -> Some (geom_of g)); R.c_k = z_of_sexp kk;
      R.c_trials = z_of_sexp tr; R.c_mtr = zopt_of m }
  | _ -> failwith "cobj"
let nats_of = list_of_sexp nat_of_sexp
let dkind_of = function
  | A "leaf" -> R.DLeaf | A "skip" -> R.DSkip
  | L [A "repeat"; i] -> R.DRepeat (nat_of_sexp i)
  | L [A "merge"; l] -> R.DMerge (nats_of l)
  | L [A "nest"; o; i; n] -> R.DNest (nat_of_sexp o, nat_of_sexp i, z_of_sexp n)
  | _ -> failwith "dkind"
let desc_of = function
  | L [k; g; cs; cp] -> { R.d_kind = dkind_of k; R.d_geom = geom_of g; R.d_cs = nats_of cs;
                          R.d_copied = list_of_sexp bool_of_sexp cp }
  | _ -> failwith "desc"
let show_geom g =
  "(" ^ show_z g.R.g_trials ^ " " ^ show_z g.R.g_preamble ^ " "
  ^ show_list (fun (f, n) -> "(" ^ show_z f ^ " " ^ show_z n ^ ")") g.R.g_sustain ^ ")"
let show_kind = function
  | R.KAtMost -> "atmost" | R.KAtLeast -> "atleast" | R.KExactlyK -> "exactlyk" | R.KExactlyKInARow -> "exactlyrow"
  | R.KPin -> "pin" | R.KMinTrials -> "mintrials" | R.KNoGeom -> "nogeom"
let show_wopt = function None -> "none" | Some g -> show_geom g
let show_cobj o =
  "(" ^ show_kind o.R.c_kind ^ " " ^ show_wopt o.R.c_within ^ " " ^ show_z o.R.c_k ^ " " ^ show_z o.R.c_trials ^ " "
  ^ show_zopt o.R.c_mtr ^ ")"
let show_summary = function
  | None -> "none"
  | Some l -> show_list (fun (((k, w), kk), tr) -> "(" ^ show_kind k ^ " " ^ show_wopt w ^ " " ^ show_z kk ^ " " ^ show_z tr ^ ")") l
let () =
  register "hist18" (function [user; ds] ->
    let st = ref (R.init_state (list_of_sexp cobj_of user)) in
    let outs = Stdlib.List.map (fun d ->
        let (s1, o) = R.build !st d in
        st := s1;
        "(" ^ show_summary o ^ " " ^ show_list show_cobj (R.store_list s1) ^ " "
        ^ show_list show_cobj (R.last_entries s1) ^ ")") (list_of_sexp desc_of ds) in
    Stdlib.String.concat " " outs
    | _ -> "!args");
  register "twin18" (function [user; ds; i] ->
    show_summary (R.fresh_summary (list_of_sexp cobj_of user) (list_of_sexp desc_of ds) (nat_of_sexp i)) | _ -> "!args");
  register "shared18" (function [user; ds; i] ->
    show_summary (R.shared_summary (list_of_sexp cobj_of user) (list_of_sexp desc_of ds) (nat_of_sexp i)) | _ -> "!args");
  register "writes18" (function [] ->
    show_list (fun (o, a) -> "(" ^ show_str o ^ " " ^ show_str a ^ ")") R.declared_writes | _ -> "!args")
