(* Driver for Sample/Iterate.v: the loop is run with a solver that replays the
   answers the real solver gave (in order), then reports "no solution". *)
open Wire
let () =
  register "iterate" (function [support; count; f; answers] ->
    let pending = ref (list_of_sexp zlist_of_sexp answers) in
    let solve _ =
      match !pending with
      | [] -> None
      | sol :: rest ->
        pending := rest;
        let pos = Stdlib.List.filter_map (fun l -> let i = int_of_z l in if i > 0 then Some i else None) sol in
        Some (fun v -> Stdlib.List.mem (int_of_z v) pos) in
    show_list show_zlist (Iterate.returned solve (z_of_sexp support) (nat_of_sexp count) (list_of_sexp zlist_of_sexp f))
    | _ -> "!args")
