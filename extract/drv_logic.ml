(* Driver for Logic/Formula.v, Logic/Tseitin.v, Logic/Naive.v, Logic/Switching.v.
   Formulas on the wire:  7 | -3 | (not f) | (and f ...) | (or f ...) | (if p q) | (iff p q).
   Results: (ok <tree> <fresh> <json>) | (err <Exception>), <json> = (ok ((1 2) (3))) | (err <Exception>). *)
open Wire

let rec fm_of_sexp = function
  | A s -> Formula.FVar (z_of_string s)
  | L [A "not"; f] -> Formula.FNot (fm_of_sexp f)
  | L (A "and" :: l) -> Formula.FAnd (Stdlib.List.map fm_of_sexp l)
  | L (A "or" :: l) -> Formula.FOr (Stdlib.List.map fm_of_sexp l)
  | L [A "if"; p; q] -> Formula.FIf (fm_of_sexp p, fm_of_sexp q)
  | L [A "iff"; p; q] -> Formula.FIff (fm_of_sexp p, fm_of_sexp q)
  | _ -> failwith "formula expected"

let rec nf_of_sexp = function
  | A s -> Formula.NVar (z_of_string s)
  | L [A "not"; f] -> Formula.NNot (nf_of_sexp f)
  | L (A "and" :: l) -> Formula.NAnd (Stdlib.List.map nf_of_sexp l)
  | L (A "or" :: l) -> Formula.NOr (Stdlib.List.map nf_of_sexp l)
  | _ -> failwith "If/Iff-free formula expected"

let rec show_nf = function
  | Formula.NVar z -> show_z z
  | Formula.NNot f -> "(not " ^ show_nf f ^ ")"
  | Formula.NAnd l -> "(" ^ Stdlib.String.concat " " ("and" :: Stdlib.List.map show_nf l) ^ ")"
  | Formula.NOr l -> "(" ^ Stdlib.String.concat " " ("or" :: Stdlib.List.map show_nf l) ^ ")"

let show_err = function
  | Formula.ETypeError -> "TypeError" | Formula.EValueError -> "ValueError"
  | Formula.EIndexError -> "IndexError" | Formula.EAssertionError -> "AssertionError"
  | Formula.EAttributeError -> "AttributeError" | Formula.EFuel -> "MODEL-FUEL"
  | Formula.EUnsupported -> "MODEL-UNSUPPORTED"

let show_res f = function
  | Formula.Ok x -> "(ok " ^ f x ^ ")"
  | Formula.Err e -> "(err " ^ show_err e ^ ")"

let show_json r = show_res show_cnf r

let show_conv = function
  | Formula.Ok (t, fr) -> "(ok " ^ show_nf t ^ " " ^ show_z fr ^ " " ^ show_json (Formula.cnf_to_json [t]) ^ ")"
  | Formula.Err e -> "(err " ^ show_err e ^ ")"

let asg_of_sexp tv =
  let tv = Stdlib.List.map int_of_z (zlist_of_sexp tv) in
  fun z -> Stdlib.List.mem (int_of_z z) tv

let () =
  register "tseitin" (function [f; nv] ->
    let f = fm_of_sexp f and nv = z_of_sexp nv in
    let (t, fr) = Tseitin.tseitin_tree f nv in
    let (cs, fr2) = Tseitin.tseitin f nv in
    "(ok " ^ show_nf t ^ " " ^ show_z fr ^ " " ^ show_json (Formula.cnf_to_json [t]) ^ " " ^ show_cnf cs ^ " " ^ show_z fr2 ^ ")"
    | _ -> "!args");
  register "naive" (function [f; nv] -> show_conv (Naive.to_cnf_naive (fm_of_sexp f) (z_of_sexp nv)) | _ -> "!args");
  register "switching" (function [f; nv] -> show_conv (Switching.to_cnf_switching (fm_of_sexp f) (z_of_sexp nv)) | _ -> "!args");
  register "json" (function [l] -> show_json (Formula.cnf_to_json (list_of_sexp nf_of_sexp l)) | _ -> "!args");
  register "pysort" (function [l] -> show_res (show_list show_nf) (Naive.pysort (list_of_sexp nf_of_sexp l)) | _ -> "!args");
  register "pylt" (function [a; b] -> show_res show_bool (Naive.py_lt (nf_of_sexp a) (nf_of_sexp b)) | _ -> "!args");
  register "elim" (function [f] -> show_nf (Naive.elim (fm_of_sexp f)) | _ -> "!args");
  register "demorgan" (function [f] ->
    let g = nf_of_sexp f in show_res show_nf (Naive.demorgan (Naive.demorgan_fuel g) g) | _ -> "!args");
  register "distnaive" (function [f] -> show_res show_nf (Naive.dist_naive (nf_of_sexp f)) | _ -> "!args");
  register "distsw" (function [fuel; f; fr] ->
    show_res (fun (t, fr) -> show_nf t ^ " " ^ show_z fr)
      (Switching.dist_sw (nat_of_sexp fuel) (nf_of_sexp f) (z_of_sexp fr)) | _ -> "!args");
  register "eval" (function [tv; f] -> show_bool (Formula.eval (asg_of_sexp tv) (fm_of_sexp f)) | _ -> "!args");
  register "neval" (function [tv; f] -> show_bool (Formula.neval (asg_of_sexp tv) (nf_of_sexp f)) | _ -> "!args");
  register "leaves" (function [f] -> show_zlist (Formula.leaves (fm_of_sexp f)) | _ -> "!args");
  register "lsat" (function [tv; f] ->
    show_bool (Sat.sat (asg_of_sexp tv) (list_of_sexp zlist_of_sexp f)) | _ -> "!args")
