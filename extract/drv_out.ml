(* Driver for Out/Convert.v and Out/Tabulate.v.
   Wire syntax:  value   (s "text") | (n 12)
                 fname   (p "name") | (h "name")
                 ufactor (simple "name" (w1 w2 ..)) | (derived "name" ("dep" ..)) | (cont "name")
                 dict    ((fname (value ..)) ..)
   Output: values as "text" / 12, fnames as (p "name") / (h "name"). *)
open Wire

let s_of x = explode (str_of_sexp x)
let value_of = function
  | L [A "s"; A t] -> Convert.VStr (explode t)
  | L [A "n"; z] -> Convert.VNum (z_of_sexp z)
  | _ -> failwith "value"
let fname_of = function
  | L [A "p"; A t] -> Convert.Plain (explode t)
  | L [A "h"; A t] -> Convert.Hidden (explode t)
  | _ -> failwith "fname"
let ufactor_of = function
  | L [A "simple"; n; ws] -> Convert.USimple (s_of n, zlist_of_sexp ws)
  | L [A "derived"; n; ds] -> Convert.UDerived (s_of n, list_of_sexp s_of ds)
  | L [A "cont"; n] -> Convert.UContinuous (s_of n)
  | _ -> failwith "ufactor"
let exp_of = list_of_sexp (function L [k; vs] -> (fname_of k, list_of_sexp value_of vs) | _ -> failwith "dict entry")
let exps_of = list_of_sexp exp_of
let cross_of = list_of_sexp (list_of_sexp s_of)
let design_of = list_of_sexp ufactor_of
let tfactor_of = function L [k; vs] -> (fname_of k, list_of_sexp value_of vs) | _ -> failwith "tfactor"

let show_value = function Convert.VStr t -> show_str t | Convert.VNum z -> show_z z
let show_fname = function
  | Convert.Plain t -> "(p " ^ show_str t ^ ")"
  | Convert.Hidden t -> "(h " ^ show_str t ^ ")"
let show_err = function
  | Convert.KeyError -> "KeyError" | Convert.IndexError -> "IndexError"
  | Convert.RuntimeError -> "RuntimeError"
let show_res f = function Convert.Ok a -> "(ok " ^ f a ^ ")" | Convert.Err e -> "(err " ^ show_err e ^ ")"
let show_rows = show_list (show_list show_value)
let show_dict f d = show_list (fun (k, v) -> "(" ^ show_fname k ^ " " ^ f v ^ ")") d
let show_csv (hdr, rows) = "(" ^ show_list show_fname hdr ^ " " ^ show_rows rows ^ ")"
let show_row (combo, (f, (num, den))) =
  "(" ^ show_list show_value combo ^ " " ^ show_z f ^ " " ^ show_z num ^ " " ^ show_z den ^ ")"

let () =
  register "design" (function [cr; d] ->
    show_list show_fname (Convert.block_design (cross_of cr) (design_of d)) | _ -> "!args");
  register "keys" (function [d] ->
    show_list show_fname (Convert.conv_keys (design_of d)) | _ -> "!args");
  register "usernames" (function [d] ->
    show_list show_fname (Convert.user_names (design_of d)) | _ -> "!args");
  register "tuples" (function [keys; exps] ->
    show_res (show_list show_rows) (Convert.tuples_of (list_of_sexp fname_of keys) (exps_of exps)) | _ -> "!args");
  register "dicts" (function [keys; exps] ->
    show_res (show_list (show_list (show_dict show_value)))
      (Convert.dicts_of (list_of_sexp fname_of keys) (exps_of exps)) | _ -> "!args");
  register "csv" (function [keys; exps] ->
    show_res (show_list show_csv) (Convert.csv_of (list_of_sexp fname_of keys) (exps_of exps)) | _ -> "!args");
  register "btuples" (function [d; exps] ->
    show_res (show_list show_rows)
      (Convert.experiments_to_tuples (design_of d) (exps_of exps)) | _ -> "!args");
  register "bdicts" (function [d; exps] ->
    show_res (show_list (show_list (show_dict show_value)))
      (Convert.experiments_to_dicts (design_of d) (exps_of exps)) | _ -> "!args");
  register "bcsv" (function [d; exps] ->
    show_res (show_list show_csv)
      (Convert.save_experiments_csv (design_of d) (exps_of exps)) | _ -> "!args");
  register "synthpost" (function [wi; cont] ->
    show_dict (show_list show_value) (Convert.synth_post (exp_of wi) (exp_of cont)) | _ -> "!args");
  register "product" (function [ls] ->
    show_rows (Tabulate.product (list_of_sexp (list_of_sexp value_of) ls)) | _ -> "!args");
  register "tabulate" (function [cr; exps; fs; tr] ->
    let (tables, st) =
      Tabulate.tabulate_experiments
        (opt_of_sexp (list_of_sexp (list_of_sexp tfactor_of)) cr)
        (opt_of_sexp exps_of exps)
        (opt_of_sexp (list_of_sexp tfactor_of) fs)
        (opt_of_sexp zlist_of_sexp tr) in
    "(" ^ show_list (show_list show_row) tables ^ " " ^ (match st with None -> "none" | Some e -> show_err e) ^ ")"
    | _ -> "!args")
