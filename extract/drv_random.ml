(* Driver for Random/Enum.v: the model of UCSolutionEnumerator / RandomGen. *)
open Wire
let exc_name = function
  | Enum.KeyError -> "KeyError" | Enum.IndexError -> "IndexError" | Enum.AssertionError -> "AssertionError"
  | Enum.ValueError -> "ValueError" | Enum.ZeroDivisionError -> "ZeroDivisionError"
  | Enum.AttributeError -> "AttributeError" | Enum.RuntimeError -> "RuntimeError" | Enum.TypeError -> "TypeError"
  | Enum.OutOfFuel -> "OutOfFuel" | Enum.OutsideModel -> "OutsideModel"
let show_err e = "(err " ^ exc_name e ^ ")"
let show_natlist = show_list show_nat
let show_shape sh = "(" ^ show_z sh.Enum.sh_cross ^ " " ^ show_zlist sh.Enum.sh_combs ^ " " ^ show_zlist sh.Enum.sh_inds ^ ")"
let show_comp ((c0, c1), c2) = "(" ^ show_z c0 ^ " " ^ show_zlist c1 ^ " " ^ show_zlist c2 ^ ")"
let show_key k =
  "(" ^ Stdlib.String.concat " " (show_z k.Enum.k_pre :: Stdlib.List.map show_comp k.Enum.k_rounds
                                  @ (match k.Enum.k_left with None -> [] | Some c -> [show_comp c])) ^ ")"
let show_cell = function None -> "-1" | Some n -> show_nat n
let show_rows rows = show_list (fun (f, row) -> "(" ^ show_nat f ^ " " ^ show_list show_cell row ^ ")") rows
let comp_of_sexp = function
  | L [c0; c1; c2] -> ((z_of_sexp c0, zlist_of_sexp c1), zlist_of_sexp c2)
  | _ -> failwith "comp"
let key_of_sexp has_left = function
  | L (pre :: comps) ->
    let comps = Stdlib.List.map comp_of_sexp comps in
    let n = Stdlib.List.length comps in
    if has_left && n > 0 then
      { Enum.k_pre = z_of_sexp pre; Enum.k_rounds = Stdlib.List.filteri (fun i _ -> i < n - 1) comps;
        Enum.k_left = Some (Stdlib.List.nth comps (n - 1)) }
    else { Enum.k_pre = z_of_sexp pre; Enum.k_rounds = comps; Enum.k_left = None }
  | _ -> failwith "key"
let decode_one fb en k =
  match Enum.decode_with fb en k with
  | Enum.RErr e -> "(" ^ show_key k ^ " " ^ show_err e ^ " none)"
  | Enum.ROk r ->
    let v = match Enum.are_constraints_violated fb en r with
      | Enum.RErr e -> show_err e
      | Enum.ROk b -> show_bool b in
    "(" ^ show_key k ^ " (ok " ^ show_rows (Enum.rows_in_design_order fb r) ^ ") " ^ v ^ ")"
let () =
  register "rg_enum" (function [f] ->
    let fb = Wire_flat.flat_of_sexp f in
    (match Enum.make_enumerator fb with
     | Enum.RErr e -> show_err e
     | Enum.ROk en ->
       let eb = en.Enum.en_base in
       "(ok " ^ Stdlib.String.concat " " [
         show_nat eb.Enum.eb_main; show_z eb.Enum.eb_preamble; show_z eb.Enum.eb_csize; show_z eb.Enum.eb_m;
         show_bool eb.Enum.eb_unweighted; show_nat (nat_of_int (Stdlib.List.length eb.Enum.eb_instances));
         show_z en.Enum.en_count; show_z en.Enum.en_pcount; show_z en.Enum.en_lcount; show_z en.Enum.en_leftover;
         show_z (Enum.rounds_per_run fb en); show_z (Enum.possible_keys fb en);
         show_shape en.Enum.en_shape; show_shape en.Enum.en_lshape;
         show_zlist eb.Enum.eb_crossing_sizes; show_zlist eb.Enum.eb_preamble_sizes; show_zlist eb.Enum.eb_crossing_weights;
         show_bool eb.Enum.eb_has_cc; show_list show_natlist en.Enum.en_valid;
         show_natlist eb.Enum.eb_sorted_derived; show_natlist eb.Enum.eb_sorted_ucd;
         show_list (fun (f, ls) -> "(" ^ show_nat f ^ " " ^ show_natlist ls ^ ")") en.Enum.en_ind_levels;
         show_list (fun (f, ls) -> "(" ^ show_nat f ^ " " ^ show_natlist ls ^ ")") en.Enum.en_basic_levels;
         show_list (fun a -> show_list (fun (f, l) -> "(" ^ show_nat f ^ " " ^ show_nat l ^ ")") a) eb.Enum.eb_instances;
         show_zlist eb.Enum.eb_cweights ] ^ ")")
    | _ -> "!args");
  (* every candidate key with its decoded run and the rejection verdict (violated?) *)
  register "rg_all" (function [f; mx] ->
    let fb = Wire_flat.flat_of_sexp f in
    let mx = z_of_sexp mx in
    (match Enum.make_enumerator fb with
     | Enum.RErr e -> show_err e
     | Enum.ROk en ->
       let pk = Enum.possible_keys fb en in
       if BinInt.Z.ltb mx pk then "(big " ^ show_z pk ^ ")"
       else if BinInt.Z.eqb en.Enum.en_count Z0 then "(ok)"
       else match Enum.all_keys fb en with
         | Enum.RErr e -> "(keyerr " ^ exc_name e ^ ")"
         | Enum.ROk ks -> "(ok " ^ Stdlib.String.concat " " (Stdlib.List.map (decode_one fb en) ks) ^ ")")
    | _ -> "!args");
  register "rg_decode" (function [f; ks] ->
    let fb = Wire_flat.flat_of_sexp f in
    (match Enum.make_enumerator fb with
     | Enum.RErr e -> show_err e
     | Enum.ROk en ->
       let has_left = not (BinInt.Z.eqb en.Enum.en_leftover Z0) in
       let ks = list_of_sexp (key_of_sexp has_left) ks in
       "(ok " ^ Stdlib.String.concat " " (Stdlib.List.map (decode_one fb en) ks) ^ ")")
    | _ -> "!args");
  (* executable statements of the theorems of Properties/C04-C06 on one flat record:
     fragment? keys sound injective complete count-exact *)
  register "rg_thm" (function [f; mx] ->
    let fb = Wire_flat.flat_of_sexp f in
    let mx = int_of_sexp mx in
    if not (Frag.frag2 fb) then "(outside)"
    else
      (* 0: Frag.frag0, 1: Frag.frag1 (not frag0), 2: Frag.frag2 (weights; not frag1) *)
      let level = if Frag.frag0 fb then "0" else if Frag.frag1 fb then "1" else "2" in
      if fb.Flat.fl_errors_fail then "(refused " ^ level ^ ")"   (* show_errors() fails: RandomGen returns nothing *)
      else
      let pk = (match Enum.make_enumerator fb with
                | Enum.ROk en -> (try int_of_string (show_z (Enum.possible_keys fb en)) with _ -> max_int)
                | Enum.RErr _ -> 0) in
      let n = if pk > mx then pk else Stdlib.List.length (FragSem.keys_of fb) in
      (* Sem.all_valid walks all level sequences of the plain factors (derived rows are computed): bound that space as well
         (with weights it is much larger than the number of keys) *)
      let t = float_of_int (int_of_nat fb.Flat.fl_trials) in
      let space = Stdlib.List.fold_left (fun acc fd ->
          match fd.Flat.ff_window with
          | None -> acc *. (float_of_int (Stdlib.List.length fd.Flat.ff_levels) ** t)
          | Some _ -> acc) 1.0 fb.Flat.fl_design in
      (* Sem.all_valid fills derived rows in list order: it is complete only if every derived factor is
         listed after the factors it reads (the desugared weighted free factors are not) *)
      let listed_ok =
        let rec go i = function
          | [] -> true
          | fd :: t ->
            (match fd.Flat.ff_window with
             | Some w -> Stdlib.List.for_all (fun d -> int_of_nat d < i) w.Flat.win_deps
             | None -> true) && go (i + 1) t in
        go 0 fb.Flat.fl_design in
      if n > mx || space > 150000.0 || not listed_ok then "(big " ^ string_of_int n ^ " " ^ level ^ ")"
      else "(frag " ^ string_of_int n ^ " " ^ show_bool (FragSem.check_sound fb) ^ " " ^ show_bool (FragSem.check_inj fb) ^ " "
           ^ show_bool (FragSem.check_complete fb) ^ " " ^ show_bool (FragSem.check_accepted_count fb) ^ " "
           ^ show_bool (if Frag.rejection_free fb then FragSem.check_count fb else true) ^ " "
           ^ show_bool (Frag.frag0 fb) ^ " " ^ show_bool (Frag.rejection_free fb) ^ " " ^ show_nat (FragSem.accepted_count_of fb)
           ^ " " ^ level ^ " " ^ show_bool (FragSem.enumerates_b fb) ^ ")"
    | _ -> "!args")
