(* Driver for SM/SMGate.v.
   SUMMARY = (ISBLOCK NCROSSINGS (KIND...) CROSSING_WEIGHT TRIALS (FACTOR...) (CROSSING...))
   FACTOR  = (DERIVED WKIND (ARG...) (WEIGHT...))   WKIND = transition | within | other   ARG = n | none
   KIND    = class name of the constraint
   (gate SUMMARY)  -> refuse ... | crash ... | accept MAX (levels) M PRE LEN (handed) (ignored)
   (classify KIND) -> KIND' refused|passes user|internal realised|unrealised
                      (KIND' = the model's reading of the class name: Other if it is not a class of constraint.py;
                       refused = listed in the isinstance chain of SMGen.sample, as of /repo commit cac238c which
                       added ExactlyKInARow, ExactlyKMultipleInARow, LatinSquare, Sequential) *)
open Wire
let kind_of_sexp = function
  | A "Cross" -> SMGate.KCross | A "Consistency" -> SMGate.KConsistency | A "Sustain" -> SMGate.KSustain
  | A "Derivation" -> SMGate.KDerivation | A "Reify" -> SMGate.KReify | A "MinimumTrials" -> SMGate.KMinimumTrials
  | A "AtMostKInARow" -> SMGate.KAtMost | A "AtLeastKInARow" -> SMGate.KAtLeast | A "ExactlyK" -> SMGate.KExactlyK
  | A "Exclude" -> SMGate.KExclude | A "Pin" -> SMGate.KPin | A "ExactlyKInARow" -> SMGate.KExactlyKInARow
  | A "ExactlyKMultipleInARow" -> SMGate.KExactlyKMultiple | A "LatinSquare" -> SMGate.KLatin
  | A "Sequential" -> SMGate.KSequential | A "ContinuousConstraint" -> SMGate.KContinuous
  | _ -> SMGate.KOther
let show_kind = function
  | SMGate.KCross -> "Cross" | SMGate.KConsistency -> "Consistency" | SMGate.KSustain -> "Sustain"
  | SMGate.KDerivation -> "Derivation" | SMGate.KReify -> "Reify" | SMGate.KMinimumTrials -> "MinimumTrials"
  | SMGate.KAtMost -> "AtMostKInARow" | SMGate.KAtLeast -> "AtLeastKInARow" | SMGate.KExactlyK -> "ExactlyK"
  | SMGate.KExclude -> "Exclude" | SMGate.KPin -> "Pin" | SMGate.KExactlyKInARow -> "ExactlyKInARow"
  | SMGate.KExactlyKMultiple -> "ExactlyKMultipleInARow" | SMGate.KLatin -> "LatinSquare"
  | SMGate.KSequential -> "Sequential" | SMGate.KContinuous -> "ContinuousConstraint" | SMGate.KOther -> "Other"
let wkind_of_sexp = function
  | A "transition" -> SMGate.WTransition | A "within" -> SMGate.WWithin | _ -> SMGate.WOther
let factor_of_sexp = function
  | L [d; w; args; ws] ->
    { SMGate.sf_derived = bool_of_sexp d; SMGate.sf_window = wkind_of_sexp w;
      SMGate.sf_args = list_of_sexp (function A "none" -> None | x -> Some (nat_of_sexp x)) args;
      SMGate.sf_weights = list_of_sexp nat_of_sexp ws }
  | _ -> failwith "sfactor"
let summary_of_sexp = function
  | L [b; n; ks; cw; t; fs; cr] ->
    { SMGate.sm_is_block = bool_of_sexp b; SMGate.sm_ncrossings = nat_of_sexp n;
      SMGate.sm_constraints = list_of_sexp kind_of_sexp ks; SMGate.sm_crossing_weight = nat_of_sexp cw;
      SMGate.sm_trials = nat_of_sexp t; SMGate.sm_design = list_of_sexp factor_of_sexp fs;
      SMGate.sm_crossing = list_of_sexp nat_of_sexp cr }
  | _ -> failwith "summary"
let () =
  register "gate" (function [s] ->
    (match SMGate.gate (summary_of_sexp s) with
     | SMGate.Refuse SMGate.RMultiCross -> "refuse multicross"
     | SMGate.Refuse (SMGate.RConstraint k) -> "refuse constraint " ^ show_kind k
     | SMGate.Refuse (SMGate.RLevel f) -> "refuse level " ^ show_nat f
     | SMGate.Refuse (SMGate.RTransitionArgs f) -> "refuse transargs " ^ show_nat f
     | SMGate.Refuse (SMGate.RTransitionOfTransition f) -> "refuse transoftrans " ^ show_nat f
     | SMGate.Crash SMGate.CAssert -> "crash assert"
     | SMGate.Crash (SMGate.CKeyError f) -> "crash keyerror " ^ show_nat f
     | SMGate.Crash (SMGate.CAttribute f) -> "crash attribute " ^ show_nat f
     | SMGate.Accept p ->
       "accept " ^ show_opt show_nat p.SMGate.p_maximum ^ " " ^ show_list show_nat p.SMGate.p_levels ^ " "
       ^ show_nat p.SMGate.p_M ^ " " ^ show_nat p.SMGate.p_pre ^ " " ^ show_nat p.SMGate.p_length ^ " "
       ^ show_list show_kind p.SMGate.p_handed ^ " " ^ show_list show_kind p.SMGate.p_ignored)
    | _ -> "!args");
  register "classify" (function [k] ->
    let k = kind_of_sexp k in
    show_kind k ^ " " ^ (if SMGate.refused_kind k then "refused" else "passes") ^ " "
    ^ (if SMGate.user_kind k then "user" else "internal") ^ " "
    ^ (if SMGate.realised_kind k then "realised" else "unrealised")
    | _ -> "!args")
