(* T2(c) per program: (t2plain PROGRAM REALFLAT|none)
   -> "outside"  (the program is not a single CrossBlock of plain factors with the supported constraints)
    | "guard=true|false create=ok|ERR flat=same|diff:FIELDS|na fails=same|diff|na doc=ok|unsupported|crash sem=same|diff:PARTS|na"
   flat: create_flat (plain_input p) against the flat record of the real block (all fields but fl_errors_fail);
   sem:  code_sem of the created flat against ds_sem (doc_sem p): equal trial count, factor table, constraint
         list, crossings with equal factors / first / chunk and the same *set* of (combination, multiplicity)
         pairs - the relation [sem_eqv] of Design/SemEqv.v, which implies equal [valid_b]. *)
open Wire
let sort_uniq_mult m = Stdlib.List.sort_uniq compare m
let sem_diff (a : Sem.sem) (b : Sem.sem) : string list =
  let d = ref [] in
  if a.Sem.s_trials <> b.Sem.s_trials then d := "trials" :: !d;
  if a.Sem.s_factors <> b.Sem.s_factors then d := "factors" :: !d;
  if a.Sem.s_constraints <> b.Sem.s_constraints then d := "constraints" :: !d;
  if Stdlib.List.length a.Sem.s_crossings <> Stdlib.List.length b.Sem.s_crossings then d := "ncrossings" :: !d
  else Stdlib.List.iteri (fun i (x, y) ->
      if x.Sem.c_factors <> y.Sem.c_factors then d := ("cfactors" ^ string_of_int i) :: !d;
      if x.Sem.c_first <> y.Sem.c_first then d := ("first" ^ string_of_int i) :: !d;
      if x.Sem.c_chunk <> y.Sem.c_chunk then d := ("chunk" ^ string_of_int i) :: !d;
      if sort_uniq_mult x.Sem.c_mult <> sort_uniq_mult y.Sem.c_mult then d := ("mult" ^ string_of_int i) :: !d)
      (Stdlib.List.combine a.Sem.s_crossings b.Sem.s_crossings);
  Stdlib.List.rev !d
let flat_diff (a : Flat.flat) (b : Flat.flat) : string list =
  let d = ref [] in
  let chk n c = if not c then d := n :: !d in
  chk "design" (a.Flat.fl_design = b.Flat.fl_design); chk "act" (a.Flat.fl_act = b.Flat.fl_act);
  chk "crossings" (a.Flat.fl_crossings = b.Flat.fl_crossings); chk "sustains" (a.Flat.fl_sustains = b.Flat.fl_sustains);
  chk "weights" (a.Flat.fl_weights = b.Flat.fl_weights); chk "sizes" (a.Flat.fl_sizes = b.Flat.fl_sizes);
  chk "preambles" (a.Flat.fl_preambles = b.Flat.fl_preambles); chk "alignment" (a.Flat.fl_alignment = b.Flat.fl_alignment);
  chk "alpre" (a.Flat.fl_alignment_preamble = b.Flat.fl_alignment_preamble);
  chk "min_trials" (a.Flat.fl_min_trials = b.Flat.fl_min_trials); chk "trials" (a.Flat.fl_trials = b.Flat.fl_trials);
  chk "rcc" (a.Flat.fl_rcc = b.Flat.fl_rcc); chk "exclude" (a.Flat.fl_exclude = b.Flat.fl_exclude);
  chk "excluded_derived" (a.Flat.fl_excluded_derived = b.Flat.fl_excluded_derived);
  chk "constraints" (a.Flat.fl_constraints = b.Flat.fl_constraints);
  Stdlib.List.rev !d
let show_ferr = function
  | CreateFlat.FUnsupported -> "FUnsupported" | CreateFlat.FEqualPreamble -> "FEqualPreamble"
  | CreateFlat.FEqualMode -> "FEqualMode" | CreateFlat.FArith -> "FArith"
let () =
  register "t2plain" (function [ps; real] ->
    let p = Drv_docsem.program_of_sexp ps in
    (match PlainInput.plain_input p with
     | None -> "outside"
     | Some ci ->
       let created = CreateFlat.create_flat ci in
       let doc = DocSem.doc_sem p in
       let gd = "guard=" ^ show_bool (PlainT2Final.t2_guard p) ^ " " in
       let docs = (match doc with DocSem.Ok _ -> "ok" | DocSem.Unsup _ -> "unsupported" | DocSem.Crash _ -> "crash") in
       (match created with
        | CreateFlat.FErr e -> gd ^ "create=" ^ show_ferr e ^ " flat=na fails=na doc=" ^ docs ^ " sem=na"
        | CreateFlat.FOk fb ->
          let flats, fails = (match real with
              | A "none" -> "na", "na"
              | r -> let rf = Wire_flat.flat_of_sexp r in
                (match flat_diff fb rf with [] -> "same" | l -> "diff:" ^ Stdlib.String.concat "," l),
                (if fb.Flat.fl_errors_fail = rf.Flat.fl_errors_fail then "same" else "diff")) in
          let sems = (match doc with
              | DocSem.Ok ds -> (match sem_diff (CodeSem.code_sem fb) ds.DocSem.ds_sem with
                  | [] -> "same" | l -> "diff:" ^ Stdlib.String.concat "," l)
              | _ -> "na") in
          gd ^ "create=ok flat=" ^ flats ^ " fails=" ^ fails ^ " doc=" ^ docs ^ " sem=" ^ sems))
    | _ -> "!args")

(* T2(d) per program: (t2derived PROGRAM REAL) with REAL = flat record | none | (err ExcName)
   -> "outside"  (not a single CrossBlock of simple / within-trial derived factors over simple factors)
    | "guard=.. create=ok|ERR|ValueError flat=same|diff:FIELDS|na fails=same|diff|na doc=ok|unsupported|crash sem=same|diff:PARTS|na [semb=true|false|na]"
   sem: as for t2plain, but the factor tables are compared per level as *sets* of the accepted entries
        without a None cell (the flat record lists them in cross-product order, doc_sem sorted by repr,
        and the documented else level also accepts "no value yet", which a within-trial window never reads): relation
        [sem_eqv_t] of Design/SemEqvT.v. *)
let norm_factor (f : Sem.dfactor) =
  (f.Sem.f_nlevels, f.Sem.f_sustain,
   (match f.Sem.f_derived with
    | None -> None
    | Some w -> Some (w.Sem.w_deps, w.Sem.w_width, w.Sem.w_stride, w.Sem.w_start,
                      Stdlib.List.map (fun t -> Stdlib.List.sort_uniq compare
                                                    (Stdlib.List.filter (fun e -> Stdlib.List.for_all (fun col -> Stdlib.List.for_all (fun c -> c <> None) col) e) t))
                        w.Sem.w_table)))
let sem_diff_t (a : Sem.sem) (b : Sem.sem) : string list =
  let d = sem_diff { a with Sem.s_factors = [] } { b with Sem.s_factors = [] } in
  if Stdlib.List.map norm_factor a.Sem.s_factors <> Stdlib.List.map norm_factor b.Sem.s_factors
  then "factors" :: d else d
let derived_guard : (DocSem.program -> bool) ref = ref DerivedGuard.t2d_guard
let () =
  register "t2derived" (function [ps; real] ->
    let p = Drv_docsem.program_of_sexp ps in
    (match DerivedInput.derived_input p with
     | None -> "outside"
     | Some ci ->
       let doc = DocSem.doc_sem p in
       let gd = "guard=" ^ show_bool (!derived_guard p) ^ " " in
       let docs = (match doc with DocSem.Ok _ -> "ok" | DocSem.Unsup _ -> "unsupported" | DocSem.Crash _ -> "crash") in
       let created = CreateFlat.create_flat ci in
       let against exc = (match real with A "none" -> "na" | L [A "err"; A e] -> if e = exc then "same" else "diff:raises_" ^ e
                                        | _ -> "diff:raises") in
       (* the order of the constructor: weight desugaring (not modelled), generate_derivations (ValueError: a
          tuple matches two levels), then the crossing weights (ZeroDivisionError: empty crossing) *)
       (match created with
        | CreateFlat.FErr CreateFlat.FUnsupported -> gd ^ "create=FUnsupported flat=na fails=na doc=" ^ docs ^ " sem=na"
        | _ when DerivedInput.derived_raises p ->
          gd ^ "create=ValueError flat=" ^ against "ValueError" ^ " fails=na doc=" ^ docs ^ " sem=na"
        | CreateFlat.FErr CreateFlat.FArith ->
          gd ^ "create=FArith flat=" ^ against "ZeroDivisionError" ^ " fails=na doc=" ^ docs ^ " sem=na"
        | CreateFlat.FErr e -> gd ^ "create=" ^ show_ferr e ^ " flat=na fails=na doc=" ^ docs ^ " sem=na"
        | CreateFlat.FOk fb ->
          let flats, fails = (match real with
              | A "none" -> "na", "na"
              | L [A "err"; A e] -> "diff:real_" ^ e, "na"
              | r -> let rf = Wire_flat.flat_of_sexp r in
                (match flat_diff fb rf with [] -> "same" | l -> "diff:" ^ Stdlib.String.concat "," l),
                (if fb.Flat.fl_errors_fail = rf.Flat.fl_errors_fail then "same" else "diff")) in
          let sems = (match doc with
              | DocSem.Ok ds -> (match sem_diff_t (CodeSem.code_sem fb) ds.DocSem.ds_sem with
                  | [] -> "same" | l -> "diff:" ^ Stdlib.String.concat "," l)
              | _ -> "na") in
          (* the certified checker (Design/SemEqvTB.v sem_eqv_tb, sound by Properties/T2d.v T2d_checker_sound) *)
          let semb = (match DerivedCheck.t2d_check p with Some true -> "true" | Some false -> "false" | None -> "na") in
          (* guard2: the narrower guard of the unconditional theorem T2d_derived_sem_eqv (Front/DerivedGuard2.v) *)
          let g2 = " guard2=" ^ show_bool (DerivedGuard2.t2d_guard2 p) in
          gd ^ "create=ok flat=" ^ flats ^ " fails=" ^ fails ^ " doc=" ^ docs ^ " sem=" ^ sems ^ " semb=" ^ semb ^ g2))
    | _ -> "!args")

(* diagnostics: (t2dshow PROGRAM) -> code_sem of the created flat record | doc_sem *)
let () =
  register "t2dshow" (function [ps] ->
    let p = Drv_docsem.program_of_sexp ps in
    (match DerivedInput.t2d_code_sem p, DocSem.doc_sem p with
     | Some cs, DocSem.Ok ds -> Drv_docsem.show_sem cs ^ " | " ^ Drv_docsem.show_sem ds.DocSem.ds_sem
                                ^ " | forder " ^ Drv_docsem.show_natl ds.DocSem.ds_forder
     | _, _ -> "na")
    | _ -> "!args")
