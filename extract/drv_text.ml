(* Driver for Text/{Tok,Dimacs,SolverIO,Opb}.v.  Files travel as lists of lines
   of quoted token strings: (("p" "cnf" "3" "2") () ("1" "-2" "0")).
   Token text <-> Tok.tok is the (trusted) character level: canonical decimals
   are TI, "+<dec>" TPlus, "v<dec>" TV, "<dec>:<dec>" TFreq, anything else TW. *)
open Wire

let is_digit c = c >= '0' && c <= '9'
let canon_nat s =
  let n = Stdlib.String.length s in
  n > 0 && (let ok = ref true in Stdlib.String.iter (fun c -> if not (is_digit c) then ok := false) s; !ok)
  && (n = 1 || Stdlib.String.get s 0 <> '0')
let canon_int s =
  let n = Stdlib.String.length s in
  if n > 1 && Stdlib.String.get s 0 = '-' then
    let r = Stdlib.String.sub s 1 (n - 1) in canon_nat r && r <> "0"
  else canon_nat s

let tok_of_string (s : string) : Tok.tok =
  let n = Stdlib.String.length s in
  if canon_int s then Tok.TI (z_of_string s)
  else if n > 1 && Stdlib.String.get s 0 = '+' && canon_nat (Stdlib.String.sub s 1 (n - 1)) then
    Tok.TPlus (z_of_string (Stdlib.String.sub s 1 (n - 1)))
  else if n > 1 && Stdlib.String.get s 0 = 'v' && canon_int (Stdlib.String.sub s 1 (n - 1)) then
    Tok.TV (z_of_string (Stdlib.String.sub s 1 (n - 1)))
  else
    match Stdlib.String.index_opt s ':' with
    | Some i when canon_int (Stdlib.String.sub s 0 i) && canon_int (Stdlib.String.sub s (i + 1) (n - i - 1)) ->
      Tok.TFreq (z_of_string (Stdlib.String.sub s 0 i), z_of_string (Stdlib.String.sub s (i + 1) (n - i - 1)))
    | _ -> Tok.TW (explode s)

let string_of_tok = function
  | Tok.TI z -> show_z z
  | Tok.TPlus z -> "+" ^ show_z z
  | Tok.TV z -> "v" ^ show_z z
  | Tok.TFreq (a, b) -> show_z a ^ ":" ^ show_z b
  | Tok.TW s -> implode s

let show_tok t = show_str (explode (string_of_tok t))
let show_file (f : Tok.tok list list) = show_list (show_list show_tok) f
let file_of_sexp x = list_of_sexp (list_of_sexp (fun a -> tok_of_string (str_of_sexp a))) x
let line_of_sexp x = list_of_sexp (fun a -> tok_of_string (str_of_sexp a)) x
let cnf_of_sexp = list_of_sexp zlist_of_sexp
let kind_of = function A "EQ" -> Card.EQ | A "LT" -> Card.LT | A "GT" -> Card.GT | _ -> failwith "kind"
let reqs_of_sexp rs =
  list_of_sexp (function L [kd; k; vs] -> ((kind_of kd, z_of_sexp k), zlist_of_sexp vs) | _ -> failwith "req") rs
let bools_of_sexp = list_of_sexp (function A "1" -> true | A "0" -> false | _ -> failwith "bool")
let asg_of_sexp x =
  let tv = Stdlib.List.map int_of_z (zlist_of_sexp x) in
  fun z -> Stdlib.List.mem (int_of_z z) tv
let show_optb = function None -> "none" | Some b -> show_bool b

(* ---- character level: a text travels as the hex of its bytes (atom "x<hex>", "x" = empty) *)
let hex_of_chars (l : char list) : string =
  let b = Buffer.create 64 in
  Buffer.add_char b 'x';
  Stdlib.List.iter (fun c -> Buffer.add_string b (Printf.sprintf "%02x" (Char.code c))) l;
  Buffer.contents b
let chars_of_hex (s : string) : char list =
  let n = Stdlib.String.length s in
  if n = 0 || Stdlib.String.get s 0 <> 'x' || (n - 1) mod 2 <> 0 then failwith "hex" else
  Stdlib.List.init ((n - 1) / 2) (fun i -> Char.chr (int_of_string ("0x" ^ Stdlib.String.sub s (1 + 2 * i) 2)))
let text_of_sexp x = chars_of_hex (str_of_sexp x)
let show_text = hex_of_chars
let fvc_of c fvc = match opt_of_sexp z_of_sexp fvc with Some n -> n | None -> Dimacs.cnf_num_vars c
let set_of = function
  | L [A "len"; n] -> Dimacs.support_set (z_of_sexp n)
  | L [A "vars"; vs] -> zlist_of_sexp vs
  | _ -> []

let () =
  register "c_str_z" (function [z] -> show_text (Chars.string_of_Z (z_of_sexp z)) | _ -> "!args");
  register "c_int" (function [t] -> show_opt show_z (Chars.coq_Z_of_string (text_of_sexp t)) | _ -> "!args");
  register "c_split" (function [t] -> show_list show_text (Chars.split_ws (text_of_sexp t)) | _ -> "!args");
  register "c_strip" (function [t] -> show_text (Chars.strip (text_of_sexp t)) | _ -> "!args");
  register "c_lines" (function [t] -> show_list show_text (Chars.lines (text_of_sexp t)) | _ -> "!args");
  register "c_lex" (function [t] -> show_file (TextChars.lex_file (text_of_sexp t)) | _ -> "!args");
  register "c_render" (function [f] -> show_text (TextChars.render_file (file_of_sexp f)) | _ -> "!args");
  register "c_str" (function [cls] -> show_text (TextChars.str_text (cnf_of_sexp cls)) | _ -> "!args");
  register "c_dimacs" (function [cls; fvc] ->
    let c = cnf_of_sexp cls in show_text (TextChars.dimacs_text (fvc_of c fvc) c) | _ -> "!args");
  register "c_unigen" (function [cls; fvc; ss] ->
    let c = cnf_of_sexp cls in show_text (TextChars.unigen_text (fvc_of c fvc) (set_of ss) c) | _ -> "!args");
  register "c_save_cnf" (function [cls; sup] ->
    show_text (TextChars.save_cnf_text (cnf_of_sexp cls) (opt_of_sexp z_of_sexp sup)) | _ -> "!args");
  register "c_combine_save" (function [init; fresh; sup; rs] ->
    show_opt show_text (TextChars.combine_save_text (cnf_of_sexp init) (z_of_sexp fresh) (z_of_sexp sup) (reqs_of_sexp rs))
    | _ -> "!args");
  register "c_parse_cms" (function [t] ->
    (match TextChars.parse_cms_text (text_of_sexp t) with
     | None -> "none"
     | Some (nv, cls) -> show_z nv ^ " " ^ show_cnf cls) | _ -> "!args");
  register "c_parse_unigen" (function [t] ->
    (match TextChars.parse_unigen_text (text_of_sexp t) with
     | None -> "none"
     | Some ((cls, ss), nv) -> show_cnf cls ^ " " ^ show_zlist ss ^ " " ^ show_z nv) | _ -> "!args");
  register "c_sampler_input" (function [b; t] ->
    (match TextChars.sampler_input_text (fun _ -> bool_of_sexp b) (text_of_sexp t) with
     | None -> "none"
     | Some None -> "empty"
     | Some (Some (cls, ss)) -> show_cnf cls ^ " " ^ show_zlist ss) | _ -> "!args");
  register "c_update_file" (function [t; sol] ->
    show_opt show_text (TextChars.update_file_text (text_of_sexp t) (zlist_of_sexp sol)) | _ -> "!args");
  register "c_cms_output" (function [bs] -> show_text (TextChars.cms_output_text (bools_of_sexp bs)) | _ -> "!args");
  register "c_parse_v" (function [t] -> show_opt show_zlist (TextChars.parse_v_text (text_of_sexp t)) | _ -> "!args");
  register "c_solve_result" (function [t; sup] ->
    show_opt show_zlist (TextChars.solve_result_text (text_of_sexp t) (z_of_sexp sup)) | _ -> "!args");
  register "c_unigen_format" (function [ss] ->
    show_text (TextChars.unigen_format_text (list_of_sexp zlist_of_sexp ss)) | _ -> "!args");
  register "c_cmsgen_format" (function [ss; sols] ->
    show_text (TextChars.cmsgen_format_text (zlist_of_sexp ss) (list_of_sexp bools_of_sexp sols)) | _ -> "!args");
  register "c_parse_sampler" (function [t] ->
    show_opt (show_list (fun (a, fq) -> "(" ^ show_zlist a ^ " " ^ show_z fq ^ ")"))
      (TextChars.parse_sampler_text (text_of_sexp t)) | _ -> "!args");
  register "c_opb" (function [cls; rs] ->
    show_text (TextChars.opb_file_text (cnf_of_sexp cls) (reqs_of_sexp rs)) | _ -> "!args");
  register "c_opb_lines" (function [cls] -> show_text (TextChars.opb_text (cnf_of_sexp cls)) | _ -> "!args");
  register "c_ilp_update" (function [t; sol] ->
    show_text (TextChars.ilp_update_text (text_of_sexp t) (zlist_of_sexp sol)) | _ -> "!args");
  register "c_pb_file_sat" (function [asg; t] ->
    show_optb (TextChars.pb_file_sat_text (asg_of_sexp asg) (text_of_sexp t)) | _ -> "!args");
  register "str" (function [cls] -> show_file (Dimacs.str_lines (cnf_of_sexp cls)) | _ -> "!args");
  register "numvars" (function [cls] -> show_z (Dimacs.cnf_num_vars (cnf_of_sexp cls)) | _ -> "!args");
  register "dimacs" (function [cls; fvc] ->
    let c = cnf_of_sexp cls in
    let nv = match opt_of_sexp z_of_sexp fvc with Some n -> n | None -> Dimacs.cnf_num_vars c in
    show_file (Dimacs.dimacs_lines nv c) | _ -> "!args");
  (* (unigen cls fvc (len n) | (vars (..)) | none) *)
  register "unigen" (function [cls; fvc; ss] ->
    let c = cnf_of_sexp cls in
    let nv = match opt_of_sexp z_of_sexp fvc with Some n -> n | None -> Dimacs.cnf_num_vars c in
    let set = match ss with
      | L [A "len"; n] -> Dimacs.support_set (z_of_sexp n)
      | L [A "vars"; vs] -> zlist_of_sexp vs
      | _ -> [] in
    show_file (Dimacs.unigen_lines nv set c) | _ -> "!args");
  register "save_cnf" (function [cls; sup] ->
    show_file (Dimacs.save_cnf_lines (cnf_of_sexp cls) (opt_of_sexp z_of_sexp sup)) | _ -> "!args");
  register "combine_save" (function [init; fresh; sup; rs] ->
    show_opt show_file (Dimacs.combine_save_lines (cnf_of_sexp init) (z_of_sexp fresh) (z_of_sexp sup) (reqs_of_sexp rs))
    | _ -> "!args");
  register "parse_cms" (function [f] ->
    (match Dimacs.parse_cms (file_of_sexp f) with
     | None -> "none"
     | Some (nv, cls) -> show_z nv ^ " " ^ show_cnf cls) | _ -> "!args");
  register "parse_unigen" (function [f] ->
    (match Dimacs.parse_unigen (file_of_sexp f) with
     | None -> "none"
     | Some ((cls, ss), nv) -> show_cnf cls ^ " " ^ show_zlist ss ^ " " ^ show_z nv) | _ -> "!args");
  (* (sampler_input b file): b = what the external satisfiability pre-check answers *)
  register "sampler_input" (function [b; f] ->
    (match Dimacs.sampler_input (fun _ -> bool_of_sexp b) (file_of_sexp f) with
     | None -> "none"
     | Some None -> "empty"
     | Some (Some (cls, ss)) -> show_cnf cls ^ " " ^ show_zlist ss) | _ -> "!args");
  register "update_file" (function [f; sol] ->
    show_opt show_file (Dimacs.update_file (file_of_sexp f) (zlist_of_sexp sol)) | _ -> "!args");
  register "cms_output" (function [bs] -> show_file (SolverIO.cms_output (bools_of_sexp bs)) | _ -> "!args");
  register "parse_v" (function [f] -> show_opt show_zlist (SolverIO.parse_v_lines (file_of_sexp f)) | _ -> "!args");
  register "solve_result" (function [f; sup] ->
    show_opt show_zlist (SolverIO.solve_result (file_of_sexp f) (z_of_sexp sup)) | _ -> "!args");
  register "build_solution" (function [l] ->
    (match SolverIO.build_solution (line_of_sexp l) with
     | None -> "none" | Some (a, fq) -> show_zlist a ^ " " ^ show_z fq) | _ -> "!args");
  register "parse_sampler" (function [f] ->
    show_opt (show_list (fun (a, fq) -> "(" ^ show_zlist a ^ " " ^ show_z fq ^ ")"))
      (SolverIO.parse_sampler_output (file_of_sexp f)) | _ -> "!args");
  register "unigen_format" (function [ss] ->
    show_file (SolverIO.unigen_format (list_of_sexp zlist_of_sexp ss)) | _ -> "!args");
  register "cmsgen_format" (function [ss; sols] ->
    show_file (SolverIO.cmsgen_format (zlist_of_sexp ss) (list_of_sexp bools_of_sexp sols)) | _ -> "!args");
  register "opb" (function [cls; rs] -> show_file (Opb.opb_file (cnf_of_sexp cls) (reqs_of_sexp rs)) | _ -> "!args");
  register "opb_lines" (function [cls] -> show_file (Opb.opb_lines (cnf_of_sexp cls)) | _ -> "!args");
  register "ilp_update" (function [f; sol] ->
    show_file (Opb.ilp_update (file_of_sexp f) (zlist_of_sexp sol)) | _ -> "!args");
  register "pb_file_sat" (function [asg; f] ->
    show_optb (Opb.pb_file_sat (asg_of_sexp asg) (file_of_sexp f)) | _ -> "!args");
  register "pb_line_sat" (function [asg; l] ->
    show_optb (Opb.pb_line_sat (asg_of_sexp asg) (line_of_sexp l)) | _ -> "!args");
  register "csat" (function [asg; c] -> show_bool (Sat.csat (asg_of_sexp asg) (zlist_of_sexp c)) | _ -> "!args")
