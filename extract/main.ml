(* spmodel: reads one (cmd args...) per line on stdin, prints one result line. *)
let () =
  try
    while true do
      let line = input_line stdin in
      let line = Stdlib.String.trim line in
      if line = "" then print_newline ()
      else begin
        (try
          match Wire.parse line with
          | Wire.L (Wire.A cmd :: args) ->
            (match Hashtbl.find_opt Wire.handlers cmd with
             | Some h -> print_string (h args)
             | None -> print_string ("!unknown-command " ^ cmd))
          | _ -> print_string "!bad-input"
        with
        | Stack_overflow -> print_string "!stack-overflow"
        | e -> print_string ("!exception " ^ Printexc.to_string e));
        print_newline ()
      end
    done
  with End_of_file -> ()
