(* Wire format shared by all drivers: one S-expression per input line,
   one output line per input line.  Parsing/printing only. *)
type sexp = A of string | L of sexp list

let parse (s : string) : sexp =
  let n = Stdlib.String.length s in
  let pos = ref 0 in
  let rec skip () = if !pos < n && ((Stdlib.String.get s (!pos)) = ' ' || (Stdlib.String.get s (!pos)) = '\t') then (incr pos; skip ()) in
  let rec one () =
    skip ();
    if !pos >= n then failwith "eof"
    else if (Stdlib.String.get s (!pos)) = '(' then begin
      incr pos;
      let items = ref [] in
      let rec loop () =
        skip ();
        if !pos >= n then failwith "unclosed"
        else if (Stdlib.String.get s (!pos)) = ')' then incr pos
        else (items := one () :: !items; loop ()) in
      loop (); L (Stdlib.List.rev !items)
    end else if (Stdlib.String.get s (!pos)) = '"' then begin
      incr pos;
      let b = Buffer.create 16 in
      let rec loop () =
        if !pos >= n then failwith "unclosed string"
        else if (Stdlib.String.get s (!pos)) = '\\' && !pos + 1 < n then (Buffer.add_char b (Stdlib.String.get s (!pos+1)); pos := !pos + 2; loop ())
        else if (Stdlib.String.get s (!pos)) = '"' then incr pos
        else (Buffer.add_char b (Stdlib.String.get s (!pos)); incr pos; loop ()) in
      loop (); A (Buffer.contents b)
    end else begin
      let st = !pos in
      while !pos < n && (Stdlib.String.get s (!pos)) <> ' ' && (Stdlib.String.get s (!pos)) <> '(' && (Stdlib.String.get s (!pos)) <> ')' && (Stdlib.String.get s (!pos)) <> '\t' do incr pos done;
      A (Stdlib.String.sub s st (!pos - st))
    end in
  one ()

open BinNums
open Datatypes

(* big integers travel as decimal strings; conversion via int is enough for
   all lengths/indices, arbitrary precision where counts may exceed 2^62 *)
let rec pos_of_int n = if n = 1 then Coq_xH else if n land 1 = 0 then Coq_xO (pos_of_int (n lsr 1)) else Coq_xI (pos_of_int (n lsr 1))
let z_of_int n = if n = 0 then Z0 else if n > 0 then Zpos (pos_of_int n) else Zneg (pos_of_int (-n))
let rec int_of_pos = function Coq_xH -> 1 | Coq_xO p -> 2 * int_of_pos p | Coq_xI p -> 2 * int_of_pos p + 1
let int_of_z = function Z0 -> 0 | Zpos p -> int_of_pos p | Zneg p -> - (int_of_pos p)
let rec nat_of_int n = if n <= 0 then O else S (nat_of_int (n - 1))
let rec int_of_nat = function O -> 0 | S n -> 1 + int_of_nat n

(* decimal string <-> Z without overflow: schoolbook on digit lists *)
let z_of_string (s : string) : coq_Z =
  let neg = Stdlib.String.length s > 0 && (Stdlib.String.get s (0)) = '-' in
  let digits = if neg then Stdlib.String.sub s 1 (Stdlib.String.length s - 1) else s in
  if Stdlib.String.length digits <= 17 then z_of_int (int_of_string s)
  else begin
    (* repeated division by 2 of the decimal string *)
    let d = Array.init (Stdlib.String.length digits) (fun i -> Char.code (Stdlib.String.get digits (i)) - 48) in
    let is_zero () = Array.for_all (fun x -> x = 0) d in
    let div2 () = let r = ref 0 in
      Array.iteri (fun i x -> let v = !r * 10 + x in d.(i) <- v / 2; r := v mod 2) d; !r in
    let bits = ref [] in
    while not (is_zero ()) do bits := div2 () :: !bits done;
    (* bits: MSB first *)
    let rec build acc = function
      | [] -> acc
      | b :: tl -> build (if b = 1 then Coq_xI acc else Coq_xO acc) tl in
    match !bits with
    | [] -> Z0
    | _ :: tl -> let p = build Coq_xH tl in if neg then Zneg p else Zpos p
  end

let string_of_z (z : coq_Z) : string =
  let rec bits_of_pos p acc = match p with
    | Coq_xH -> 1 :: acc | Coq_xO q -> bits_of_pos q (0 :: acc) | Coq_xI q -> bits_of_pos q (1 :: acc) in
  let big p =
    let bits = bits_of_pos p [] in (* MSB first *)
    if Stdlib.List.length bits <= 61 then string_of_int (int_of_pos p)
    else begin
      (* decimal digit array, least significant first *)
      let d = ref [0] in
      let dbl_add b =
        let carry = ref b in
        d := Stdlib.List.map (fun x -> let v = 2 * x + !carry in carry := v / 10; v mod 10) !d;
        if !carry > 0 then d := !d @ [!carry] in
      Stdlib.List.iter dbl_add bits;
      Stdlib.String.concat "" (Stdlib.List.rev_map string_of_int !d)
    end in
  match z with Z0 -> "0" | Zpos p -> big p | Zneg p -> "-" ^ big p

let z_of_sexp = function A s -> z_of_string s | L _ -> failwith "z expected"
let int_of_sexp = function A s -> int_of_string s | L _ -> failwith "int expected"
let nat_of_sexp x = nat_of_int (int_of_sexp x)
let list_of_sexp f = function L l -> Stdlib.List.map f l | A _ -> failwith "list expected"
let zlist_of_sexp = list_of_sexp z_of_sexp
let str_of_sexp = function A s -> s | L _ -> failwith "atom expected"
let opt_of_sexp f = function A "none" -> None | L [A "some"; x] -> Some (f x) | x -> Some (f x)
let bool_of_sexp = function A "true" -> true | A "false" -> false | _ -> failwith "bool expected"

let explode (s : string) : char list = Stdlib.List.init (Stdlib.String.length s) (Stdlib.String.get s)
let implode (l : char list) : string = Stdlib.String.of_seq (Stdlib.List.to_seq l)

let show_z = string_of_z
let show_list f l = "(" ^ Stdlib.String.concat " " (Stdlib.List.map f l) ^ ")"
let show_zlist = show_list show_z
let show_cnf = show_list show_zlist
let show_opt f = function None -> "none" | Some x -> f x
let show_bool b = if b then "true" else "false"
let show_nat n = string_of_int (int_of_nat n)
let show_str (l : char list) =
  let b = Buffer.create 16 in
  Buffer.add_char b '"';
  Stdlib.List.iter (fun c -> if c = '"' || c = '\\' then Buffer.add_char b '\\'; Buffer.add_char b c) l;
  Buffer.add_char b '"'; Buffer.contents b

let handlers : (string, sexp list -> string) Hashtbl.t = Hashtbl.create 64
let register (name : string) (h : sexp list -> string) = Hashtbl.replace handlers name h
