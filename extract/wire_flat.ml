(* Parser of the flat record (coq/theories/Design/Flat.v) from the wire format
   produced by harness/flat.py.  Shared by every driver that runs a model of
   downstream code on extracted flat records. *)
open Wire
let cellopt_of_sexp x = let n = int_of_sexp x in if n < 0 then None else Some (nat_of_int n)
let string_of_sexp x = explode (str_of_sexp x)
let window_of_sexp = function
  | A "none" -> None
  | L [deps; w; st; start; delta] ->
    Some { Flat.win_deps = list_of_sexp nat_of_sexp deps; Flat.win_width = nat_of_sexp w; Flat.win_stride = nat_of_sexp st;
           Flat.win_start = nat_of_sexp start; Flat.win_start_delta = z_of_sexp delta }
  | _ -> failwith "window"
let level_of_sexp = function
  | L [name; w; acc] ->
    { Flat.lv_name = string_of_sexp name; Flat.lv_weight = nat_of_sexp w;
      Flat.lv_accepts = list_of_sexp (list_of_sexp (list_of_sexp cellopt_of_sexp)) acc }
  | _ -> failwith "level"
let factor_of_sexp = function
  | L [name; hidden; levels; win; cplx] ->
    { Flat.ff_name = string_of_sexp name; Flat.ff_hidden = bool_of_sexp hidden; Flat.ff_levels = list_of_sexp level_of_sexp levels;
      Flat.ff_window = window_of_sexp win; Flat.ff_complex = bool_of_sexp cplx }
  | _ -> failwith "factor"
let geom_of_sexp = function
  | A "none" -> None
  | L [t; p; su] ->
    Some { Flat.g_trials = nat_of_sexp t; Flat.g_preamble = nat_of_sexp p;
           Flat.g_sustain = list_of_sexp (function L [f; n] -> (nat_of_sexp f, nat_of_sexp n) | _ -> failwith "su") su }
  | _ -> failwith "geometry"
let didx_of_sexp = function
  | L [A "before"; r] -> Flat.DBefore (nat_of_sexp r)
  | x -> Flat.DIdx (nat_of_sexp x)
let constraint_of_sexp = function
  | L [A "Cross"] -> Flat.FCross
  | L [A "Consistency"] -> Flat.FConsistency
  | L [A "Sustain"] -> Flat.FSustain
  | L [A "Derivation"; d; deps; f] -> Flat.FDerivation (nat_of_sexp d, list_of_sexp (list_of_sexp didx_of_sexp) deps, nat_of_sexp f)
  | L [A "AtMostKInARow"; k; f; l; wb] -> Flat.FAtMost (nat_of_sexp k, nat_of_sexp f, nat_of_sexp l, geom_of_sexp wb)
  | L [A "AtLeastKInARow"; k; f; l; wb] -> Flat.FAtLeast (nat_of_sexp k, nat_of_sexp f, nat_of_sexp l, geom_of_sexp wb)
  | L [A "ExactlyK"; k; f; l; wb] -> Flat.FExactlyK (nat_of_sexp k, nat_of_sexp f, nat_of_sexp l, geom_of_sexp wb)
  | L [A "ExactlyKInARow"; k; f; l; wb] -> Flat.FExactlyKInARow (nat_of_sexp k, nat_of_sexp f, nat_of_sexp l, geom_of_sexp wb)
  | L [A "ExactlyKMultipleInARow"; k; f; l; wb] -> Flat.FExactlyKMultiple (nat_of_sexp k, nat_of_sexp f, nat_of_sexp l, geom_of_sexp wb)
  | L [A "Exclude"; f; l] -> Flat.FExclude (nat_of_sexp f, nat_of_sexp l)
  | L [A "Pin"; i; f; l; wb] -> Flat.FPin (z_of_sexp i, nat_of_sexp f, nat_of_sexp l, geom_of_sexp wb)
  | L [A "Reify"; f] -> Flat.FReify (nat_of_sexp f)
  | L [A "MinimumTrials"; n] -> Flat.FMinimumTrials (z_of_sexp n)
  | L [A "ContinuousConstraint"] -> Flat.FContinuous
  | L [A "LatinSquare"; fs] -> Flat.FLatin (list_of_sexp nat_of_sexp fs)
  | L [A "Sequential"; f] -> Flat.FSequential (nat_of_sexp f)
  | L (A name :: _) -> Flat.FOther (explode name)
  | _ -> failwith "constraint"
let alignment_of_sexp = function
  | A "post" -> Flat.PostPreamble | A "parallel" -> Flat.ParallelStart | A "equal" -> Flat.EqualPreamble
  | _ -> failwith "alignment"
let pairs_of_sexp = list_of_sexp (function L [a; b] -> (nat_of_sexp a, nat_of_sexp b) | _ -> failwith "pair")
let flat_of_sexp = function
  | L [design; act; crossings; sustains; weights; sizes; preambles; al; alpre; mint; trials; rcc; excl; excld; cons; errs] ->
    { Flat.fl_design = list_of_sexp factor_of_sexp design; Flat.fl_act = list_of_sexp nat_of_sexp act;
      Flat.fl_crossings = list_of_sexp (list_of_sexp nat_of_sexp) crossings; Flat.fl_sustains = list_of_sexp nat_of_sexp sustains;
      Flat.fl_weights = list_of_sexp nat_of_sexp weights; Flat.fl_sizes = list_of_sexp nat_of_sexp sizes;
      Flat.fl_preambles = list_of_sexp nat_of_sexp preambles; Flat.fl_alignment = alignment_of_sexp al;
      Flat.fl_alignment_preamble = nat_of_sexp alpre; Flat.fl_min_trials = nat_of_sexp mint; Flat.fl_trials = nat_of_sexp trials;
      Flat.fl_rcc = bool_of_sexp rcc; Flat.fl_exclude = pairs_of_sexp excl; Flat.fl_excluded_derived = list_of_sexp pairs_of_sexp excld;
      Flat.fl_constraints = list_of_sexp constraint_of_sexp cons; Flat.fl_errors_fail = bool_of_sexp errs }
  | _ -> failwith "flat"
