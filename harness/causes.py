"""Root-cause predicates for the open known findings of /repo (known_findings.json).
A finding is identified by (failure class, predicate on the design) - DESIGN.md
section 5 - so that a different violation of the same property is still reported.
Each predicate looks only at the *program*; it says the program has the shape
that triggers the recorded defect."""
import docsem


def _fm(p):
    return {f["id"]: f for f in p["factors"]}


def _design_ids(p):
    s = set()
    for b in p["blocks"]:
        s.update(b.get("design", []))
    return s


def _crossings(p):
    out = []
    for b in p["blocks"]:
        if "crossing" in b:
            out.append(b["crossing"])
        out += b.get("crossings", [])
    return [c for c in out if c]


def derived_source(p):
    """A crossed within-trial derived factor whose window contains a factor that
    RandomGen cannot use as a source: a derived factor that is not in the same
    crossing, or a weighted basic factor that is in no crossing (it is desugared
    into a hidden derived factor)."""
    fm = _fm(p)
    crossed_any = set(x for c in _crossings(p) for x in c)
    for c in _crossings(p):
        for f in c:
            fd = fm[f]
            if fd["kind"] != "derived" or docsem.is_complex(p, fd):
                continue
            for d in fd["window"]["deps"]:
                dd = fm[d]
                if dd["kind"] == "derived" and d not in c:
                    return True
                if dd["kind"] == "simple" and d not in crossed_any and any(w != 1 for _, w in dd["levels"]):
                    return True
    return False


def window_longer_than_trials(p):
    """A window derived factor that starts before its window is full (explicit
    start < width-1) in a design with fewer trials than the window is wide: the
    shifted level indices of the derivation run past the trial grid and are
    mistaken for complex-factor variables."""
    fm = _fm(p)
    try:
        T = docsem.doc_sem(p).T
    except Exception:  # noqa
        return False
    for f in _design_ids(p):
        fd = fm[f]
        if fd["kind"] == "derived" and fd["window"]["type"] == "window":
            w = fd["window"]
            if w.get("start") is not None and w["width"] > 1 and w["start"] < w["width"] - 1 and T < w["width"]:
                return True
    return False


def complex_dependency(p):
    """A derived factor that depends on a complex (transition/window) derived factor."""
    fm = _fm(p)
    for f in _design_ids(p):
        fd = fm[f]
        if fd["kind"] == "derived":
            for d in fd["window"]["deps"]:
                if fm[d]["kind"] == "derived" and docsem.is_complex(p, fm[d]):
                    return True
    return False


def alignment_preamble(p):
    """POST_PREAMBLE alignment with an uncrossed complex derived factor whose start
    exceeds the crossings' own preambles (the code delays every crossing by it)."""
    fm = _fm(p)
    for b in p["blocks"]:
        if b.get("alignment") == "post preamble":
            crossed = set(x for c in b.get("crossings", []) for x in c)
            pre = max([docsem.crossing_preamble(p, c) for c in b.get("crossings", []) if c] + [0])
            for f in b.get("design", []):
                fd = fm[f]
                if fd["kind"] == "derived" and f not in crossed and docsem.is_complex(p, fd):
                    if docsem.window_params(p, fd)[3] > pre:
                        return True
    return False


def derived_chain_in_crossing(p):
    """A crossing that contains a within-trial derived factor together with another
    derived factor that it reads: combinations that are impossible only through the
    chain (the two derived levels need incompatible basic levels) are not recognised
    as impossible by the code's per-factor test."""
    fm = _fm(p)
    for c in _crossings(p):
        for f in c:
            fd = fm[f]
            if fd["kind"] != "derived" or docsem.is_complex(p, fd):
                continue
            for d in fd["window"]["deps"]:
                if fm[d]["kind"] == "derived" and d in c:
                    return True
    return False


def crossed_derived_reads_derived(p):
    """A crossing contains a within-trial derived factor one of whose dependencies is itself a derived
    factor (in the crossing or not): the shape on which the code's per-factor impossibility test
    over-approximates the possible combinations."""
    fm = _fm(p)
    for c in _crossings(p):
        for f in c:
            fd = fm[f]
            if fd["kind"] == "derived" and not docsem.is_complex(p, fd):
                if any(fm[d]["kind"] == "derived" for d in fd["window"]["deps"]):
                    return True
    return False


def crossed_derived_share_source(p):
    """A crossing contains two within-trial derived factors whose basic dependencies overlap: some
    combinations of their levels are jointly impossible although each level is possible on its own; the
    code's impossibility test judges each derived level separately and keeps them."""
    fm = _fm(p)

    def basics(f, seen=()):
        fd = fm[f]
        if fd["kind"] != "derived":
            return {f}
        out = set()
        for d in fd["window"]["deps"]:
            if d not in seen:
                out |= basics(d, seen + (f,))
        return out
    for c in _crossings(p):
        ds = [f for f in c if fm[f]["kind"] == "derived" and not docsem.is_complex(p, fm[f])]
        for i, f in enumerate(ds):
            for g in ds[i + 1:]:
                if basics(f) & basics(g):
                    return True
    return False


CAUSES = [
    ("derived-source", derived_source),
    ("window-longer-than-trials", window_longer_than_trials),
    ("alignment-preamble", alignment_preamble),
    ("derived-chain-in-crossing", derived_chain_in_crossing),
    ("crossed-derived-share-source", crossed_derived_share_source),
    ("complex-dependency", complex_dependency),
]


def classify(program, only=None):
    for name, pred in CAUSES:
        if only and name not in only:
            continue
        try:
            if pred(program):
                return name
        except Exception:  # noqa
            pass
    return None
