"""Shared machinery of the checks: running the extracted Gallina model, the Coq
audits, evidence / replay / known-findings handling.

Every check is `run(ctx) -> Result`; `main()` in run.py turns a Result into the
evidence file, the VIOLATION / KNOWN-FINDING lines and the exit status.
"""
import hashlib
import json
import os
import random
import re
import subprocess
import sys
import time

VERIF = os.path.dirname(os.path.dirname(os.path.abspath(__file__)))
REPO = os.environ.get("VERIF_REPO", "/repo")
COQ = os.path.join(VERIF, "coq")
SPMODEL = os.environ.get("SPMODEL") or os.path.join(VERIF, "extract", "spmodel")

ALLOWED_AXIOMS = {
    # standard-library axioms a theorem may depend on (named in the trusted base
    # of the evidence when they occur); the development declares none itself.
    "functional_extensionality_dep", "Coq.Logic.FunctionalExtensionality.functional_extensionality_dep",
    "FunctionalExtensionality.functional_extensionality_dep",
    "Eqdep.Eq_rect_eq.eq_rect_eq", "Coq.Logic.Eqdep.Eq_rect_eq.eq_rect_eq",
    "Classical_Prop.classic", "Coq.Logic.Classical_Prop.classic",
    "ProofIrrelevance.proof_irrelevance", "JMeq.JMeq_eq", "Coq.Logic.JMeq.JMeq_eq",
}

FORBIDDEN = re.compile(
    r"\b(Admitted|admit|Axiom|Axioms|Parameter|Parameters|Conjecture|Conjectures|"
    r"Admit Obligations|bypass_check)\b|Unset\s+Guard\s+Checking|Unset\s+Positivity\s+Checking|"
    r"Unset\s+Universe\s+Checking|-type-in-type|-impredicative-set")
TOPLEVEL_VAR = re.compile(r"^\s*(Variable|Variables|Hypothesis|Hypotheses|Context)\b")


class Violation:
    def __init__(self, sig, what, replay, failing_input=True):
        self.sig = sig              # stable signature (matched against known_findings.json)
        self.what = what            # one-line description
        self.replay = replay        # JSON-serialisable replay data
        self.failing_input = failing_input  # False => tie broken, no concrete failing input


class Result:
    def __init__(self):
        self.violations = []
        self.evaluations = 0
        self.nontrivial = set()
        self.samples = []
        self.rule = ""
        self.extra = {}
        self.assumptions = []
        self.corr = {}             # layer -> {"cases": n, "mismatches": m}
        self.notes = []

    def sample(self, x, limit=6):
        if len(self.samples) < limit:
            self.samples.append(x)

    def count(self, key=None, nontrivial=True):
        self.evaluations += 1
        if nontrivial and key is not None:
            self.nontrivial.add(key if isinstance(key, (str, int, tuple)) else json.dumps(key, sort_keys=True))

    def layer(self, name, ok):
        d = self.corr.setdefault(name, {"cases": 0, "mismatches": 0})
        d["cases"] += 1
        if not ok:
            d["mismatches"] += 1


class Ctx:
    def __init__(self, prop, tier, seed):
        self.prop = prop
        self.tier = tier
        self.seed = seed
        self.rng = random.Random(seed * 1000003 + int(prop[1:]))
        self.t0 = time.time()
        self._model = None

    @property
    def quick(self):
        return self.tier == "quick"

    def model(self, lines, domain=None):
        return run_model(lines, domain=domain)


def sexp(x):
    """Python value -> wire S-expression."""
    if x is None:
        return "none"
    if x is True:
        return "true"
    if x is False:
        return "false"
    if isinstance(x, int):
        return str(x)
    if isinstance(x, str):
        return '"' + x.replace("\\", "\\\\").replace('"', '\\"') + '"'
    if isinstance(x, Atom):
        return x.s
    if isinstance(x, (list, tuple)):
        return "(" + " ".join(sexp(y) for y in x) + ")"
    raise TypeError(repr(x))


class Atom:
    def __init__(self, s):
        self.s = s


def parse_sexp(s):
    """Wire S-expression -> nested python lists of str/int."""
    pos = 0
    n = len(s)
    out = []
    stack = [out]
    while pos < n:
        c = s[pos]
        if c in " \t":
            pos += 1
        elif c == "(":
            new = []
            stack[-1].append(new)
            stack.append(new)
            pos += 1
        elif c == ")":
            stack.pop()
            pos += 1
        elif c == '"':
            pos += 1
            buf = []
            while s[pos] != '"':
                if s[pos] == "\\":
                    pos += 1
                buf.append(s[pos])
                pos += 1
            pos += 1
            stack[-1].append(StrTok("".join(buf)))
        else:
            st = pos
            while pos < n and s[pos] not in " \t()":
                pos += 1
            tok = s[st:pos]
            try:
                stack[-1].append(int(tok))
            except ValueError:
                stack[-1].append(tok)
    return out


class StrTok(str):
    """A quoted string on the wire (distinguished from bare atoms)."""


DEFAULT_DOMAIN = [None]


def model_binary(domain=None):
    """The driver binary: $SPMODEL if set (development), else the per-domain
    binary extract/spmodel_<Domain> (built by extract/build.sh <Domain>)."""
    if os.environ.get("SPMODEL"):
        # development: one binary given explicitly; an explicitly requested other
        # domain still uses its own binary if that exists
        if domain and domain != DEFAULT_DOMAIN[0]:
            alt = os.path.join(VERIF, "extract", "spmodel_" + domain)
            if os.path.exists(alt):
                return alt
        return os.environ["SPMODEL"]
    d = domain or DEFAULT_DOMAIN[0]
    return os.path.join(VERIF, "extract", "spmodel_" + d) if d else SPMODEL


def run_model(lines, timeout=1800, domain=None):
    """Run the extracted Gallina model on the given command lines."""
    binary = model_binary(domain)
    if not os.path.exists(binary):
        raise RuntimeError("%s missing: run ./check --setup" % binary)
    data = "\n".join(lines) + "\n"
    p = subprocess.run(["bash", "-c", "ulimit -s unlimited 2>/dev/null; exec " + binary],
                       input=data, capture_output=True, text=True, timeout=timeout)
    out = p.stdout.split("\n")
    if out and out[-1] == "":
        out.pop()
    if len(out) != len(lines):
        raise RuntimeError("model returned %d lines for %d inputs (rc=%s, stderr=%s)" % (
            len(out), len(lines), p.returncode, p.stderr[:500]))
    return out


# --------------------------------------------------------------------------- Coq audits

def sh(cmd, cwd=None, timeout=3600):
    return subprocess.run(cmd, shell=True, cwd=cwd, capture_output=True, text=True, timeout=timeout)


def coq_sources():
    res = []
    for root, _, files in os.walk(os.path.join(COQ, "theories")):
        for f in files:
            if f.endswith(".v"):
                res.append(os.path.join(root, f))
    return sorted(res)


def strip_comments(text):
    out = []
    depth = 0
    i = 0
    n = len(text)
    while i < n:
        if text.startswith("(*", i):
            depth += 1
            i += 2
        elif text.startswith("*)", i) and depth > 0:
            depth -= 1
            i += 2
        else:
            if depth == 0:
                out.append(text[i])
            elif text[i] == "\n":
                out.append("\n")
            i += 1
    return "".join(out)


def forbidden_audit():
    """Forbidden tokens anywhere in the development (comments stripped);
    Variable/Hypothesis only allowed inside a Section."""
    bad = []
    for path in coq_sources():
        text = strip_comments(open(path).read())
        depth = 0
        for ln, line in enumerate(text.split("\n"), 1):
            if re.match(r"^\s*Section\b", line):
                depth += 1
            elif re.match(r"^\s*End\b", line) and depth > 0:
                depth -= 1
            m = FORBIDDEN.search(line)
            if m:
                bad.append("%s:%d: %s" % (os.path.relpath(path, VERIF), ln, m.group(0)))
            if depth == 0 and TOPLEVEL_VAR.match(line):
                bad.append("%s:%d: top-level %s" % (os.path.relpath(path, VERIF), ln, line.strip()[:40]))
    return bad


class build_lock:
    """Serialises make / extraction / property audits between concurrent checks."""
    def __enter__(self):
        import fcntl
        self.f = open(os.path.join(COQ, ".build.lock"), "w")
        fcntl.flock(self.f, fcntl.LOCK_EX)
        return self

    def __exit__(self, *a):
        import fcntl
        fcntl.flock(self.f, fcntl.LOCK_UN)
        self.f.close()


def ensure_build(targets=None):
    """Full .vo build (never -vos) of the given targets (default: everything);
    a no-op when everything is up to date."""
    gen_coqproject()
    tg = " ".join(targets) if targets else ""
    r = sh("coq_makefile -f _CoqProject -o Makefile >/dev/null 2>&1; timeout 3000 make -j16 %s 2>&1 | tail -40" % tg, cwd=COQ)
    ok = "Error" not in r.stdout and "*** " not in r.stdout
    return ok, r.stdout


def gen_coqproject():
    files = []
    for root, _, fs in os.walk(os.path.join(COQ, "theories")):
        for f in fs:
            if f.endswith(".v"):
                files.append(os.path.relpath(os.path.join(root, f), COQ))
    text = "-Q theories SP\n" + "\n".join(sorted(files)) + "\n"
    p = os.path.join(COQ, "_CoqProject")
    if not os.path.exists(p) or open(p).read() != text:
        open(p, "w").write(text)


def property_audit(prop):
    """Re-check Properties/<prop>.v with coqc (the kernel re-checks each
    `exact lemma`), capture Print Assumptions, return
    (obligations, discharged, axioms_used, theorem_names, problems)."""
    path = os.path.join(COQ, "theories", "Properties", prop + ".v")
    problems = []
    if not os.path.exists(path):
        return 0, 0, [], [], ["Properties/%s.v missing" % prop]
    text = strip_comments(open(path).read())
    theorems = re.findall(r"^\s*(?:Theorem|Corollary)\s+([A-Za-z0-9_']+)", text, re.M)
    prints = re.findall(r"Print Assumptions\s+([A-Za-z0-9_'.]+)\s*\.", text)
    r = sh("timeout 900 coqc -Q theories SP theories/Properties/%s.v 2>&1" % prop, cwd=COQ)
    out = r.stdout
    os.makedirs(os.path.join(COQ, "assumptions"), exist_ok=True)
    open(os.path.join(COQ, "assumptions", prop + ".txt"), "w").write(out)
    if r.returncode != 0:
        problems.append("coqc failed on Properties/%s.v: %s" % (prop, out.strip()[-400:]))
        return len(theorems), 0, [], theorems, problems
    # Each Print Assumptions prints either "Closed under the global context" or "Axioms:\n name : type ..."
    blocks = re.split(r"(?=Closed under the global context|Axioms:)", out)
    blocks = [b for b in blocks if b.startswith("Closed under") or b.startswith("Axioms:")]
    axioms = set()
    discharged = 0
    if len(blocks) != len(prints):
        problems.append("Print Assumptions count mismatch: %d printed for %d commands" % (len(blocks), len(prints)))
    for b in blocks:
        if b.startswith("Closed under"):
            discharged += 1
            continue
        names = re.findall(r"^([A-Za-z_][A-Za-z0-9_.']*)\s*:", b, re.M)
        badax = [n for n in names if n not in ALLOWED_AXIOMS and n.split(".")[-1] not in
                 {a.split(".")[-1] for a in ALLOWED_AXIOMS}]
        axioms.update(names)
        if badax:
            problems.append("non-whitelisted axioms: " + ", ".join(badax))
        else:
            discharged += 1
    missing = [t for t in theorems if t not in prints]
    if missing:
        problems.append("theorems without Print Assumptions: " + ", ".join(missing))
    return len(theorems), min(discharged, len(theorems)), sorted(axioms), theorems, problems


# --------------------------------------------------------------------------- findings, evidence

def load_known():
    p = os.path.join(VERIF, "known_findings.json")
    if not os.path.exists(p):
        return []
    return json.load(open(p))


def write_replay(prop, v):
    os.makedirs(os.path.join(VERIF, "replays"), exist_ok=True)
    blob = json.dumps({"property": prop, "sig": v.sig, "what": v.what, "replay": v.replay,
                       "failing_input_found": v.failing_input}, sort_keys=True, indent=1, default=str)
    h = hashlib.sha1(blob.encode()).hexdigest()[:12]
    path = os.path.join(VERIF, "replays", "%s-%s.json" % (prop, h))
    open(path, "w").write(blob)
    return path


TRUSTED_BASE = [
    "Coq 8.16.1 kernel (coqc; coqchk in the thorough tier); no native_compute",
    "development declares no axioms; Print Assumptions output per theorem recorded in coq/assumptions/<id>.txt",
    "extraction: ExtrOcamlBasic + ExtrOcamlString only (Extract Inductive bool/option/unit/list/prod/sumbool/ascii/string), no Extract Constant; OCaml 4.13.1",
    "hand-written OCaml driver (parsing/printing only) and Python correspondence harness",
    "model hand-written from /repo source; tied by the correspondence run of this check, not by construction",
]


def write_evidence(ctx, res, level, obligations, discharged, axioms, theorems, nviol, extra_assumptions=()):
    os.makedirs(os.path.join(VERIF, "evidence"), exist_ok=True)
    cov = {
        "evaluations": res.evaluations,
        "distinct_nontrivial": len(res.nontrivial),
        "rule": res.rule,
        "samples": res.samples[:8] if res.samples else ["(none)"],
        "obligations": obligations,
        "discharged": discharged,
        "checker_cmd": "cd /verif/coq && make (full .vo build) && coqc -Q theories SP theories/Properties/%s.v" % ctx.prop,
        "trusted_base": TRUSTED_BASE + (["axioms reported by Print Assumptions: " + ", ".join(axioms)] if axioms
                                        else ["Print Assumptions: Closed under the global context for every theorem of Properties/%s.v" % ctx.prop]),
        "theorems": theorems,
        "correspondence": res.corr,
        "programs": sum(d["cases"] for d in res.corr.values()) if res.corr else res.evaluations,
        "disagreements_checked": sum(d["mismatches"] for d in res.corr.values()) if res.corr else 0,
        "explanation": "; ".join(res.notes) if res.notes else "see DESIGN.md",
    }
    cov.update(res.extra)
    ev = {
        "property_id": ctx.prop,
        "tier": ctx.tier,
        "seed": ctx.seed,
        "level": level,
        "coverage": cov,
        "assumptions": list(res.assumptions) + list(extra_assumptions),
        "wall_s": round(time.time() - ctx.t0, 2),
        "violations": nviol,
    }
    path = os.path.join(VERIF, "evidence", ctx.prop + ".json")
    open(path, "w").write(json.dumps(ev, indent=1, sort_keys=True, default=str))
    return path


# --------------------------------------------------------------------------- in-Coq cross-check of extraction

def coq_list(xs):
    return "[" + "; ".join(str(x) for x in xs) + "]"


def coq_llist(xss):
    return "[" + "; ".join(coq_list(x) for x in xss) + "]"


def coq_crosscheck(name, imports, checks):
    """`checks`: list of Coq boolean terms that must evaluate to true (each compares
    a model call, evaluated by vm_compute inside Coq, with the output the extracted
    OCaml binary printed).  Returns (number_checked, number_false) or raises."""
    d = os.path.join(COQ, "cases")
    os.makedirs(d, exist_ok=True)
    path = os.path.join(d, "cases_%s.v" % name)
    body = ["From Coq Require Import ZArith List Bool.", "From SP Require Import Base.EqCheck %s." % imports,
            "Import ListNotations.", "Open Scope Z_scope.", "Definition checks : list bool := ["]
    body.append(";\n".join("  (" + c + ")" for c in checks))
    body.append("].")
    body.append("Eval vm_compute in (count_false checks).")
    open(path, "w").write("\n".join(body) + "\n")
    r = sh("timeout 600 coqc -Q theories SP cases/cases_%s.v 2>&1" % name, cwd=COQ)
    m = re.search(r"=\s*(\d+)%?", r.stdout)
    if r.returncode != 0 or not m:
        raise RuntimeError("in-Coq evaluation failed: " + r.stdout[-400:])
    return len(checks), int(m.group(1))
