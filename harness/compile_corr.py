"""Correspondence of the compilation model (coq/theories/Encode/Compile.v) with
the real `Block.build_backend_request` and `combine_cnf_with_requests`.

Layers:
  L3-compile  build_backend_request(): get_cnfs_as_json(), fresh, ll_requests (or the exception class)
  L4-combine  combine_cnf_with_requests(...) on that request: clause list and _num_vars

`compile_correspondence(ctx, res, programs)` returns the list of mismatching
programs (each a dict with the program, the layer and what differed).
"""
import signal

import flat
import ir
from common import parse_sexp

MODEL_ONLY = ("Fuel", "Unsupported")   # model-only outcomes: a non-terminating loop / outside the modelled domain


class _Hang(Exception):
    pass


def _alarm(_sig, _frm):
    raise _Hang()


def guarded(fn, seconds=20):
    """Run fn() under an alarm so that a non-terminating loop of the code under test cannot hang the check."""
    old = signal.signal(signal.SIGALRM, _alarm)
    signal.alarm(seconds)
    try:
        return fn()
    finally:
        signal.alarm(0)
        signal.signal(signal.SIGALRM, old)


def real_compile(block):
    """('ok', fresh, clauses, requests, br) | ('error', ExcName) | ('hang',)"""
    def go():
        with ir.quiet():
            br = block.build_backend_request()
            cls = br.get_cnfs_as_json()
        return ("ok", br.fresh, [list(c) for c in cls],
                [[r.comparison, r.k, list(r.variables)] for r in br.ll_requests], br)
    try:
        return guarded(go)
    except _Hang:
        return ("hang",)
    except Exception as e:  # noqa
        return ("error", type(e).__name__)


def real_full_cnf(block, br):
    """('ok', num_vars, clauses) | ('error', ExcName): what the formula-based samplers hand to the solver."""
    from sweetpea._internal.core.cnf import CNF
    from sweetpea._internal.core.generate.utility import combine_cnf_with_requests

    def go():
        with ir.quiet():
            final = combine_cnf_with_requests(CNF(br.get_cnfs_as_json()), br.fresh - 1, block.variables_per_sample(),
                                              br.get_requests_as_generation_requests())
        return ("ok", final._num_vars, final.as_list_of_list_of_ints())
    try:
        return guarded(go, 60)
    except _Hang:
        return ("hang",)
    except Exception as e:  # noqa
        return ("error", type(e).__name__)


def parse_compile(line):
    if line.startswith("!"):
        return ("model-error", line)
    r = parse_sexp(line)
    if r and r[0] == "error":
        return ("error", r[1])
    return ("ok", r[0], r[1], [[q[0], q[1], q[2]] for q in r[2]])


def parse_full(line):
    if line.startswith("!"):
        return ("model-error", line)
    r = parse_sexp(line)
    if r and r[0] == "error":
        return ("error", r[1])
    if r[0] != "true":
        return ("error", "ValueError")
    return ("ok", r[1], r[2])


def canon(clauses):
    return sorted(set(tuple(sorted(c)) for c in clauses))


def compare_compile(real, mod):
    """-> (verdict, detail); verdict in literal | canonical | model-only | mismatch"""
    if mod[0] == "model-error":
        return "mismatch", "model driver failed: %s" % mod[1][:200]
    if mod[0] == "error" and mod[1] in MODEL_ONLY:
        if mod[1] == "Fuel" and real[0] == "hang":
            return "literal", ""
        return "model-only", "model outcome %s, real %s" % (mod[1], real[0] if real[0] != "error" else real[1])
    if real[0] == "hang":
        return "mismatch", "real code did not terminate; model says %r" % (mod[:2],)
    if real[0] == "error" or mod[0] == "error":
        if real[0] == "error" and mod[0] == "error" and real[1] == mod[1]:
            return "literal", ""
        return "mismatch", "real %r vs model %r" % (real[:2], mod[:2])
    if real[1] != mod[1]:
        return "mismatch", "fresh: real %d vs model %d" % (real[1], mod[1])
    if real[3] != mod[3]:
        k = next((i for i, (a, b) in enumerate(zip(real[3], mod[3])) if a != b), min(len(real[3]), len(mod[3])))
        return "mismatch", "ll_requests differ at index %d (real %d requests, model %d)" % (k, len(real[3]), len(mod[3]))
    if real[2] == mod[2]:
        return "literal", ""
    if canon(real[2]) == canon(mod[2]):
        return "canonical", "clause lists equal only as sets of sorted clauses"
    return "mismatch", "clause lists differ (real %d clauses, model %d)" % (len(real[2]), len(mod[2]))


def build_real(program):
    """-> (block, None) | (None, reason)"""
    try:
        built = ir.build(program)
        block = ir.main_block(built, program)
    except Exception as e:  # noqa
        return None, "build raised %s" % type(e).__name__
    if block is None:
        return None, "rejected by the constructors"
    return block, None


def features(block):
    """constraint classes of the real block (for coverage reporting)"""
    return sorted(set(type(c).__name__ for c in block.constraints))


def extra_blocks():
    """Blocks built directly with classes the program IR has no syntax for
    (ExactlyKMultipleInARow); (name, description-dict, block)."""
    from sweetpea import Factor, CrossBlock, MinimumTrials
    from sweetpea._internal.constraint import ExactlyKMultipleInARow
    from sweetpea._internal.cross_block import Repeat
    out = []
    for k, t, crossed in [(1, 3, False), (2, 4, False), (2, 5, False), (3, 6, False), (2, 6, True), (3, 2, False)]:
        desc = {"direct": "ExactlyKMultipleInARow", "k": k, "trials": t, "crossed": crossed}
        try:
            with ir.quiet():
                f = Factor("f", ["a", "b"])
                g = Factor("g", ["x", "y", "z"])
                if crossed:
                    blk = Repeat(CrossBlock([f, g], [g], [ExactlyKMultipleInARow(k, (f, "a"))]), [MinimumTrials(t)])
                else:
                    blk = CrossBlock([f], [], [ExactlyKMultipleInARow(k, (f, "a")), MinimumTrials(t)])
            out.append(("direct:ekm-k%d-t%d%s" % (k, t, "-rep" if crossed else ""), desc, blk))
        except Exception:  # noqa
            pass
    return out


def extra_programs():
    """Hand-written programs every compile correspondence run includes: Pin on a trial where a complex
    derived factor has no level (/repo c195977: And([1, -1]) for that trial instead of a shifted variable);
    ExactlyK on a level of a window factor that has no level in any trial of the block (/repo 4d027cb: And([1, -1])
    for k <> 0, nothing for k = 0, instead of an EQ request on an empty variable list)."""
    f = {"id": 0, "name": "f", "kind": "simple", "levels": [["a", 1], ["b", 1]]}
    rep = {"id": 1, "name": "rep", "kind": "derived", "window": {"type": "transition", "deps": [0]},
           "levels": [{"name": "same", "table": [[["a", "a"]], [["b", "b"]]]}, {"name": "diff", "else": True}]}
    win = {"id": 1, "name": "win", "kind": "derived", "window": {"type": "window", "deps": [0], "width": 2, "stride": 2},
           "levels": [{"name": "same", "table": [[["a", "a"]], [["b", "b"]]]}, {"name": "diff", "else": True}]}
    out = []
    for nm, d, idx, t in (("pin0-transition", rep, 0, 4), ("pin-last-strided-window", win, -1, 5),
                          ("pin1-transition", rep, 1, 4), ("pin0-strided-window", win, 0, 5)):
        out.append(("corpus:" + nm, {
            "factors": [f, d],
            "constraints": [{"id": 0, "kind": "Pin", "index": idx, "level": [1, "same"]},
                            {"id": 1, "kind": "MinimumTrials", "trials": t}],
            "blocks": [{"id": 0, "kind": "CrossBlock", "design": [0, 1], "crossing": [0], "constraints": [0, 1], "rcc": True}],
            "main": 0}))
    f0 = {"id": 0, "name": "f0", "kind": "simple", "levels": [["a", 1], ["b", 1]]}
    f1 = {"id": 1, "name": "f1", "kind": "simple", "levels": [["x", 1], ["y", 1]]}
    d2 = {"id": 2, "name": "d2", "kind": "derived",
          "window": {"type": "window", "deps": [1], "width": 2, "stride": 1, "start": 2},
          "levels": [{"name": "same", "table": [[["x", "x"]], [["y", "y"]]]}, {"name": "diff", "else": True}]}
    out.append(("corpus:exactlyk3-no-level-in-any-trial", {
        "factors": [f0, f1, d2],
        "constraints": [{"id": 0, "kind": "ExactlyK", "k": 3, "level": [2, "same"]}],
        "blocks": [{"id": 0, "kind": "CrossBlock", "design": [0, 1, 2], "crossing": [0], "constraints": [0], "rcc": True}],
        "main": 0}))
    return out


def always_blocks():
    """Directly built blocks every compile correspondence run includes: the block of
    'corpus:exactlyk3-no-level-in-any-trial' with k = 0 (the `self.k != 0` test of /repo 4d027cb).  The
    constructor of ExactlyK rejects k = 0 (ValueError), so k is set on the constraint object before the block
    is built; (name, description-dict, block)."""
    from sweetpea import Factor, CrossBlock, DerivedLevel, ElseLevel, Window, ExactlyK
    out = []
    try:
        with ir.quiet():
            f0 = Factor("f0", ["a", "b"])
            f1 = Factor("f1", ["x", "y"])
            d2 = Factor("d2", [DerivedLevel("same", Window(lambda w: w[0] == w[-1], [f1], 2, 1, 2)), ElseLevel("diff")])
            c = ExactlyK(3, (d2, "same"))
            c.k = 0
            blk = CrossBlock([f0, f1, d2], [f0], [c])
        out.append(("direct:exactlyk0-no-level-in-any-trial", {"direct": "ExactlyK", "k": 0, "trials": 2}, blk))
    except Exception:  # noqa
        pass
    return out


def compile_correspondence(ctx, res, programs, full=True, full_cap=4000, blocks=()):
    """Run model and real code on every program.  `programs` is a list of
    program dicts (harness/ir.py format) or (name, program) pairs; `blocks` a
    list of (name, description, real block) built directly."""
    programs = list(extra_programs()) + list(programs)
    blocks = list(always_blocks()) + list(blocks)
    cases = []
    for name, desc, block in blocks:
        try:
            with ir.quiet():
                w = flat.flat_wire(block)
        except Exception as e:  # noqa
            res.extra.setdefault("flat_failures", []).append(type(e).__name__)
            continue
        cases.append((name, desc, block, w))
    for p in programs:
        name, prog = p if isinstance(p, tuple) else (None, p)
        block, why = build_real(prog)
        if block is None:
            res.extra.setdefault("rejected_programs", 0)
            res.extra["rejected_programs"] += 1
            continue
        try:
            with ir.quiet():
                w = flat.flat_wire(block)
        except Exception as e:  # noqa
            res.extra.setdefault("flat_failures", []).append(type(e).__name__)
            continue
        cases.append((name, prog, block, w))
    if not cases:
        return []
    outs = ctx.model(["(compile %s)" % c[3] for c in cases])
    # which cases fall in the fragment F1 of the theorem compile_denotes (Encode/CodeSem.in_f1)
    try:
        frag = ctx.model(["(inf1 %s)" % c[3] for c in cases])
    except Exception:  # noqa
        frag = ["?"] * len(cases)
    fr = res.extra.setdefault("fragment_F1", {"in": 0, "out": 0})
    for x in frag:
        fr["in" if x == "true" else "out"] += 1
    tot = fr["in"] + fr["out"]
    # share of the generated programs on which C01_sound / C02_complete / C03_unique_extension apply as theorems
    res.extra["proved_fragment"] = {"in": fr["in"], "of": tot, "share": round(fr["in"] / tot, 3) if tot else 0.0,
                                    "guard": "CodeSem.in_f1 (evaluated by the extracted model on the flat record of the real block)"}
    mism = []
    stats = res.extra.setdefault("compile_corr", {"literal": 0, "canonical": 0, "model-only": 0, "mismatch": 0,
                                                  "real_errors": {}, "constraint_classes": {}})
    want_full = []
    for (name, prog, block, w), line in zip(cases, outs):
        real = real_compile(block)
        mod = parse_compile(line)
        verdict, detail = compare_compile(real, mod)
        stats[verdict] += 1
        if real[0] == "error":
            stats["real_errors"][real[1]] = stats["real_errors"].get(real[1], 0) + 1
        for cl in features(block):
            stats["constraint_classes"][cl] = stats["constraint_classes"].get(cl, 0) + 1
        ok = verdict in ("literal", "canonical")
        if verdict != "model-only":
            res.layer("L3-compile", ok)
        res.count(("compile", w), nontrivial=real[0] == "ok" and len(real[2]) > 0)
        if verdict == "mismatch":
            mism.append({"layer": "L3-compile", "name": name, "program": prog, "detail": detail})
        elif verdict == "model-only":
            res.extra.setdefault("model_only", []).append({"name": name, "detail": detail})
        elif full and real[0] == "ok" and len(real[2]) + 30 * len(real[3]) <= full_cap:
            want_full.append((name, prog, block, w, real[4]))
    if want_full:
        outs = ctx.model(["(fullcnf %s)" % c[3] for c in want_full])
        for (name, prog, block, w, br), line in zip(want_full, outs):
            real = real_full_cnf(block, br)
            mod = parse_full(line)
            if real[0] == "ok" and mod[0] == "ok":
                ok = real[1] == mod[1] and (real[2] == mod[2] or canon(real[2]) == canon(mod[2]))
                detail = "num_vars real %s model %s; clauses real %d model %d" % (real[1], mod[1], len(real[2]), len(mod[2]))
            else:
                ok = real[0] == mod[0] == "error" and real[1] == mod[1]
                detail = "real %r vs model %r" % (real[:2], mod[:2])
            res.layer("L4-combine", ok)
            if not ok:
                mism.append({"layer": "L4-combine", "name": name, "program": prog, "detail": detail})
    return mism
