"""A batch of analysed programs shared by the design-level checks (C01, C02, C04,
C06-C09, C16, ...): corpus + seeded generated programs, each run through the real
strategies and the reference oracle (designrun.analyse), in parallel.  Cached per
(tier, seed, fingerprint of /repo's sources and of the harness/oracle)."""
import multiprocessing
import os
import pickle
import random
import time

import common
import designrun
import gen_design


def _analyse(arg):
    name, program = arg
    try:
        r = designrun.analyse(program)
        r["name"] = name
        return r
    except Exception as e:  # noqa
        import traceback
        return {"name": name, "program": program, "harness_error": traceback.format_exc()[-800:]}


def programs_for(tier, seed):
    rng = random.Random(seed * 7919 + 17)
    progs = [(n, p) for n, p in gen_design.corpus()]
    n = 140 if tier == "quick" else 1500
    space = 20000 if tier == "quick" else 120000
    for i in range(n):
        p = gen_design.gen_program(rng, max_space=space)
        if p is not None:
            progs.append(("gen-%d" % i, p))
    return progs


def get_batch(ctx):
    fp = designrun.repo_fingerprint()
    cdir = os.path.join(common.VERIF, ".cache")
    os.makedirs(cdir, exist_ok=True)
    path = os.path.join(cdir, "batch-%s-%d-%s.pkl" % (ctx.tier, ctx.seed, fp))
    if os.path.exists(path):
        try:
            return pickle.load(open(path, "rb"))
        except Exception:  # noqa
            pass
    progs = programs_for(ctx.tier, ctx.seed)
    t0 = time.time()
    with multiprocessing.Pool(14) as pool:
        batch = pool.map(_analyse, progs, chunksize=2)
    meta = {"wall": time.time() - t0, "n": len(batch)}
    # drop stale caches of the same tier/seed
    for f in os.listdir(cdir):
        if f.startswith("batch-%s-%d-" % (ctx.tier, ctx.seed)):
            try:
                os.remove(os.path.join(cdir, f))
            except OSError:
                pass
    pickle.dump((batch, meta), open(path, "wb"))
    return batch, meta


# --------------------------------------------------------------------------- shrinking and signatures

def constraint_kinds(program):
    kinds = []
    used = set()
    for b in program["blocks"]:
        used.update(b.get("constraints", []))
    for c in program.get("constraints", []):
        if c["id"] in used:
            kinds.append(c["kind"])
    return sorted(set(kinds))


def shape(program):
    return {b["id"]: b for b in program["blocks"]}[program["main"]]["kind"]


def drop_constraint(program, cid):
    import copy
    p = copy.deepcopy(program)
    for b in p["blocks"]:
        if cid in b.get("constraints", []):
            b["constraints"] = [c for c in b["constraints"] if c != cid]
    return p


def shrink(program, still_fails, max_steps=40):
    """Greedy removal of constraints while `still_fails(program)` holds."""
    cur = program
    steps = 0
    changed = True
    while changed and steps < max_steps:
        changed = False
        used = []
        for b in cur["blocks"]:
            used += b.get("constraints", [])
        for cid in used:
            cand = drop_constraint(cur, cid)
            steps += 1
            try:
                if still_fails(cand):
                    cur = cand
                    changed = True
                    break
            except Exception:  # noqa
                pass
    return cur


def features(program):
    feats = []
    for f in program["factors"]:
        if f["kind"] == "derived":
            feats.append(f["window"]["type"])
        if f["kind"] == "simple" and any(w != 1 for _, w in f["levels"]):
            feats.append("weighted")
    return sorted(set(feats))


def signature(prefix, program):
    return "%s:%s:%s" % (prefix, shape(program), "+".join(constraint_kinds(program)) or "none")
