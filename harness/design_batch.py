"""A batch of analysed programs shared by the design-level checks (C01, C02, C04,
C06-C09, C16, ...): corpus + seeded generated programs, each run through the real
strategies and the reference oracle (designrun.analyse), in parallel.  Cached per
(tier, seed, fingerprint of /repo's sources and of the harness/oracle)."""
import multiprocessing
import os
import pickle
import random
import time

import common
import designrun
import gen_design


def _analyse(arg):
    name, program = arg
    try:
        r = designrun.analyse(program)
        r["name"] = name
        return r
    except Exception as e:  # noqa
        import traceback
        return {"name": name, "program": program, "harness_error": traceback.format_exc()[-800:]}


def programs_for(tier, seed):
    rng = random.Random(seed * 7919 + 17)
    progs = [(n, p) for n, p in gen_design.corpus()]
    n = 140 if tier == "quick" else 1500
    space = 20000 if tier == "quick" else 120000
    for i in range(n):
        p = gen_design.gen_program(rng, max_space=space)
        if p is not None:
            progs.append(("gen-%d" % i, p))
    return progs


def get_batch(ctx):
    fp = designrun.repo_fingerprint()
    cdir = os.path.join(common.VERIF, ".cache")
    os.makedirs(cdir, exist_ok=True)
    path = os.path.join(cdir, "batch-%s-%d-%s.pkl" % (ctx.tier, ctx.seed, fp))
    if os.path.exists(path):
        try:
            return pickle.load(open(path, "rb"))
        except Exception:  # noqa
            pass
    progs = programs_for(ctx.tier, ctx.seed)
    t0 = time.time()
    with multiprocessing.Pool(14) as pool:
        batch = pool.map(_analyse, progs, chunksize=2)
    meta = {"wall": time.time() - t0, "n": len(batch)}
    # drop stale caches of the same tier/seed
    for f in os.listdir(cdir):
        if f.startswith("batch-%s-%d-" % (ctx.tier, ctx.seed)):
            try:
                os.remove(os.path.join(cdir, f))
            except OSError:
                pass
    pickle.dump((batch, meta), open(path, "wb"))
    return batch, meta


# --------------------------------------------------------------------------- shrinking and signatures

def constraint_kinds(program):
    kinds = []
    used = set()
    for b in program["blocks"]:
        used.update(b.get("constraints", []))
    for c in program.get("constraints", []):
        if c["id"] in used:
            kinds.append(c["kind"])
    return sorted(set(kinds))


def shape(program):
    return {b["id"]: b for b in program["blocks"]}[program["main"]]["kind"]


def drop_constraint(program, cid):
    import copy
    p = copy.deepcopy(program)
    for b in p["blocks"]:
        if cid in b.get("constraints", []):
            b["constraints"] = [c for c in b["constraints"] if c != cid]
    return p


def droppable_factors(program):
    used_c = set()
    for b in program["blocks"]:
        used_c.update(b.get("constraints", []))
    pinned = set()
    for b in program["blocks"]:
        for c in ([b.get("crossing", [])] + b.get("crossings", [])):
            pinned.update(c)
    for c in program.get("constraints", []):
        if c["id"] in used_c:
            if "level" in c:
                pinned.add(c["level"][0])
            if "factor" in c:
                pinned.add(c["factor"])
            pinned.update(c.get("factors", []))
    in_design = set()
    for b in program["blocks"]:
        in_design.update(b.get("design", []))
    for f in program["factors"]:
        if f["kind"] == "derived" and f["id"] in in_design:
            pinned.update(f["window"]["deps"])
    return [f for f in in_design if f not in pinned]


def drop_factor(program, fid):
    import copy
    p = copy.deepcopy(program)
    for b in p["blocks"]:
        if "design" in b:
            b["design"] = [f for f in b["design"] if f != fid]
    return p


def shrink(program, still_fails, max_steps=60):
    """Greedy removal of constraints and unused design factors while `still_fails(program)` holds."""
    cur = program
    steps = 0
    changed = True
    while changed and steps < max_steps:
        changed = False
        used = []
        for b in cur["blocks"]:
            used += b.get("constraints", [])
        cands = [drop_constraint(cur, cid) for cid in used] + [drop_factor(cur, f) for f in droppable_factors(cur)]
        for cand in cands:
            steps += 1
            try:
                if still_fails(cand):
                    cur = cand
                    changed = True
                    break
            except Exception:  # noqa
                pass
    return cur


def features(program):
    feats = []
    in_design = set()
    for b in program["blocks"]:
        in_design.update(b.get("design", []))
    crossed = set()
    for b in program["blocks"]:
        for c in ([b.get("crossing", [])] + b.get("crossings", [])):
            crossed.update(c)
    for f in program["factors"]:
        if f["id"] not in in_design:
            continue
        if f["kind"] == "derived" and f["id"] in crossed:
            feats.append("crossed-" + f["window"]["type"])
        if f["kind"] == "simple" and any(w != 1 for _, w in f["levels"]):
            feats.append("weighted-crossed" if f["id"] in crossed else "weighted-uncrossed")
        if f["kind"] == "derived":
            feats.append(f["window"]["type"])
        if f["kind"] == "simple" and any(w != 1 for _, w in f["levels"]):
            feats.append("weighted")
    return sorted(set(feats))


def signature(prefix, program):
    return "%s:%s:%s:%s" % (prefix, shape(program), "+".join(constraint_kinds(program)) or "none",
                            "+".join(features(program)) or "plain")
