"""Run one program through the real library and the reference oracle.

analyse(program) -> dict with
  doc:      "ok" | ("unsupported", why)
  build:    "ok" | ("error", Exc, msg)
  T_doc, space, oracle (set of name-level keys) / oracle_count
  real[strategy] = ("ok", [keys...] (in order returned), show_errors?) | ("error", Exc, msg)
Every returned sequence is judged by the oracle separately (valid flags).
"""
import json
import os
import pickle
import hashlib
import time

import common
import docsem
import ir

MAX_REQUEST = 4000
STRATEGY_TIMEOUT = 90
STRATEGY_TIMEOUT_AFTER = 25   # once a strategy has timed out three times in this run
_TIMEOUTS = {}


def oracle_all(ds):
    line = "(allvalid %s)" % docsem.to_wire(ds.sem)
    out = common.run_model([line], domain="Design")[0]
    if out.startswith("!"):
        raise RuntimeError("oracle failed: " + out)
    r = common.parse_sexp(out)
    return r[0], r[1]


def oracle_valid(ds, seqs):
    if not seqs:
        return []
    line = "(valid %s %s)" % (docsem.to_wire(ds.sem), docsem.to_wire(seqs))
    out = common.run_model([line], domain="Design")[0]
    if out.startswith("!"):
        raise RuntimeError("oracle failed: " + out)
    return [x == "true" for x in common.parse_sexp(out)[0]]


def oracle_why(ds, seq):
    line = "(why %s %s)" % (docsem.to_wire(ds.sem), docsem.to_wire(seq))
    return common.run_model([line], domain="Design")[0]


def analyse(program, strategies=("IterateSATGen", "RandomGen"), want_oracle=True, request=None):
    res = {"program": program, "real": {}}
    try:
        ds = docsem.doc_sem(program)
        res["doc"] = "ok"
        res["T_doc"] = ds.T
    except docsem.Unsupported as e:
        ds = None
        res["doc"] = ("unsupported", str(e))
    built = ir.build(program)
    blk = ir.main_block(built, program)
    if blk is None:
        res["build"] = built.errors.get(("block", program["main"])) or ("error", "Dependency", repr(built.errors)[:200])
        res["build_errors"] = {repr(k): v for k, v in built.errors.items()}
        return res
    res["build"] = "ok"
    with ir.quiet():
        try:
            res["T_real"] = blk.trials_per_sample()
        except Exception as e:  # noqa
            res["T_real"] = ("error", type(e).__name__)
    names = ir.user_factor_names(program)
    res["names"] = names
    oracle_keys = None
    if ds is not None and want_oracle:
        space, seqs = oracle_all(ds)
        res["space"] = space
        oracle_keys = [ir.names_to_key(docsem.sample_of_seq(ds, q), names) for q in seqs]
        res["oracle"] = oracle_keys
        res["oracle_mult"] = [name_multiplicity(program, ds, q) for q in seqs]
    n = request
    if n is None:
        n = MAX_REQUEST if oracle_keys is None else min(MAX_REQUEST, sum(res["oracle_mult"]) + 3)
    res["requested"] = n
    for s in strategies:
        # a fresh build per strategy: properties about reuse are checked elsewhere
        t0 = time.time()
        # in a forked child with a time limit: a sampler may never return (RandomGen draws
        # until it has seen every candidate key it believes exists) or terminate the process
        limit = STRATEGY_TIMEOUT if _TIMEOUTS.get(s, 0) < 3 else STRATEGY_TIMEOUT_AFTER
        r = ir.synthesize_isolated(program, n, s, timeout=limit)
        if r[0] == "crash":
            if r[1] == "timeout":
                _TIMEOUTS[s] = _TIMEOUTS.get(s, 0) + 1
            r = ("error", "Timeout" if r[1] == "timeout" else "ProcessTerminated",
                 "no result within %d s" % limit if r[1] == "timeout" else "process status %s" % r[1])
        if r[0] == "ok":
            keys = []
            bad_shape = None
            for smp in r[1]:
                try:
                    keys.append(ir.names_to_key(smp, names))
                except Exception as e:  # noqa
                    bad_shape = "returned dict lacks a user factor: %r" % (sorted(map(str, smp.keys())),)
                    break
            extra_keys = sorted(set(str(k) for smp in r[1] for k in smp.keys()) - set(names))
            res["real"][s] = {"status": "ok", "keys": keys, "bad_shape": bad_shape, "extra_keys": extra_keys,
                              "outside_domain": [], "wall": time.time() - t0}
            if ds is not None and keys:
                seqs = []
                unk = False
                for smp in r[1]:
                    q = docsem.seq_of_sample(ds, smp)
                    if q is None:
                        unk = True
                        q = [[-1] * ds.T for _ in ds.forder]
                    seqs.append(q)
                res["real"][s]["valid"] = oracle_valid(ds, seqs)
                res["real"][s]["unknown_level"] = unk
        else:
            res["real"][s] = {"status": "error", "exc": r[1], "msg": r[2]}
    return res


def name_multiplicity(program, ds, seq):
    """How many object-level solutions print as this name-level sequence: the
    product over trials of the weights of the chosen levels of weighted
    non-derived factors that are in no crossing (Level documentation)."""
    crossed = set()
    for c in ds.block.crossings:
        crossed.update(c["factors"])
    m = 1
    for f, row in zip(ds.forder, seq):
        if f in crossed:
            continue
        fd = [x for x in program["factors"] if x["id"] == f][0]
        if fd["kind"] != "simple":
            continue
        w = ds.weights[f]
        for v in row:
            if v >= 0:
                m *= w[v]
    return m


def repo_fingerprint():
    h = hashlib.sha1()
    root = os.path.join(common.REPO, "sweetpea")
    for d, _, files in sorted(os.walk(root)):
        for f in sorted(files):
            if f.endswith(".py"):
                p = os.path.join(d, f)
                h.update(p.encode())
                h.update(open(p, "rb").read())
    for f in ("docsem.py", "ir.py", "gen_design.py", "designrun.py"):
        h.update(open(os.path.join(common.VERIF, "harness", f), "rb").read())
    h.update(open(os.path.join(common.COQ, "theories", "Design", "Sem.v"), "rb").read())
    return h.hexdigest()[:16]
