"""doc_sem: program -> Sem, the semantic normal form of Design/Sem.v, written from
the documentation (docs/_source/api/main.rst, constraints.rst, derivations.rst,
factors.rst and the guide) - see DESIGN.md Appendix B for the reading decisions.
Never reads numbers from a real block object.

Returns a DocSem with .sem (nested lists in the wire format of
extract/drv_design.ml), .forder (factor ids in Sem order), .levels (fid -> level
names) or raises Unsupported for programs outside the documented fragment this
module understands (counted by the callers, never silently dropped).
"""
import itertools
import math


class Unsupported(Exception):
    pass


class DocSem:
    pass


def ceil_div(a, b):
    return -((-a) // b)


def _fmap(program):
    return {f["id"]: f for f in program["factors"]}


def level_names(fd):
    if fd["kind"] == "simple":
        return [n for n, _ in fd["levels"]]
    return [l["name"] for l in fd["levels"]]


def level_weights(fd):
    if fd["kind"] == "simple":
        return [w for _, w in fd["levels"]]
    return [l.get("weight", 1) for l in fd["levels"]]


def window_params(program, fd):
    """(deps, width, stride, start) with the documented default start: the first
    trial where every depended-on factor is defined for the whole window."""
    fm = _fmap(program)
    w = fd["window"]
    if w["type"] == "within":
        width, stride, start = 1, 1, None
    elif w["type"] == "transition":
        width, stride, start = 2, 1, 1
    else:
        width, stride, start = w["width"], w.get("stride", 1), w.get("start")
    default = width - 1
    for d in w["deps"]:
        dd = fm[d]
        if dd["kind"] == "derived":
            _, dw, ds, dstart = window_params(program, dd)
            if is_complex(program, dd):
                default = max(default, dstart + width - 1)
    if start is None:
        start = default
    return (list(w["deps"]), width, stride, start)


def is_complex(program, fd):
    if fd["kind"] != "derived":
        return False
    fm = _fmap(program)
    deps, width, stride, start = window_params(program, fd)
    return width > 1 or stride > 1 or start > 0 or is_complex(program, fm[deps[0]])


def accepted_tables(program, fd):
    """Per level: list of accepted windows (tuples of tuples of names/None); an
    else-level accepts every window of the argument domain no other level does."""
    fm = _fmap(program)
    deps, width, stride, start = window_params(program, fd)
    doms = []
    for d in deps:
        names = level_names(fm[d])
        dd = fm[d]
        for j in range(width):
            doms.append(names + [None])
    explicit = []
    for lev in fd["levels"]:
        if lev.get("else"):
            explicit.append(None)
        else:
            explicit.append(set(tuple(tuple(x) for x in e) for e in lev.get("table", [])))
    union = set()
    for e in explicit:
        if e is not None:
            union |= e
    out = []
    for e in explicit:
        if e is None:
            acc = []
            for flat in itertools.product(*doms):
                cols = tuple(tuple(flat[i * width:(i + 1) * width]) for i in range(len(deps)))
                if cols not in union:
                    acc.append(cols)
            out.append(acc)
        else:
            out.append(sorted(e, key=repr))
    return out


class BlockDoc:
    """What the documentation says about one block expression."""

    def __init__(self):
        self.design = []        # fids (discrete, user declared)
        self.crossings = []     # dicts: factors, S (size), P (preamble), su (sustain), cw, combos {names tuple: weight}, rcc
        self.T = 0
        self.P = 0              # common preamble (of the first crossing), used for repetition windows
        self.constraints = []   # (cdesc, scope) scope = None (whole sequence) | (T_b, P_b, scale)
        self.min_trials = 0
        self.alignment = "equal preamble"
        self.sustain = {}       # fid -> sustain count
        self.rcc = True


def _within_value(program, fm, fd, assign, memo):
    """Level name of within-trial derived factor fd under a single-trial assignment of names, or None."""
    if fd["id"] in memo:
        return memo[fd["id"]]
    deps, width, stride, start = window_params(program, fd)
    args = []
    for d in deps:
        dd = fm[d]
        if dd["kind"] == "derived":
            if is_complex(program, dd):
                memo[fd["id"]] = None
                return None
            v = _within_value(program, fm, dd, assign, memo)
        else:
            v = assign.get(d)
        if v is None:
            memo[fd["id"]] = None
            return None
        args.append((v,))
    tabs = accepted_tables(program, fd)
    names = level_names(fd)
    hit = [names[i] for i, t in enumerate(tabs) if tuple(args) in set(t)]
    r = hit[0] if len(hit) == 1 else None
    memo[fd["id"]] = r
    return r


def feasible_combos(program, design, crossing, excludes):
    """combos (tuples of level names of the crossed factors) -> weight, for the
    combinations that can occur in a single trial (within-trial structure only)."""
    fm = _fmap(program)
    basics = [f for f in design if fm[f]["kind"] == "simple"]
    # derived factors whose dependencies lie outside the design still need their basic factors
    extra = []

    def collect(fid):
        fd = fm[fid]
        if fd["kind"] == "derived":
            for d in fd["window"]["deps"]:
                collect(d)
        elif fd["kind"] == "simple" and fid not in basics and fid not in extra:
            extra.append(fid)
    for f in design:
        collect(f)
    allb = basics + extra
    within = [f for f in design if fm[f]["kind"] == "derived" and not is_complex(program, fm[f])]
    # Reading decision (documentation silent): an Exclude of a level of a basic
    # factor that is NOT crossed does not shrink the crossing, even if it makes a
    # crossed derived level impossible (the design then simply has fewer or no
    # valid sequences); excludes of crossed levels and of derived levels do.
    excl = set((f, n) for f, n in excludes if f in crossing or fm[f]["kind"] == "derived")   # (fid, level name)
    feasible = {}
    doms = [level_names(fm[b]) for b in allb]
    for vals in itertools.product(*doms):
        assign = dict(zip(allb, vals))
        if any((b, v) in excl for b, v in assign.items() if b in design):
            continue
        memo = {}
        ok = True
        wv = {}
        for f in within:
            v = _within_value(program, fm, fm[f], assign, memo)
            if v is None or (f, v) in excl:
                ok = False
                break
            wv[f] = v
        if not ok:
            continue
        # complex crossed factors: every level possible unless excluded
        combo_parts = []
        for f in crossing:
            fd = fm[f]
            if fd["kind"] == "simple":
                combo_parts.append([assign[f]])
            elif f in wv:
                combo_parts.append([wv[f]])
            else:
                combo_parts.append([n for n in level_names(fd) if (f, n) not in excl])
        for combo in itertools.product(*combo_parts):
            w = 1
            for f, n in zip(crossing, combo):
                fd = fm[f]
                w *= level_weights(fd)[level_names(fd).index(n)]
            feasible[combo] = w
    return feasible


def crossing_preamble(program, crossing):
    fm = _fmap(program)
    p = 0
    for f in crossing:
        fd = fm[f]
        if fd["kind"] == "derived":
            p = max(p, window_params(program, fd)[3])
    return p


def _cdesc(program, cid):
    return {c["id"]: c for c in program["constraints"]}[cid]


def expand_constraint(program, c):
    """A constraint on a whole factor is a shorthand for one constraint per level."""
    fm = _fmap(program)
    if c["kind"] in ("AtMostKInARow", "AtLeastKInARow", "ExactlyKInARow"):
        # Reading decision 8 (Appendix B): the documentation does not say whether two applications of a
        # strided window factor (stride > 1: trials in between carry no level) are "in a row".  The code
        # counts consecutive applications; Sem.runs breaks a run at an empty cell.  Such programs are
        # outside the reference semantics rather than judged by either reading.
        fid = c["factor"] if "factor" in c else c["level"][0]
        fd = fm[fid]
        if fd["kind"] == "derived" and fd["window"]["type"] == "window" and (fd["window"].get("stride") or 1) > 1:
            raise Unsupported("run-length constraint on a strided factor: documentation silent")
    if c["kind"] in ("AtMostKInARow", "AtLeastKInARow", "ExactlyKInARow", "ExactlyK") and "factor" in c:
        return [dict(c, level=[c["factor"], n], **{"factor_shorthand": True}) for n in level_names(fm[c["factor"]])]
    return [c]


def doc_block(program, bid):
    fm = _fmap(program)
    blk = {b["id"]: b for b in program["blocks"]}[bid]
    k = blk["kind"]
    cs = [_cdesc(program, c) for c in blk.get("constraints", [])]
    if k in ("CrossBlock", "MultiCrossBlock"):
        bd = BlockDoc()
        bd.design = [f for f in blk["design"] if fm[f]["kind"] != "continuous"]
        bd.rcc = blk.get("rcc", True)
        crossings = [blk["crossing"]] if k == "CrossBlock" else blk["crossings"]
        crossings = [c for c in crossings if c]
        excludes = []
        for c in cs:
            if c["kind"] == "Exclude":
                excludes.append((c["level"][0], c["level"][1]))
        mode = "weight" if k == "CrossBlock" else blk.get("mode", "equal")
        bd.alignment = blk.get("alignment", "equal preamble") if k == "MultiCrossBlock" else "equal preamble"
        for cr in crossings:
            allc = {}
            for combo in itertools.product(*[level_names(fm[f]) for f in cr]):
                w = 1
                for f, n in zip(cr, combo):
                    w *= level_weights(fm[f])[level_names(fm[f]).index(n)]
                allc[combo] = w
            feas = feasible_combos(program, bd.design, cr, excludes)
            complete = set(feas) == set(allc)
            if bd.rcc:
                combos = allc          # every combination required; impossible ones make the design unsatisfiable
                S = sum(allc.values())  # "reduced by excluded or impossible combinations [only] when complete crossing is not required"
            else:
                combos = feas
                S = sum(feas.values())
            bd.crossings.append({"factors": list(cr), "S": S, "P": crossing_preamble(program, cr), "su": 1, "cw": 1,
                                 "combos": combos, "complete": complete, "rcc_required": bd.rcc})
        bd.min_trials = max([c["trials"] for c in cs if c["kind"] == "MinimumTrials"] + [0])
        _finish(program, bd, mode)
        for c in cs:
            if c["kind"] != "MinimumTrials":
                bd.constraints.append((c, None))
        return bd
    if k == "Repeat":
        inner = doc_block(program, blk["block"])
        return _merge(program, [inner], cs, "repeat", "equal preamble")
    if k == "Merge":
        inners = [doc_block(program, x) for x in blk["blocks"]]
        al = blk.get("alignment")
        if al is None:
            al = inners[0].alignment
        return _merge(program, inners, cs, blk.get("mode", "repeat"), al)
    if k == "Nest":
        outer = doc_block(program, blk["outer"])
        inner = doc_block(program, blk["inner"])
        if any(c["P"] for c in outer.crossings + inner.crossings):
            raise Unsupported("Nest with preamble trials")
        inner_len = inner.T - inner.P
        scaled = BlockDoc()
        scaled.design = list(outer.design)
        scaled.rcc = outer.rcc
        scaled.alignment = outer.alignment
        for c in outer.crossings:
            scaled.crossings.append(dict(c, su=c["su"] * inner_len))
        scaled.sustain = {f: n * inner_len for f, n in outer.sustain.items()}
        for c in outer.crossings:
            for f in c["factors"]:
                scaled.sustain[f] = c["su"] * inner_len
        scaled.T = outer.T * inner_len
        scaled.P = outer.P * inner_len
        scaled.min_trials = outer.min_trials * inner_len
        scaled.constraints = [(c, ("scaled", sc, inner_len)) for c, sc in outer.constraints]
        al = blk.get("alignment") or outer.alignment
        return _merge(program, [scaled, inner], cs, "repeat", al, nest=True)
    raise Unsupported(k)


def _finish(program, bd, mode):
    """Trial count and crossing weights of a (multi-)cross block."""
    if bd.alignment == "post preamble":
        maxp = max([c["P"] for c in bd.crossings] + [0])
        T = maxp + max([c["S"] * c["su"] for c in bd.crossings] + [0])
    else:
        T = max([(c["P"] + c["S"]) * c["su"] for c in bd.crossings] + [0])
    T = max(T, 1)
    m = bd.min_trials
    for c in bd.crossings:
        if m % c["su"]:
            m = (m // c["su"] + 1) * c["su"]
    bd.T = max(T, m)
    bd.P = (bd.crossings[0]["P"] * bd.crossings[0]["su"]) if bd.crossings else 0
    if bd.alignment == "post preamble" and bd.crossings:
        # every crossing of a POST_PREAMBLE block starts after the unified preamble: that is the block's
        # preamble (with the first crossing's own preamble instead, Merge([b]) would move b's constraint
        # windows although the documentation says Merge([b]) = b; found by T2.v ex_post_preamble_merge_differs)
        bd.P = max(c["P"] * c["su"] for c in bd.crossings)
    if bd.alignment == "equal preamble" and len(set(c["P"] for c in bd.crossings)) > 1:
        raise Unsupported("constructor rejects: EQUAL_PREAMBLE with different preambles")
    if mode != "repeat":
        for c in bd.crossings:
            if c["S"] == 0:
                continue
            w = ceil_div(bd.T // c["su"] - c["P"], c["S"])
            if w != c["cw"]:
                if mode == "equal":
                    raise Unsupported("constructor rejects: EQUAL with different sizes")
                c["cw"] = w


def _merge(program, inners, cs, mode, alignment, nest=False):
    bd = BlockDoc()
    bd.alignment = alignment
    for b in inners:
        if b.alignment != alignment and not nest:
            raise Unsupported("constructor rejects: different alignments")
        for f in b.design:
            if f not in bd.design:
                bd.design.append(f)
        for c in b.crossings:
            bd.crossings.append(dict(c))
        bd.sustain.update(b.sustain)
        bd.rcc = bd.rcc and b.rcc
    bd.min_trials = max([c["trials"] for c in cs if c["kind"] == "MinimumTrials"] + [b.min_trials for b in inners] + [0])
    _finish(program, bd, mode)
    maxp = max([c["P"] * c["su"] for c in bd.crossings] + [0])
    for b in inners:
        off = (maxp - b.P) if alignment == "post preamble" else 0
        for c, sc in b.constraints:
            # the block's own scope: each repetition of the block, with the preceding preamble trials
            bd.constraints.append((c, ("rep", sc, b.T, b.P, off)))
    for c in cs:
        if c["kind"] != "MinimumTrials":
            bd.constraints.append((c, None))
    return bd


def scope_windows(scope, T):
    """Trial ranges over which a constraint applies, and the trial-group scale."""
    if scope is None:
        return [(0, T)], 1
    if scope[0] == "rep":
        _, inner, Tb, Pb, off = scope
        base, scale = scope_windows(inner, Tb)
        out = []
        step = Tb - Pb
        if step <= 0:
            raise Unsupported("degenerate repetition step")
        start = off
        while start < T - Pb:
            for a, b in base:
                lo, hi = start + a, min(start + b, T)
                if lo < hi:
                    out.append((lo, hi))
            start += step
        return out, scale
    if scope[0] == "scaled":
        _, inner, n = scope
        base, scale = scope_windows(inner, T // n)
        return [(a * n, b * n) for a, b in base], scale * n
    raise Unsupported(repr(scope))


def doc_sem(program, bid=None):
    fm = _fmap(program)
    bid = program["main"] if bid is None else bid
    bd = doc_block(program, bid)
    # factor order: non-derived first (design order), then derived by dependency depth
    def depth(fid):
        fd = fm[fid]
        if fd["kind"] != "derived":
            return 0
        return 1 + max(depth(d) for d in fd["window"]["deps"])
    needed = list(bd.design)
    for f in list(needed):
        stack = [f]
        while stack:
            x = stack.pop()
            if fm[x]["kind"] == "derived":
                for d in fm[x]["window"]["deps"]:
                    if d not in needed:
                        raise Unsupported("derived factor depends on a factor outside the design")
                    stack.append(d)
    forder = sorted(needed, key=lambda f: (depth(f), needed.index(f)))
    pos = {f: i for i, f in enumerate(forder)}
    T = bd.T
    factors = []
    for f in forder:
        fd = fm[f]
        su = bd.sustain.get(f, 1)
        if fd["kind"] == "simple":
            factors.append([len(fd["levels"]), su, None])
        else:
            deps, width, stride, start = window_params(program, fd)
            if su > 1 and any(bd.sustain.get(d, 1) != su for d in deps):
                # Reading decision 10 / oracle limitation: Sem reads the window of a held (sustained) derived
                # factor at the start of each group only; when a dependency is not held with it (a crossed
                # derived factor of a Nest's outer block over uncrossed factors) the definition has to hold
                # in every trial, which Sem does not express.  Such programs are outside the oracle.
                raise Unsupported("held derived factor over dependencies that are not held with it: outside the reference semantics")
            tabs = accepted_tables(program, fd)
            enc = []
            for t in tabs:
                rows = []
                for cols in t:
                    row = []
                    for d, col in zip(deps, cols):
                        names = level_names(fm[d])
                        row.append([(-1 if n is None else names.index(n)) for n in col])
                    rows.append(row)
                enc.append(rows)
            factors.append([len(fd["levels"]), su, [[pos[d] for d in deps], width, stride, start, enc]])
    crossings = []
    maxp = max([c["P"] * c["su"] for c in bd.crossings] + [0])
    for c in bd.crossings:
        first = maxp if bd.alignment == "post preamble" else c["P"] * c["su"]
        chunk = c["S"] * c["cw"] * c["su"]
        if chunk <= 0:
            raise Unsupported("empty crossing")
        mult = []
        for combo, w in sorted(c["combos"].items()):
            idx = [level_names(fm[f]).index(n) for f, n in zip(c["factors"], combo)]
            mult.append([idx, w * c["cw"] * c["su"]])
        crossings.append([[pos[f] for f in c["factors"]], first, chunk, mult])
    constraints = []
    for c0, scope in bd.constraints:
        for c in expand_constraint(program, c0):
            wins, scale = scope_windows(scope, T)
            kind = c["kind"]
            if kind in ("AtMostKInARow", "AtLeastKInARow", "ExactlyKInARow", "ExactlyK"):
                fid, ln = c["level"]
                tag = {"AtMostKInARow": "atmost", "AtLeastKInARow": "atleast", "ExactlyKInARow": "exactlyrow",
                       "ExactlyK": "exactlyk"}[kind]
                k = c["k"] * (scale if kind == "ExactlyK" else 1)
                constraints.append([[_A(tag), k], pos[fid], level_names(fm[fid]).index(ln), [list(w) for w in wins]])
            elif kind == "Exclude":
                fid, ln = c["level"]
                constraints.append([[_A("exclude")], pos[fid], level_names(fm[fid]).index(ln), []])
            elif kind == "Pin":
                fid, ln = c["level"]
                su = bd.sustain.get(fid, 1)
                constraints.append([[_A("pin"), c["index"], su], pos[fid], level_names(fm[fid]).index(ln),
                                    [list(w) for w in wins]])
            elif kind == "Sequential":
                fid = c["factor"]
                first = 0
                for cr in bd.crossings:
                    if fid in cr["factors"]:
                        first = maxp if bd.alignment == "post preamble" else cr["P"] * cr["su"]
                constraints.append([[_A("seqn"), first, bd.sustain.get(fid, 1)], pos[fid], 0, []])
            elif kind == "LatinSquare":
                fids = c["factors"]
                if len(fids) > 1:
                    n = max(len(fm[f]["levels"]) for f in fids)
                    main = [f for f in fids if len(fm[f]["levels"]) == n][-1]
                    others = [[pos[f], len(fm[f]["levels"])] for f in fids if f != main]
                    first = 0
                    for cr in bd.crossings:
                        if fids[0] in cr["factors"]:
                            first = maxp if bd.alignment == "post preamble" else cr["P"] * cr["su"]
                    constraints.append([[_A("latin"), others, n, first, bd.sustain.get(fids[0], 1)], pos[main], 0, []])
            elif kind in ("ContinuousConstraint", "MinimumTrials"):
                pass
            else:
                raise Unsupported(kind)
    # require_complete_crossing with combinations that cannot occur: the documentation
    # says every combination must appear, so the design has no valid sequence
    unsat = any((not c.get("complete", True)) and c.get("rcc_required", False) for c in bd.crossings)
    if unsat and forder:
        constraints.append([[_A("exactlyk"), T + 1], 0, 0, [[0, T]]])
    ds = DocSem()
    ds.unsat = unsat
    ds.sem = [T, factors, crossings, constraints]
    ds.forder = forder
    ds.levels = {f: level_names(fm[f]) for f in forder}
    ds.names = {f: fm[f]["name"] for f in forder}
    ds.T = T
    ds.block = bd
    ds.weights = {f: level_weights(fm[f]) for f in forder}
    return ds


class _A:
    """bare atom on the wire"""

    def __init__(self, s):
        self.s = s


def to_wire(x):
    if x is None:
        return "none"
    if isinstance(x, _A):
        return x.s
    if isinstance(x, bool):
        return "true" if x else "false"
    if isinstance(x, int):
        return str(x)
    if isinstance(x, str):
        return '"' + x.replace("\\", "\\\\").replace('"', '\\"') + '"'
    if isinstance(x, (list, tuple)):
        return "(" + " ".join(to_wire(y) for y in x) + ")"
    raise TypeError(repr(x))


def seq_of_sample(ds, sample):
    """Name-level experiment dict -> index sequence in Sem factor order
    (None if it mentions an unknown level name or lacks a factor)."""
    rows = []
    for f in ds.forder:
        name = ds.names[f]
        if name not in sample:
            return None
        row = []
        for v in sample[name]:
            if v == "":
                row.append(-1)
            elif v in ds.levels[f]:
                row.append(ds.levels[f].index(v))
            else:
                return None
        rows.append(row)
    return rows


def sample_of_seq(ds, seq):
    return {ds.names[f]: [("" if v < 0 else ds.levels[f][v]) for v in row] for f, row in zip(ds.forder, seq)}
