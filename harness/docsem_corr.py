"""Correspondence of the two renderings of the documented semantics of a program:
harness/docsem.py (Python) and coq/theories/Design/DocSem.v (Gallina, extracted:
extract/spmodel_DocSem, command `(docsem PROGRAM)`).

program_wire(program)  JSON program -> S-expression of DocSem.program
compare(programs)      -> list of (index, python_result, coq_result) on which the two differ
A result is ("ok", T, forder, unsat, sem_wire) | ("unsupported", message) | ("crash", what).

Run as a script: compares gen_design.corpus() and N generated programs.
"""
import os
import sys

sys.path.insert(0, os.path.dirname(os.path.abspath(__file__)))

import common   # noqa: E402
import docsem   # noqa: E402


class NotAProgram(Exception):
    """The JSON value is outside the Gallina datatype (negative size, cyclic
    block reference, unknown block kind / mode / alignment ...)."""


def _s(x):
    if not isinstance(x, str):
        raise NotAProgram("string expected: %r" % (x,))
    return '"' + x.replace("\\", "\\\\").replace('"', '\\"') + '"'


def _n(x):
    if isinstance(x, bool) or not isinstance(x, int) or x < 0:
        raise NotAProgram("natural number expected: %r" % (x,))
    return str(x)


def _l(xs):
    return "(" + " ".join(xs) + ")"


def _b(x):
    return "true" if x else "false"


_AL = {"equal preamble": "equal", "parallel start": "parallel", "post preamble": "post"}
_MODE = {"weight": "weight", "repeat": "repeat", "equal": "equal"}
_ROW = {"AtMostKInARow": "atmost", "AtLeastKInARow": "atleast", "ExactlyKInARow": "exactlyrow", "ExactlyK": "exactlyk"}


def _cell(x):
    return "()" if x is None else _s(x)


def factor_wire(f):
    k = f["kind"]
    if k == "simple":
        body = _l(["simple", _l(_l([_s(n), _n(w)]) for n, w in f["levels"])])
    elif k == "derived":
        w = f["window"]
        if w["type"] == "within":
            wt = "within"
        elif w["type"] == "transition":
            wt = "transition"
        elif w["type"] == "window":
            start = w.get("start")
            wt = _l(["window", _n(w["width"]), _n(w.get("stride", 1)), "none" if start is None else _n(start)])
        else:
            raise NotAProgram("window type %r" % (w["type"],))
        levels = []
        for lev in f["levels"]:
            table = _l(_l(_l(_cell(x) for x in col) for col in e) for e in lev.get("table", []))
            levels.append(_l([_s(lev["name"]), _n(lev.get("weight", 1)), _b(lev.get("else")), table]))
        body = _l(["derived", _l([wt, _l(_n(d) for d in w["deps"])]), _l(levels)])
    elif k == "continuous":
        body = "continuous"
    else:
        raise NotAProgram("factor kind %r" % (k,))
    return _l([_n(f["id"]), _s(f.get("name", "")), body])


def cons_wire(c):
    k = c["kind"]
    if k in _ROW:
        tg = _l(["factor", _n(c["factor"])]) if "factor" in c else _l(["level", _n(c["level"][0]), _s(c["level"][1])])
        return _l([_ROW[k], _n(c["k"]), tg])
    if k == "Exclude":
        return _l(["exclude", _n(c["level"][0]), _s(c["level"][1])])
    if k == "Pin":
        if isinstance(c["index"], bool) or not isinstance(c["index"], int):
            raise NotAProgram("Pin index")
        return _l(["pin", str(c["index"]), _n(c["level"][0]), _s(c["level"][1])])
    if k == "Sequential":
        return _l(["seqn", _n(c["factor"])])
    if k == "LatinSquare":
        return _l(["latin", _l(_n(f) for f in c["factors"])])
    if k == "MinimumTrials":
        return _l(["mintrials", _n(c["trials"])])
    if k == "ContinuousConstraint":
        return "(continuous)"
    return _l(["other", _s(k)])


def block_wire(program, bid, seen=()):
    if bid in seen:
        raise NotAProgram("cyclic block reference")
    seen = seen + (bid,)
    blk = {b["id"]: b for b in program["blocks"]}[bid]
    cmap = {c["id"]: c for c in program["constraints"]}
    cs = _l(cons_wire(cmap[c]) for c in blk.get("constraints", []))
    k = blk["kind"]

    def al(x):
        if x not in _AL:
            raise NotAProgram("alignment %r" % (x,))
        return _AL[x]

    def mode(x):
        if x not in _MODE:
            raise NotAProgram("mode %r" % (x,))
        return _MODE[x]
    if k == "CrossBlock":
        return _l(["cross", _l(_n(f) for f in blk["design"]), _l(_n(f) for f in blk["crossing"]), cs,
                   _b(blk.get("rcc", True))])
    if k == "MultiCrossBlock":
        return _l(["multi", _l(_n(f) for f in blk["design"]), _l(_l(_n(f) for f in c) for c in blk["crossings"]), cs,
                   _b(blk.get("rcc", True)), mode(blk.get("mode", "equal")), al(blk.get("alignment", "equal preamble"))])
    if k == "Repeat":
        return _l(["repeat", block_wire(program, blk["block"], seen), cs])
    if k == "Merge":
        a = blk.get("alignment")
        return _l(["merge", _l(block_wire(program, x, seen) for x in blk["blocks"]), cs,
                   mode(blk.get("mode", "repeat")), "none" if a is None else al(a)])
    if k == "Nest":
        a = blk.get("alignment")
        return _l(["nest", block_wire(program, blk["outer"], seen), block_wire(program, blk["inner"], seen), cs,
                   "none" if not a else al(a)])
    raise NotAProgram("block kind %r" % (k,))


def program_wire(program, bid=None):
    bid = program["main"] if bid is None else bid
    return _l([_l(factor_wire(f) for f in program["factors"]), block_wire(program, bid)])


# --------------------------------------------------------------------------- the two sides

def python_result(program):
    try:
        ds = docsem.doc_sem(program)
    except docsem.Unsupported as e:
        return ("unsupported", str(e))
    except RecursionError:
        return ("crash", "RecursionError")
    except Exception as e:   # noqa: BLE001 - any other Python exception is the Gallina [Crash]
        return ("crash", type(e).__name__)
    return ("ok", ds.T, list(ds.forder), bool(ds.unsat), docsem.to_wire(ds.sem))


def _split_top(s):
    """top-level items of 'a (b c) d'"""
    out, depth, cur, instr, esc = [], 0, "", False, False
    for ch in s:
        if instr:
            cur += ch
            if esc:
                esc = False
            elif ch == "\\":
                esc = True
            elif ch == '"':
                instr = False
            continue
        if ch == '"':
            instr = True
            cur += ch
        elif ch == "(":
            depth += 1
            cur += ch
        elif ch == ")":
            depth -= 1
            cur += ch
        elif ch == " " and depth == 0:
            if cur:
                out.append(cur)
            cur = ""
        else:
            cur += ch
    if cur:
        out.append(cur)
    return out


def _unquote(s):
    assert s[0] == '"' and s[-1] == '"', s
    out, i, s = "", 0, s[1:-1]
    while i < len(s):
        if s[i] == "\\" and i + 1 < len(s):
            out += s[i + 1]
            i += 2
        else:
            out += s[i]
            i += 1
    return out


def parse_coq_line(line):
    if line.startswith("ok "):
        items = _split_top(line[3:])
        T, forder, unsat, sem = items
        return ("ok", int(T), [int(x) for x in forder.strip("()").split()], unsat == "true", sem)
    if line.startswith("unsupported "):
        return ("unsupported", _unquote(line[len("unsupported "):]))
    if line.startswith("crash "):
        return ("crash", _unquote(line[len("crash "):]))
    return ("driver", line)


def coq_results(programs):
    lines, idx = [], []
    out = [None] * len(programs)
    for i, p in enumerate(programs):
        try:
            lines.append("(docsem %s)" % program_wire(p))
            idx.append(i)
        except NotAProgram as e:
            out[i] = ("notaprogram", str(e))
        except (KeyError, TypeError, IndexError) as e:
            out[i] = ("notaprogram", "%s: %s" % (type(e).__name__, e))
    if lines:
        res = common.run_model(lines, domain="DocSem")
        for i, r in zip(idx, res):
            out[i] = parse_coq_line(r)
    return out


# --------------------------------------------------------------------------- canonical form

def parse_sexp(s):
    pos = [0]

    def one():
        while s[pos[0]] == " ":
            pos[0] += 1
        if s[pos[0]] == "(":
            pos[0] += 1
            items = []
            while True:
                while s[pos[0]] == " ":
                    pos[0] += 1
                if s[pos[0]] == ")":
                    pos[0] += 1
                    return items
                items.append(one())
        st = pos[0]
        while pos[0] < len(s) and s[pos[0]] not in " ()":
            pos[0] += 1
        return s[st:pos[0]]
    return one()


def canonical(sem_wire):
    """Order-insensitive parts sorted: the accepted windows of each derived level
    and the combination lists of the crossings ([Sem.valid_b] reads both as sets)."""
    T, factors, crossings, constraints = parse_sexp(sem_wire)
    fs = []
    for f in factors:
        if f[2] != "none":
            deps, w, st, sa, enc = f[2]
            # docsem.py's default start of a width-0 window is -1; Sem.w_start is a natural number
            # and the sem parser of the drivers (nat_of_sexp) reads a negative number as 0
            sa = str(max(0, int(sa)))
            f = [f[0], f[1], [deps, w, st, sa, [sorted(rows, key=repr) for rows in enc]]]
        fs.append(f)
    cs = [[c[0], c[1], c[2], sorted(c[3], key=repr)] for c in crossings]
    return [T, fs, cs, constraints]


def same(a, b):
    """'exact' | 'canonical' | None"""
    if a == b:
        return "exact"
    if a[0] == "ok" and b[0] == "ok" and a[1:4] == b[1:4] and canonical(a[4]) == canonical(b[4]):
        return "canonical"
    if a[0] == "crash" and b[0] == "crash":
        return "exact"
    return None


def compare(programs, stats=None):
    py = [python_result(p) for p in programs]
    cq = coq_results(programs)
    bad = []
    for i, (a, b) in enumerate(zip(py, cq)):
        how = same(a, b)
        if stats is not None:
            key = (a[0], how or "MISMATCH")
            stats[key] = stats.get(key, 0) + 1
        if how is None:
            bad.append((i, a, b))
    return bad


def mutants(rng, program):
    """Perturbations that reach the Unsupported / crash paths and the corners of the
    arithmetic (none of them need be a sensible experiment)."""
    import copy
    out = []

    def mut(f):
        q = copy.deepcopy(program)
        try:
            f(q)
        except (KeyError, IndexError, ValueError):
            return
        out.append(q)
    als = ["equal preamble", "parallel start", "post preamble"]

    def set_al(q):
        for b in q["blocks"]:
            if b["kind"] in ("MultiCrossBlock", "Merge", "Nest"):
                b["alignment"] = rng.choice(als)

    def set_mode(q):
        for b in q["blocks"]:
            if b["kind"] in ("MultiCrossBlock", "Merge"):
                b["mode"] = rng.choice(["weight", "repeat", "equal"])

    def to_multi(q):
        for b in q["blocks"]:
            if b["kind"] == "CrossBlock":
                b["kind"] = "MultiCrossBlock"
                others = [f for f in b["design"] if f not in b["crossing"]]
                b["crossings"] = [b.pop("crossing")] + ([[rng.choice(others)]] if others and rng.random() < 0.7 else [])
                b["mode"] = rng.choice(["weight", "repeat", "equal"])
                b["alignment"] = rng.choice(als)

    def drop_design(q):
        b = rng.choice(q["blocks"])
        if "design" in b and b["design"]:
            b["design"].remove(rng.choice(b["design"]))

    def min_trials(q):
        b = rng.choice(q["blocks"])
        q["constraints"].append({"id": len(q["constraints"]), "kind": "MinimumTrials", "trials": rng.choice([0, 1, 2, 7, 11, 13])})
        b.setdefault("constraints", []).append(len(q["constraints"]) - 1)

    def wrap(q):
        kind = rng.choice(["Repeat", "Merge", "Merge2", "Nest"])
        nid = max(b["id"] for b in q["blocks"]) + 1
        if kind == "Repeat":
            q["blocks"].append({"id": nid, "kind": "Repeat", "block": q["main"], "constraints": []})
        elif kind == "Merge":
            q["blocks"].append({"id": nid, "kind": "Merge", "blocks": [q["main"]], "constraints": []})
        elif kind == "Merge2":
            q["blocks"].append({"id": nid, "kind": "Merge", "blocks": [q["main"], rng.choice(q["blocks"])["id"]],
                                "constraints": [], "mode": rng.choice(["weight", "repeat", "equal"])})
        else:
            q["blocks"].append({"id": nid, "kind": "Nest", "outer": q["main"], "inner": rng.choice(q["blocks"])["id"],
                                "constraints": []})
        q["main"] = nid

    def window(q):
        ds = [f for f in q["factors"] if f["kind"] == "derived"]
        f = rng.choice(ds)
        f["window"] = {"type": "window", "deps": f["window"]["deps"], "width": rng.choice([0, 1, 2, 3]),
                       "stride": rng.choice([0, 1, 2, 3]), "start": rng.choice([None, 0, 1, 3])}

    def else_level(q):
        ds = [f for f in q["factors"] if f["kind"] == "derived"]
        f = rng.choice(ds)
        lev = rng.choice(f["levels"])
        if lev.get("else"):
            lev.pop("else")
            lev["table"] = []
        else:
            lev["else"] = True

    def other_kind(q):
        c = rng.choice(q["constraints"])
        c["kind"] = rng.choice(["ExactlyKMultipleInARow", "ContinuousConstraint", "Frobnicate"])

    def unknown_id(q):
        b = rng.choice([b for b in q["blocks"] if "design" in b])
        b["design"].append(99)

    def continuous(q):
        q["factors"].append({"id": 50, "name": "rt", "kind": "continuous", "dist": {}})
        for b in q["blocks"]:
            if "design" in b:
                b["design"].append(50)

    def chain(q):
        # a derived factor over a derived factor (within over transition etc.)
        ds = [f for f in q["factors"] if f["kind"] == "derived"]
        d = rng.choice(ds)
        names = docsem.level_names(d)
        wt = rng.choice(["within", "transition", "window"])
        width = {"within": 1, "transition": 2}.get(wt, 2)
        fid = max(f["id"] for f in q["factors"]) + 1
        win = {"type": wt, "deps": [d["id"]]}
        if wt == "window":
            win.update({"width": 2, "stride": rng.choice([1, 2]), "start": rng.choice([None, 2])})
        q["factors"].append({"id": fid, "name": "dd%d" % fid, "kind": "derived", "window": win,
                             "levels": [{"name": "p", "table": [[[names[0]] * width]]}, {"name": "q", "else": True}]})
        for b in q["blocks"]:
            if "design" in b and d["id"] in b["design"]:
                b["design"].append(fid)
                if rng.random() < 0.4:
                    if "crossing" in b:
                        b["crossing"].append(fid)

    def dup_level(q):
        f = rng.choice([f for f in q["factors"] if f["kind"] == "simple"])
        f["levels"].append(list(f["levels"][0]))

    def factor_target(q):
        c = rng.choice([c for c in q["constraints"] if c["kind"] in _ROW and "level" in c])
        c["factor"] = c.pop("level")[0]

    def empty_crossing(q):
        b = rng.choice([b for b in q["blocks"] if "crossing" in b])
        b["crossing"] = []

    def rcc_off(q):
        for b in q["blocks"]:
            if "rcc" in b:
                b["rcc"] = False

    for f in (set_al, set_mode, to_multi, drop_design, min_trials, wrap, wrap, window, else_level, other_kind,
              unknown_id, continuous, chain, dup_level, factor_target, empty_crossing, rcc_off):
        mut(f)
    # two mutations at once
    for _ in range(3):
        f, g = rng.sample([set_al, set_mode, to_multi, min_trials, wrap, window, chain, rcc_off, else_level], 2)
        mut(lambda q: (f(q), g(q)))
    return out


def main(argv):
    import random
    import gen_design
    n = int(argv[1]) if len(argv) > 1 else 1500
    seed = int(argv[2]) if len(argv) > 2 else 1
    space = int(argv[3]) if len(argv) > 3 else 20000
    named = list(gen_design.corpus())
    ncorpus = len(named)
    rng = random.Random(seed)
    # every candidate the generator looks at, including those it rejects as Unsupported / too large
    seen = []
    orig = gen_design.space_size

    def spy(program):
        import copy
        seen.append(copy.deepcopy(program))
        return orig(program)
    gen_design.space_size = spy
    for i in range(n):
        p = gen_design.gen_program(rng, space)
        if p is not None:
            named.append(("gen-%d" % i, p))
    gen_design.space_size = orig
    ngen = len(named) - ncorpus
    rejected = [q for q in seen if orig(q)[0] is None]
    for j, q in enumerate(rejected):
        named.append(("rejected-%d" % j, q))
    nrej = len(rejected)
    # every block of a program is a program of its own
    subs = []
    for nm, p in named[:ncorpus + ngen]:
        for b in p["blocks"]:
            if b["id"] != p["main"]:
                subs.append((nm + "/block%d" % b["id"], dict(p, main=b["id"])))
    named += subs
    mrng = random.Random(seed + 1000003)
    muts = []
    for nm, p in named[:ncorpus + ngen]:
        for j, q in enumerate(mutants(mrng, p)):
            muts.append((nm + "/mut%d" % j, q))
    named += muts
    progs = [p for _, p in named]
    print("programs: corpus %d, generated %d, generator-rejected candidates %d, sub-blocks %d, mutants %d"
          % (ncorpus, ngen, nrej, len(subs), len(muts)))
    for label, lo, hi in (("corpus+generated", 0, ncorpus + ngen), ("rejected", ncorpus + ngen, ncorpus + ngen + nrej),
                          ("sub-blocks", ncorpus + ngen + nrej, ncorpus + ngen + nrej + len(subs)),
                          ("mutants", ncorpus + ngen + nrej + len(subs), len(progs))):
        stats = {}
        bad = compare(progs[lo:hi], stats)
        print("%s: %d compared, %d mismatches" % (label, hi - lo, len(bad)))
        for k in sorted(stats):
            print("    python=%-12s agreement=%-10s %d" % (k[0], k[1], stats[k]))
        msgs = {}
        for q in progs[lo:hi]:
            r = python_result(q)
            if r[0] != "ok":
                msgs[r] = msgs.get(r, 0) + 1
        for k in sorted(msgs):
            print("      %s: %d" % (k, msgs[k]))
        for i, a, b in bad[:6]:
            print("--- %s" % named[lo + i][0])
            print("program:", named[lo + i][1])
            print("python:", a)
            print("coq   :", b)
    return 0


if __name__ == "__main__":
    sys.exit(main(sys.argv))
