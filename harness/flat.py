"""Extraction of the flat record (coq/theories/Design/Flat.v) from a real block
object, reading attributes only, and its wire format (extract/wire_flat.ml)."""
from docsem import _A, to_wire


def _table(level):
    """Accepted argument tuples of a derived level, as DerivationProcessor computes them."""
    from sweetpea._internal.beforestart import BeforeStart
    from sweetpea._internal.iter import chunk_dict
    w = level.window
    out = []
    for tup in level.get_dependent_cross_product():
        args = [(l.name if not isinstance(l, BeforeStart) else None) for l in tup]
        if w.width != 1:
            args = list(chunk_dict(args, w.width))
        try:
            ok = w.predicate(*args)
        except Exception:  # noqa
            ok = False
        if ok is True:
            row = []
            for di, dep in enumerate(w.factors):
                col = []
                for j in range(w.width):
                    l = tup[di * w.width + j]
                    col.append(-1 if isinstance(l, BeforeStart) else list(dep.levels).index(l))
                row.append(col)
            out.append(row)
    return out


def _geom(block, g):
    if g is None:
        return None
    return [g.num_trials, g.preamble_size,
            [[block.design.index(f), n] for f, n in g.factor_to_sustain_count.items() if f in block.design]]


def flat_of_block(block):
    from sweetpea._internal.primitive import DerivedFactor, HiddenName
    from sweetpea._internal.beforestart import BeforeStart
    from sweetpea._internal import constraint as C
    from sweetpea._internal.cross_block import AlignmentMode
    design = list(block.design)
    idx = {id(f): i for i, f in enumerate(design)}

    def fi(f):
        return design.index(f)

    def li(f, l):
        return list(f.levels).index(l)
    factors = []
    for f in design:
        if isinstance(f, DerivedFactor):
            w = f.first_level.window
            win = [[fi(d) for d in w.factors], w.width, w.stride, w.start, w.start_delta]
            levels = [[str(l.name), l.weight, _table(l)] for l in f.levels]
        else:
            win = None
            levels = [[str(l.name), l.weight, []] for l in f.levels]
        factors.append([str(f.name.name) if isinstance(f.name, HiddenName) else str(f.name),
                        isinstance(f.name, HiddenName), levels, win, bool(f.has_complex_window)])
    cons = []
    for c in block.constraints:
        n = type(c).__name__
        if n in ("Cross", "Consistency", "Sustain", "ContinuousConstraint"):
            cons.append([_A(n)])
        elif n == "Derivation":
            deps = [[([_A("before"), x.ready_at] if isinstance(x, BeforeStart) else x) for x in l] for l in c.dependent_idxs]
            cons.append([_A(n), c.derived_idx, deps, fi(c.factor)])
        elif n in ("AtMostKInARow", "AtLeastKInARow", "ExactlyK", "ExactlyKInARow", "ExactlyKMultipleInARow"):
            f = c.level.factor
            cons.append([_A(n), c.k, fi(f), li(f, c.level), _geom(block, c.within_block)])
        elif n == "Exclude":
            cons.append([_A(n), fi(c.factor), li(c.factor, c.level)])
        elif n == "Pin":
            cons.append([_A(n), c.index, fi(c.factor), li(c.factor, c.level), _geom(block, c.within_block)])
        elif n == "Reify":
            cons.append([_A(n), fi(c.factor)])
        elif n == "MinimumTrials":
            cons.append([_A(n), c.trials])
        elif n == "LatinSquare":
            cons.append([_A(n), [fi(f) for f in c.factors]])
        elif n == "Sequential":
            cons.append([_A(n), fi(c.factor)])
        else:
            cons.append([_A(n)])
    al = {AlignmentMode.POST_PREAMBLE: "post", AlignmentMode.PARALLEL_START: "parallel",
          AlignmentMode.EQUAL_PREAMBLE: "equal"}[block.alignment]
    fails = any("WARNING" not in e for e in block.errors)
    rec = [factors, [fi(f) for f in block.act_design],
           [[fi(f) for f in c] for c in block.crossings], list(block.crossing_sustain_counts), list(block.crossing_weights),
           list(block.crossing_sizes), list(block.preamble_sizes), _A(al), block._alignment_preamble, block.min_trials,
           block.trials_per_sample(), bool(block.require_complete_crossing),
           [[fi(f), li(f, l)] for f, l in block.exclude],
           [[[fi(f), li(f, l)] for f, l in d.items()] for d in block.excluded_derived],
           cons, fails]
    return rec


def flat_wire(block):
    return to_wire(flat_of_block(block))
