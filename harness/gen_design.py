"""Seeded generator of experiment programs (see ir.py for the format).

Mostly-valid designs of bounded size (so that the reference oracle can enumerate
the full product space), with parameters straddling every boundary; a separate
malformed stream (`gen_malformed`).  Every random choice comes from the `rng`
passed in.
"""
import itertools

import docsem

NAMES = ["a", "b", "c", "d"]


def simple_factor(rng, fid, nlev=None, weighted_p=0.2):
    n = nlev or rng.choice([2, 2, 2, 3])
    levels = []
    for i in range(n):
        w = 2 if rng.random() < weighted_p else 1
        levels.append([NAMES[i] + str(fid), w])
    return {"id": fid, "name": "f%d" % fid, "kind": "simple", "levels": levels}


def partition_table(rng, doms, nlev, use_else, defect=None):
    """Random total function from windows to levels; returns per-level tables
    (the last level is the else level when use_else)."""
    tabs = [[] for _ in range(nlev)]
    all_w = list(itertools.product(*doms))
    for w in all_w:
        tabs[rng.randrange(nlev)].append(w)
    # make sure every level is hit at least once when possible
    for i in range(nlev):
        if not tabs[i]:
            donors = [j for j in range(nlev) if len(tabs[j]) > 1]
            if donors:
                j = rng.choice(donors)
                tabs[i].append(tabs[j].pop())
    if defect == "overlap" and all_w:
        w = rng.choice(all_w)
        for i in range(nlev):
            if w not in tabs[i]:
                tabs[i].append(w)
                break
    if defect == "uncovered" and all_w and not use_else:
        w = rng.choice(all_w)
        for i in range(nlev):
            if w in tabs[i]:
                tabs[i].remove(w)
    return tabs


def derived_factor(rng, fid, factors, wtype=None, defect=None):
    basics = [f for f in factors if f["kind"] == "simple"]
    cands = basics + [f for f in factors if f["kind"] == "derived" and f["window"]["type"] == "within"]
    wtype = wtype or rng.choice(["within", "within", "within", "transition", "window"])
    if wtype == "within":
        deps = rng.sample(cands, min(len(cands), rng.choice([1, 2, 2])))
        width, stride, start = 1, 1, None
    elif wtype == "transition":
        deps = [rng.choice(basics)]
        width, stride, start = 2, 1, 1
    else:
        deps = [rng.choice(basics)]
        width = rng.choice([1, 2, 2, 3])
        stride = rng.choice([1, 1, 2])
        start = rng.choice([None, None, 0, 1, 2])
        if width == 1 and stride == 1 and start is None:
            stride = 2
    nlev = rng.choice([2, 2, 3])
    use_else = rng.random() < 0.4
    doms = []
    # argument domain: level names, plus None where the window can reach before the first trial
    eff_start = start if start is not None else width - 1
    for d in deps:
        names = [l[0] for l in d["levels"]] if d["kind"] == "simple" else [l["name"] for l in d["levels"]]
        for j in range(width):
            can_be_none = eff_start - (width - 1) + j < 0
            doms.append(names + ([None] if can_be_none else []))
    flat_tabs = partition_table(rng, doms, nlev, use_else, defect)
    levels = []
    for i in range(nlev):
        if use_else and i == nlev - 1:
            # (an else level can be weighted like any other: seed C01-elselevel-weight-shadowed)
            levels.append({"name": "L%d_%d" % (fid, i), "else": True, "weight": 2 if rng.random() < 0.12 else 1})
            continue
        table = []
        for flat in flat_tabs[i]:
            table.append([list(flat[k * width:(k + 1) * width]) for k in range(len(deps))])
        levels.append({"name": "L%d_%d" % (fid, i), "table": table, "weight": 2 if rng.random() < 0.12 else 1})
    win = {"type": wtype, "deps": [d["id"] for d in deps]}
    if wtype == "window":
        win.update({"width": width, "stride": stride, "start": start})
    return {"id": fid, "name": "d%d" % fid, "kind": "derived", "window": win, "levels": levels}


def rand_level(rng, factors, fids):
    f = rng.choice([x for x in factors if x["id"] in fids])
    names = docsem.level_names(f)
    return [f["id"], rng.choice(names)]


def rand_constraint(rng, cid, factors, fids, T, kinds=None):
    kinds = kinds or ["AtMostKInARow", "AtMostKInARow", "AtLeastKInARow", "ExactlyKInARow", "ExactlyK", "Exclude",
                      "Pin", "Sequential", "LatinSquare", "AtMostKInARow-factor"]
    k = rng.choice(kinds)
    if k == "AtMostKInARow-factor":
        f = rng.choice([x for x in factors if x["id"] in fids])
        return {"id": cid, "kind": "AtMostKInARow", "k": rng.randint(1, 3), "factor": f["id"]}
    if k in ("AtMostKInARow", "AtLeastKInARow", "ExactlyKInARow", "ExactlyK"):
        kk = rng.choice([1, 1, 2, 2, 3, max(1, T - 1), T, T + 1, T + 2])
        return {"id": cid, "kind": k, "k": kk, "level": rand_level(rng, factors, fids)}
    if k == "Exclude":
        return {"id": cid, "kind": "Exclude", "level": rand_level(rng, factors, fids)}
    if k == "Pin":
        return {"id": cid, "kind": "Pin", "index": rng.choice([0, 1, -1, -2, T - 1, T, -T, -T - 1, 2]),
                "level": rand_level(rng, factors, fids)}
    if k == "Sequential":
        simple = [x for x in factors if x["id"] in fids and x["kind"] == "simple" and all(w == 1 for _, w in x["levels"])]
        if not simple:
            return {"id": cid, "kind": "Exclude", "level": rand_level(rng, factors, fids)}
        return {"id": cid, "kind": "Sequential", "factor": rng.choice(simple)["id"]}
    if k == "LatinSquare":
        simple = [x for x in factors if x["id"] in fids and x["kind"] == "simple" and all(w == 1 for _, w in x["levels"])]
        if len(simple) < 2:
            return {"id": cid, "kind": "Exclude", "level": rand_level(rng, factors, fids)}
        return {"id": cid, "kind": "LatinSquare", "factors": [x["id"] for x in rng.sample(simple, 2)]}
    raise ValueError(k)


def space_size(program):
    """Size of the product space the oracle has to enumerate (or None if unsupported)."""
    try:
        ds = docsem.doc_sem(program)
    except docsem.Unsupported:
        return None, None
    except Exception:
        return None, None
    n = 1
    for f, spec in zip(ds.forder, ds.sem[1]):
        if spec[2] is None:
            groups = -(-ds.T // spec[1])
            n *= spec[0] ** groups
    return n, ds


def gen_program(rng, max_space=60000, shape=None, features=None):
    """One program. `shape` in {None, cross, multi, repeat, merge, nest}."""
    features = features or {}
    for _attempt in range(200):
        shape_ = shape or rng.choice(["cross"] * 6 + ["multi", "repeat", "repeat", "merge", "nest"])
        nb = rng.choice([1, 2, 2, 2, 3]) if shape_ != "nest" else 2
        factors = []
        fid = 0
        for _ in range(nb):
            factors.append(simple_factor(rng, fid, weighted_p=features.get("weighted_p", 0.15)))
            fid += 1
        nd = rng.choice([0, 0, 1, 1, 2]) if features.get("derived", True) else 0
        for _ in range(nd):
            wt = features.get("wtype")
            factors.append(derived_factor(rng, fid, factors, wtype=wt))
            fid += 1
        fids = [f["id"] for f in factors]
        design = list(fids)
        if rng.random() < 0.15:
            rng.shuffle(design)
        crossable = [f["id"] for f in factors if not (f["kind"] == "derived" and f["window"].get("stride", 1) > 1)]
        constraints = []
        blocks = []

        def pick_crossing(pool, kmax=2):
            k = rng.choice([1, 2, 2, kmax]) if len(pool) > 1 else 1
            return rng.sample(pool, min(k, len(pool)))

        def mk_constraints(n, T, kinds=None, pool=None):
            ids = []
            for _ in range(n):
                c = rand_constraint(rng, len(constraints), factors, pool or fids, T, kinds)
                constraints.append(c)
                ids.append(c["id"])
            return ids

        Tguess = 4
        if shape_ == "cross":
            cr = pick_crossing(crossable, 3)
            cs = mk_constraints(rng.choice([0, 0, 1, 1, 2, 3]), Tguess)
            if rng.random() < 0.25:
                constraints.append({"id": len(constraints), "kind": "MinimumTrials", "trials": rng.choice([1, 3, 5, 6, 7, 8, 9])})
                cs.append(len(constraints) - 1)
            blocks.append({"id": 0, "kind": "CrossBlock", "design": design, "crossing": cr, "constraints": cs,
                           "rcc": rng.random() < 0.75})
        elif shape_ == "multi":
            c1 = pick_crossing(crossable)
            rest = [f for f in crossable if f not in c1] or crossable
            c2 = pick_crossing(rest)
            cs = mk_constraints(rng.choice([0, 1, 2]), Tguess)
            blocks.append({"id": 0, "kind": "MultiCrossBlock", "design": design, "crossings": [c1, c2], "constraints": cs,
                           "rcc": rng.random() < 0.8, "mode": rng.choice(["weight", "repeat", "equal"]),
                           "alignment": rng.choice(["equal preamble", "parallel start", "post preamble"])})
        elif shape_ == "repeat":
            cr = pick_crossing(crossable)
            cs = mk_constraints(rng.choice([0, 1, 1, 2]), Tguess, kinds=["AtMostKInARow", "AtLeastKInARow", "ExactlyKInARow",
                                                                           "ExactlyK", "Pin", "AtMostKInARow"])
            blocks.append({"id": 0, "kind": "CrossBlock", "design": design, "crossing": cr, "constraints": cs,
                           "rcc": True})
            outer = mk_constraints(rng.choice([0, 0, 1]), Tguess, kinds=["AtMostKInARow", "ExactlyK", "Pin", "AtLeastKInARow"])
            constraints.append({"id": len(constraints), "kind": "MinimumTrials", "trials": rng.choice([2, 3, 4, 5, 6, 7, 8])})
            outer.append(len(constraints) - 1)
            blocks.append({"id": 1, "kind": "Repeat", "block": 0, "constraints": outer})
        elif shape_ == "merge":
            c1 = pick_crossing(crossable)
            rest = [f for f in crossable if f not in c1]
            if not rest:
                continue
            c2 = pick_crossing(rest)
            cs1 = mk_constraints(rng.choice([0, 1]), Tguess, kinds=["AtMostKInARow", "ExactlyK", "Pin"])
            cs2 = mk_constraints(rng.choice([0, 1]), Tguess, kinds=["AtMostKInARow", "ExactlyK", "AtLeastKInARow"])
            blocks.append({"id": 0, "kind": "CrossBlock", "design": design, "crossing": c1, "constraints": cs1, "rcc": True})
            blocks.append({"id": 1, "kind": "CrossBlock", "design": design, "crossing": c2, "constraints": cs2, "rcc": True})
            outer = mk_constraints(rng.choice([0, 1]), Tguess, kinds=["AtMostKInARow", "Pin"])
            blocks.append({"id": 2, "kind": "Merge", "blocks": [0, 1], "constraints": outer,
                           "mode": rng.choice(["repeat", "weight"])})
        elif shape_ == "nest":
            basics = [f["id"] for f in factors if f["kind"] == "simple"]
            if len(basics) < 2:
                continue
            o, i = basics[0], basics[1]
            od = [o] + [f["id"] for f in factors if f["kind"] == "derived" and set(f["window"]["deps"]) <= {o}
                        and f["window"]["type"] == "within"]
            idn = [f for f in fids if f not in od]
            cs_in = mk_constraints(rng.choice([0, 1]), Tguess, kinds=["AtMostKInARow", "ExactlyK", "Pin"], pool=idn)
            cs_out = mk_constraints(rng.choice([0, 0, 1]), Tguess, kinds=["Sequential", "ExactlyK", "Pin"], pool=od)
            blocks.append({"id": 0, "kind": "CrossBlock", "design": od, "crossing": [o], "constraints": cs_out, "rcc": True})
            blocks.append({"id": 1, "kind": "CrossBlock", "design": idn, "crossing": [i], "constraints": cs_in, "rcc": True})
            blocks.append({"id": 2, "kind": "Nest", "outer": 0, "inner": 1, "constraints": []})
        program = {"factors": factors, "constraints": constraints, "blocks": blocks, "main": blocks[-1]["id"]}
        size, ds = space_size(program)
        if size is None or size > max_space:
            continue
        # re-draw numeric parameters against the real trial count
        T = ds.T
        for c in constraints:
            if "k" in c and rng.random() < 0.5:
                c["k"] = rng.choice([1, 2, max(1, T - 1), T, T + 1])
            if c["kind"] == "Pin" and rng.random() < 0.5:
                c["index"] = rng.choice([0, -1, T - 1, T, -T, -T - 1, 1])
        size, ds = space_size(program)
        if size is None or size > max_space:
            continue
        return program
    return None


def weighted_derived_leftover():
    """Crossed within-trial derived factor with a weighted level over an uncrossed
    source factor, repeated with a trailing partial group of 1 and of 2 (= number
    of distinct combinations) trials."""
    out = []
    size = {"id": 0, "name": "size", "kind": "simple", "levels": [["s1", 1], ["s2", 1], ["s3", 1], ["s4", 1]]}
    look = {"id": 1, "name": "look", "kind": "derived", "window": {"type": "within", "deps": [0]},
            "levels": [{"name": "near", "weight": 2, "table": [[["s1"]], [["s2"]]]},
                       {"name": "far", "weight": 1, "table": [[["s3"]], [["s4"]]]}]}
    for t in (4, 5):
        out.append(("weighted-derived-3+%d" % (t - 3), {
            "factors": [size, look], "constraints": [{"id": 0, "kind": "MinimumTrials", "trials": t}],
            "blocks": [{"id": 0, "kind": "CrossBlock", "design": [0, 1], "crossing": [1], "constraints": [], "rcc": True},
                       {"id": 1, "kind": "Repeat", "block": 0, "constraints": [0]}], "main": 1}))
    return out


def corpus():
    """Hand-written programs: guide examples and one per known finding."""
    out = []
    f = {"id": 0, "name": "f", "kind": "simple", "levels": [["a", 1], ["b", 1]]}
    # Repeat with a partial last repetition and a block-level constraint
    out.append(("repeat-partial-window", {
        "factors": [f], "constraints": [{"id": 0, "kind": "AtMostKInARow", "k": 1, "factor": 0},
                                        {"id": 1, "kind": "MinimumTrials", "trials": 3}],
        "blocks": [{"id": 0, "kind": "CrossBlock", "design": [0], "crossing": [0], "constraints": [0], "rcc": True},
                   {"id": 1, "kind": "Repeat", "block": 0, "constraints": [1]}], "main": 1}))
    # AtLeastKInARow tail
    out.append(("atleast-tail", {
        "factors": [f], "constraints": [{"id": 0, "kind": "AtLeastKInARow", "k": 3, "level": [0, "a"]},
                                        {"id": 1, "kind": "MinimumTrials", "trials": 5}],
        "blocks": [{"id": 0, "kind": "CrossBlock", "design": [0], "crossing": [], "constraints": [0, 1], "rcc": True}],
        "main": 0}))
    # k beyond the window
    for kind in ("AtLeastKInARow", "ExactlyKInARow", "ExactlyK", "AtMostKInARow"):
        for k in (2, 3, 4):
            out.append(("%s-k%d-on-2-trials" % (kind, k), {
                "factors": [f], "constraints": [{"id": 0, "kind": kind, "k": k, "level": [0, "a"]},
                                                {"id": 1, "kind": "MinimumTrials", "trials": 2}],
                "blocks": [{"id": 0, "kind": "CrossBlock", "design": [0], "crossing": [], "constraints": [0, 1], "rcc": True}],
                "main": 0}))
    # stroop with congruency
    color = {"id": 0, "name": "color", "kind": "simple", "levels": [["red", 1], ["blue", 1]]}
    text = {"id": 1, "name": "text", "kind": "simple", "levels": [["red", 1], ["blue", 1]]}
    con = {"id": 2, "name": "con", "kind": "derived", "window": {"type": "within", "deps": [0, 1]},
           "levels": [{"name": "yes", "table": [[["red"], ["red"]], [["blue"], ["blue"]]]}, {"name": "no", "else": True}]}
    out.append(("stroop", {"factors": [color, text, con],
                           "constraints": [{"id": 0, "kind": "AtMostKInARow", "k": 1, "level": [2, "yes"]}],
                           "blocks": [{"id": 0, "kind": "CrossBlock", "design": [0, 1, 2], "crossing": [0, 1],
                                       "constraints": [0], "rcc": True}], "main": 0}))
    rep = {"id": 2, "name": "rep", "kind": "derived", "window": {"type": "transition", "deps": [0]},
           "levels": [{"name": "same", "table": [[["red", "red"]], [["blue", "blue"]]]}, {"name": "diff", "else": True}]}
    out.append(("transition-crossed", {"factors": [color, text, rep], "constraints": [],
                                       "blocks": [{"id": 0, "kind": "CrossBlock", "design": [0, 1, 2], "crossing": [0, 2],
                                                   "constraints": [], "rcc": True}], "main": 0}))
    # crossed transition (preamble trial) + a free basic factor with an excluded level: the preamble's
    # candidate count and its decoding must use the same filtered level lists (seed C09-preamble-count-unfiltered-levels)
    size = {"id": 3, "name": "size", "kind": "simple", "levels": [["s", 1], ["m", 1], ["l", 1]]}
    out.append(("transition-crossed-free-exclude", {
        "factors": [color, size, rep], "constraints": [{"id": 0, "kind": "Exclude", "level": [3, "l"]}],
        "blocks": [{"id": 0, "kind": "CrossBlock", "design": [0, 3, 2], "crossing": [0, 2], "constraints": [0], "rcc": False}],
        "main": 0}))
    # a within-trial and a transition derived factor in one crossing: the preamble trial must carry
    # the within-trial factor too (seed C08-preamble-fill-misses-crossed-within)
    rep3 = dict(rep, id=3)
    out.append(("within-and-transition-crossed", {
        "factors": [color, text, con, rep3], "constraints": [],
        "blocks": [{"id": 0, "kind": "CrossBlock", "design": [0, 1, 2, 3], "crossing": [2, 3], "constraints": [], "rcc": True}],
        "main": 0}))
    # windows with an explicit start over a weighted factor that is in no crossing (weight desugaring
    # rebuilds the window: width, stride and start must survive; seed C15-desugar-window-drops-start)
    wcolor = {"id": 0, "name": "color", "kind": "simple", "levels": [["red", 2], ["blue", 1]]}
    for tag, width, stride, start, table in (
            ("late-start", 1, 1, 2, [[["red"]]]),
            ("stride2-start1", 1, 2, 1, [[["red"]]]),
            ("width2-start0", 2, 1, 0, [[["red", "red"]], [["blue", "red"]]])):
        dw = {"id": 2, "name": "dw", "kind": "derived",
              "window": {"type": "window", "deps": [0], "width": width, "stride": stride, "start": start},
              "levels": [{"name": "yes", "table": table}, {"name": "no", "else": True}]}
        for keep in (False, True):
            cons = [{"id": 0, "kind": "MinimumTrials", "trials": 4}]
            if keep:   # a constraint on the derived factor keeps it in the encoding (not implied)
                cons.append({"id": 1, "kind": "AtMostKInARow", "k": 3, "level": [2, "yes"]})
            out.append(("window-%s-weighted-source%s" % (tag, "-kept" if keep else ""), {
                "factors": [wcolor, text, dw], "constraints": cons,
                "blocks": [{"id": 0, "kind": "CrossBlock", "design": [0, 1, 2], "crossing": [1],
                            "constraints": [c["id"] for c in cons], "rcc": True}], "main": 0}))
    # two within-trial derived factors in one crossing, each reading an uncrossed basic factor: every
    # crossed derived factor must filter the source combinations (seed C04-source-filter-only-first-derived)
    fa = {"id": 0, "name": "a", "kind": "simple", "levels": [["0", 1], ["1", 1]]}
    fb_ = {"id": 1, "name": "b", "kind": "simple", "levels": [["0", 1], ["1", 1]]}
    fc = {"id": 2, "name": "c", "kind": "simple", "levels": [["0", 1], ["1", 1]]}
    ab = {"id": 3, "name": "ab", "kind": "derived", "window": {"type": "within", "deps": [0, 1]},
          "levels": [{"name": "same", "table": [[["0"], ["0"]], [["1"], ["1"]]]}, {"name": "diff", "else": True}]}
    ac = {"id": 4, "name": "ac", "kind": "derived", "window": {"type": "within", "deps": [0, 2]},
          "levels": [{"name": "same", "table": [[["0"], ["0"]], [["1"], ["1"]]]}, {"name": "diff", "else": True}]}
    for tag, crossing in (("ab-ac", [3, 4]), ("ac-ab", [4, 3])):
        out.append(("two-within-derived-crossed-" + tag, {
            "factors": [fa, fb_, fc, ab, ac], "constraints": [],
            "blocks": [{"id": 0, "kind": "CrossBlock", "design": [0, 1, 2, 3, 4], "crossing": crossing, "constraints": [], "rcc": True}],
            "main": 0}))
    # POST_PREAMBLE with crossings whose own preambles differ: every crossing starts after the unified
    # preamble, in every sampler (seed C07-randomgen-raw-preamble-sizes)
    for tag, crossings in (("plain-first", [[0, 1], [1, 2]]), ("transition-first", [[1, 2], [0, 1]])):
        out.append(("post-preamble-different-preambles-" + tag, {
            "factors": [color, text, rep], "constraints": [],
            "blocks": [{"id": 0, "kind": "MultiCrossBlock", "design": [0, 1, 2], "crossings": crossings, "constraints": [],
                        "rcc": True, "mode": "repeat", "alignment": "post preamble"}], "main": 0}))
    # a weighted ElseLevel in the crossing (within-trial and transition)
    con_w = {"id": 2, "name": "con", "kind": "derived", "window": {"type": "within", "deps": [0, 1]},
             "levels": [{"name": "yes", "table": [[["red"], ["red"]], [["blue"], ["blue"]]]}, {"name": "no", "else": True, "weight": 2}]}
    out.append(("else-level-weight-2-within", {
        "factors": [color, text, con_w], "constraints": [],
        "blocks": [{"id": 0, "kind": "CrossBlock", "design": [0, 1, 2], "crossing": [0, 2], "constraints": [], "rcc": False}],
        "main": 0}))
    rep_w = {"id": 2, "name": "rep", "kind": "derived", "window": {"type": "transition", "deps": [0]},
             "levels": [{"name": "same", "table": [[["red", "red"]], [["blue", "blue"]]]}, {"name": "diff", "else": True, "weight": 2}]}
    out.append(("else-level-weight-2-transition", {
        "factors": [color, text, rep_w], "constraints": [],
        "blocks": [{"id": 0, "kind": "CrossBlock", "design": [0, 1, 2], "crossing": [2], "constraints": [], "rcc": True}],
        "main": 0}))
    # a crossing of q = 3 plain combinations with a complex-window factor of m = 2 levels, repeated with a
    # partial last round of 1..m trials: the short-prefix fast path of the unranker decodes q-ary digits
    # (seed C09-prefix-fastpath-base-m)
    c3 = {"id": 0, "name": "colour", "kind": "simple", "levels": [["r", 1], ["g", 1], ["b", 1]]}
    prevred = {"id": 1, "name": "prevred", "kind": "derived", "window": {"type": "transition", "deps": [0]},
               "levels": [{"name": "yes", "table": [[["r", "r"]], [["r", "g"]], [["r", "b"]]]}, {"name": "no", "else": True}]}
    for trials in (8, 9):
        out.append(("repeat-complex-crossing-partial-round-%d" % trials, {
            "factors": [c3, prevred], "constraints": [{"id": 0, "kind": "MinimumTrials", "trials": trials}],
            "blocks": [{"id": 0, "kind": "CrossBlock", "design": [0, 1], "crossing": [0, 1], "constraints": [], "rcc": True},
                       {"id": 1, "kind": "Repeat", "block": 0, "constraints": [0]}], "main": 1}))
    out += weighted_derived_leftover()
    return out
