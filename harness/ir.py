"""Program-level IR of an experiment (plain JSON-able dicts), its construction
into real sweetpea objects, and extraction of the *flat record* of a real block.

program = {
  "factors": [
     {"id": 0, "name": "color", "kind": "simple", "levels": [["red", 1], ["blue", 2]]},
     {"id": 2, "name": "con", "kind": "derived",
      "window": {"type": "within"|"transition"|"window", "deps": [0, 1], "width": 1, "stride": 1, "start": None},
      "levels": [{"name": "yes", "weight": 1, "table": [ [["red"],["red"]], ... ]}, {"name": "no", "weight": 1, "else": True}]},
     {"id": 3, "name": "rt", "kind": "continuous", "dist": {...}}],
  "constraints": [ {"id": 0, "kind": "AtMostKInARow", "k": 1, "level": [fid, "red"]} | {"...", "factor": fid} , ...],
  "blocks": [ {"id": 0, "kind": "CrossBlock", "design": [..], "crossing": [..], "constraints": [cids], "rcc": True},
              {"id": 1, "kind": "MultiCrossBlock", "design", "crossings", "constraints", "rcc", "mode", "alignment"},
              {"id": 2, "kind": "Repeat", "block": bid, "constraints": [cids]},
              {"id": 3, "kind": "Merge", "blocks": [bids], "constraints": [cids], "mode", "alignment"},
              {"id": 4, "kind": "Nest", "outer": bid, "inner": bid, "constraints": [cids], "alignment"}],
  "main": bid }

A table entry is one accepted window: per depended-on factor a list of `width`
level names (None = no value yet), oldest first.
"""
import contextlib
import io
import itertools
import os


@contextlib.contextmanager
def quiet():
    with contextlib.redirect_stdout(io.StringIO()):
        yield


class Built:
    def __init__(self):
        self.factors = {}
        self.constraints = {}
        self.blocks = {}
        self.outside_domain = []   # calls of user predicates outside the documented domain
        self.errors = {}           # block id -> ("error", ExcName, message)


def _mk_predicate(built, fdesc, lev, dep_names, dep_levels, width):
    accepted = set()
    for entry in lev.get("table", []):
        accepted.add(tuple(tuple(x) for x in entry))

    def check_domain(cols):
        for names, allowed in zip(cols, dep_levels):
            for n in names:
                if n is not None and n not in allowed:
                    built.outside_domain.append((fdesc["name"], lev["name"], repr(cols)))

    if width == 1:
        def pred(*args):
            cols = tuple((a,) for a in args)
            check_domain(cols)
            return cols in accepted
    else:
        def pred(*args):
            # keys -(width-1)..0, oldest first; works for the documented dict and for
            # the list [current, previous, ...] SMGen's core passes (a[0], a[-1], ...)
            cols = tuple(tuple(a[k] for k in range(-(width - 1), 1)) for a in args)
            check_domain(cols)
            return cols in accepted
    return pred


def build_factor(built, program, fdesc):
    from sweetpea import Factor, Level, DerivedLevel, ElseLevel, WithinTrial, Transition, Window
    if fdesc["kind"] == "simple":
        levels = []
        for name, w in fdesc["levels"]:
            levels.append(Level(name, w) if w != 1 else name)
        return Factor(fdesc["name"], levels)
    if fdesc["kind"] == "derived":
        w = fdesc["window"]
        deps = [built.factors[d] for d in w["deps"]]
        dep_names = [d.name for d in deps]
        dep_levels = [set(l.name for l in d.levels) for d in deps]
        levels = []
        for lev in fdesc["levels"]:
            if lev.get("else"):
                levels.append(ElseLevel(lev["name"], lev.get("weight", 1)) if lev.get("weight", 1) != 1 else ElseLevel(lev["name"]))
                continue
            width = {"within": 1, "transition": 2}.get(w["type"], w.get("width", 1))
            pred = _mk_predicate(built, fdesc, lev, dep_names, dep_levels, width)
            if w["type"] == "within":
                win = WithinTrial(pred, deps)
            elif w["type"] == "transition":
                win = Transition(pred, deps)
            else:
                win = Window(pred, deps, width, w.get("stride", 1), w.get("start"))
            if lev.get("weight", 1) != 1:
                levels.append(DerivedLevel(lev["name"], win, lev["weight"]))
            else:
                levels.append(DerivedLevel(lev["name"], win))
        return Factor(fdesc["name"], levels)
    if fdesc["kind"] == "continuous":
        return build_continuous(built, program, fdesc)
    raise ValueError(fdesc["kind"])


class RecordingDist:
    """Deterministic integer-valued distribution: value = base + call counter
    (so the whole data flow is observable exactly); supports dependencies."""

    def __init__(self, desc, log):
        self.desc = desc
        self.log = log
        self.n = 0

    def __call__(self, *args):
        self.n += 1
        v = self.desc.get("base", 0) + self.n * self.desc.get("step", 1)
        self.log.append((self.desc.get("name"), args, v))
        return v


def build_continuous(built, program, fdesc):
    from sweetpea import ContinuousFactor, CustomDistribution
    d = fdesc.get("dist", {})
    log = built.__dict__.setdefault("dist_log", [])
    rd = RecordingDist(dict(d, name=fdesc["name"]), log)
    deps = [built.factors[x] for x in d.get("deps", [])]
    if deps:
        return ContinuousFactor(fdesc["name"], distribution=CustomDistribution(lambda *a: rd(*a), deps))
    return ContinuousFactor(fdesc["name"], distribution=CustomDistribution(lambda: rd()))


def _level_arg(built, c):
    if "factor" in c:
        return built.factors[c["factor"]]
    fid, lname = c["level"]
    return (built.factors[fid], lname)


def build_constraint(built, program, c):
    import sweetpea as sp
    k = c["kind"]
    if k in ("AtMostKInARow", "AtLeastKInARow", "ExactlyKInARow", "ExactlyK"):
        return getattr(sp, k)(c["k"], _level_arg(built, c))
    if k == "Exclude":
        return sp.Exclude(_level_arg(built, c))
    if k == "Pin":
        return sp.Pin(c["index"], _level_arg(built, c))
    if k == "MinimumTrials":
        return sp.MinimumTrials(c["trials"])
    if k == "Sequential":
        from sweetpea._internal.constraint import Sequential
        return Sequential(built.factors[c["factor"]])
    if k == "LatinSquare":
        from sweetpea._internal.constraint import LatinSquare
        return LatinSquare([built.factors[f] for f in c["factors"]])
    if k == "ContinuousConstraint":
        from sweetpea._internal.constraint import ContinuousConstraint
        bound = c.get("max", 10 ** 9)
        n = len(c["factors"])
        fn = {1: (lambda a: a <= bound), 2: (lambda a, b: a + b <= bound)}[n]
        return ContinuousConstraint([built.factors[f] for f in c["factors"]], fn)
    raise ValueError(k)


def build_block(built, program, b):
    import sweetpea as sp
    from sweetpea._internal.cross_block import Nest, Merge, Repeat
    cs = [built.constraints[c] for c in b.get("constraints", [])]
    k = b["kind"]
    if k == "CrossBlock":
        return sp.CrossBlock([built.factors[f] for f in b["design"]], [built.factors[f] for f in b["crossing"]], cs,
                             b.get("rcc", True))
    if k == "MultiCrossBlock":
        kw = {}
        if "mode" in b:
            kw["mode"] = b["mode"]
        if "alignment" in b:
            kw["alignment"] = b["alignment"]
        return sp.MultiCrossBlock([built.factors[f] for f in b["design"]],
                                  [[built.factors[f] for f in c] for c in b["crossings"]], cs, b.get("rcc", True), **kw)
    if k == "Repeat":
        return Repeat(built.blocks[b["block"]], cs)
    if k == "Merge":
        kw = {}
        if "mode" in b:
            kw["mode"] = b["mode"]
        if b.get("alignment") is not None:
            kw["alignment"] = b["alignment"]
        if not cs:
            # as a user would write it: the default argument (a mutable default shared by every call)
            return Merge([built.blocks[x] for x in b["blocks"]], **kw)
        return Merge([built.blocks[x] for x in b["blocks"]], cs, **kw)
    if k == "Nest":
        kw = {}
        if b.get("alignment") is not None:
            kw["alignment"] = b["alignment"]
        if not cs:
            return Nest(built.blocks[b["outer"]], built.blocks[b["inner"]], **kw)
        return Nest(built.blocks[b["outer"]], built.blocks[b["inner"]], cs, **kw)
    raise ValueError(k)


def build(program, only_blocks=None):
    """Build every object of the program once (shared objects, as the user
    would).  Returns Built; construction errors are recorded per block and
    propagate to dependants."""
    built = Built()
    with quiet():
        for f in program["factors"]:
            try:
                built.factors[f["id"]] = build_factor(built, program, f)
            except Exception as e:  # noqa
                built.errors[("factor", f["id"])] = ("error", type(e).__name__, str(e)[:200])
        for c in program.get("constraints", []):
            try:
                built.constraints[c["id"]] = build_constraint(built, program, c)
            except Exception as e:  # noqa
                built.errors[("constraint", c["id"])] = ("error", type(e).__name__, str(e)[:200])
        for b in program["blocks"]:
            if only_blocks is not None and b["id"] not in only_blocks:
                continue
            try:
                built.blocks[b["id"]] = build_block(built, program, b)
            except Exception as e:  # noqa
                built.errors[("block", b["id"])] = ("error", type(e).__name__, str(e)[:200])
    return built


def main_block(built, program):
    return built.blocks.get(program["main"])


# --------------------------------------------------------------------------- running strategies

def synthesize(block, n, strategy_name):
    """Returns ("ok", list_of_dicts) or ("error", ExcName, message)."""
    import sweetpea as sp
    strat = {"IterateSATGen": sp.IterateSATGen, "RandomGen": sp.RandomGen, "CMSGen": sp.CMSGen,
             "UniGen": sp.UniGen, "IterateGen": sp.IterateGen, "UniformGen": sp.UniformGen}.get(strategy_name)
    if strat is None:
        from sweetpea._internal.sampling_strategy.smgen import SMGen
        strat = SMGen
    try:
        with quiet():
            r = sp.synthesize_trials(block, n, strat)
        return ("ok", r)
    except Exception as e:  # noqa
        return ("error", type(e).__name__, "[@%s] %s" % (raise_site(e), str(e)[:300]))


def raise_site(e):
    """Name of the innermost library function on the traceback (identifies the call site of a finding)."""
    import traceback
    site = "?"
    for fr in traceback.extract_tb(e.__traceback__):
        if "sweetpea" in fr.filename:
            site = fr.name.lstrip("_") or fr.name
    return site


def user_factor_names(program, bid=None):
    """Names of the user-declared discrete factors of the main block's design, in design order."""
    fids = design_fids(program, program["main"] if bid is None else bid)
    byid = {f["id"]: f for f in program["factors"]}
    return [byid[f]["name"] for f in fids if byid[f]["kind"] != "continuous"]


def design_fids(program, bid):
    blk = {b["id"]: b for b in program["blocks"]}[bid]
    k = blk["kind"]
    if k in ("CrossBlock", "MultiCrossBlock"):
        return list(blk["design"])
    if k == "Repeat":
        return design_fids(program, blk["block"])
    if k == "Merge":
        out = []
        for x in blk["blocks"]:
            for f in design_fids(program, x):
                if f not in out:
                    out.append(f)
        return out
    if k == "Nest":
        out = list(design_fids(program, blk["outer"]))
        for f in design_fids(program, blk["inner"]):
            if f not in out:
                out.append(f)
        return out
    raise ValueError(k)


def names_to_key(sample, names):
    """Canonical hashable form of a returned experiment restricted to the given factor names."""
    return tuple(tuple(sample[n]) for n in names)


def synthesize_isolated(program, n, strategy_name, timeout=120):
    """Build the program and run the strategy in a forked child (the uniform
    samplers' C libraries may terminate the process, e.g. on an unsatisfiable
    formula).  Returns ("ok", samples) | ("error", Exc, msg) | ("crash", code, "")."""
    import pickle
    import select
    import signal
    rfd, wfd = os.pipe()
    pid = os.fork()
    if pid == 0:
        try:
            os.close(rfd)
            devnull = os.open(os.devnull, os.O_WRONLY)
            os.dup2(devnull, 1)
            os.dup2(devnull, 2)
            b = build(program)
            blk = main_block(b, program)
            if blk is None:
                out = ("error", "BuildError", repr(b.errors)[:200])
            else:
                out = synthesize(blk, n, strategy_name)
                if out[0] == "ok":
                    out = ("ok", [{str(k): list(v) for k, v in s.items()} for s in out[1]])
            data = pickle.dumps(out)
            with os.fdopen(wfd, "wb") as w:
                w.write(data)
        finally:
            os._exit(0)
    os.close(wfd)
    chunks = []
    timed_out = False
    import time as _t
    t0 = _t.time()
    with os.fdopen(rfd, "rb") as r:
        while True:
            ready, _, _ = select.select([r], [], [], 1.0)
            if ready:
                c = r.read()
                if c:
                    chunks.append(c)
                break
            if _t.time() - t0 > timeout:
                os.kill(pid, signal.SIGKILL)
                timed_out = True
                break
    _, status = os.waitpid(pid, 0)
    data = b"".join(chunks)
    if not data:
        return ("crash", "timeout" if timed_out else status, "")
    try:
        return pickle.loads(data)
    except Exception:  # noqa
        return ("crash", status, "unreadable result")
