"""Real-side observations of the variable layout (for correspondence layer L2)."""
import ir


def real_layout(block):
    """Same bundle as the model's (layout FLAT) command, as nested python lists."""
    from sweetpea._internal.primitive import DerivedFactor
    with ir.quiet():
        T = block.trials_per_sample()
        design = list(block.design)
        act = list(block.act_design)
        enc = []
        for f in act:
            per_level = []
            for l in f.levels:
                row = []
                for t in range(1, T + 1):
                    if f.applies_to_trial((t - 1) // block.sustain_count(f) + 1):
                        try:
                            row.append(block._encode_variable(f, l, t))
                        except Exception:  # noqa
                            row.append("none")
                    else:
                        row.append("skip")
                per_level.append(row)
            enc.append(per_level)
        vps = block.variables_per_sample()
        dec = []
        for v in range(1, vps + 1):
            try:
                f, l = block.decode_variable(v)
                dec.append([design.index(f), list(f.levels).index(l)])
            except Exception:  # noqa
                dec.append("none")
        vl = []
        for t in range(1, T + 1):
            try:
                vl.append(block.variable_list_for_trial(t))
            except Exception:  # noqa
                vl.append("none")
        try:
            sup = block.support_variables()
        except Exception:  # noqa
            sup = "none"
        return [block.variables_per_trial(), block.grid_variables(), vps, sup, enc, dec, vl]


def geoms_of(block):
    """within_block geometries occurring in the block's constraints (plus None)."""
    out = [None]
    for c in block.constraints:
        g = getattr(c, "within_block", None)
        if g is not None:
            out.append(g)
    return out


def real_ranges(block, g):
    try:
        return [[a, b] for a, b in block.map_block_trial_ranges(g, lambda s, e: (s, e))]
    except Exception:  # noqa
        return "none"


def real_varlists(block, f, l, g):
    try:
        return block.build_variable_lists((f, l), g)
    except Exception:  # noqa
        return "none"


def real_trialnos(block, f, b, g):
    try:
        return block.get_trial_numbers(f, b, g)
    except Exception:  # noqa
        return "none"
