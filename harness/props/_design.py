"""Shared code of the design-level checks that judge the real samplers against the
reference oracle on the common batch (design_batch.get_batch)."""
import collections
import json

import design_batch
import designrun
from common import Violation

RULE = ("corpus + seeded generated programs (1-3 basic factors x 2-3 levels, weights, 0-2 derived factors: within / "
        "transition / window with stride and start, 1-2 crossings, 0-3 constraints of every kind with k and indices "
        "straddling the trial count, MinimumTrials, CrossBlock / MultiCrossBlock / Repeat / Merge / Nest); each program "
        "is built with the real constructors, exhausted with the real IterateSATGen and RandomGen, and the complete "
        "set of valid sequences is enumerated by the extracted reference semantics (Design/Sem.v) from doc_sem(program); "
        "non-trivial = accepted by the constructor, inside doc_sem's fragment and with at least one constraint or "
        "derived factor or combinator; distinct by program JSON")


def load(ctx, res):
    batch, meta = design_batch.get_batch(ctx)
    res.rule = RULE
    res.extra["batch_wall_s"] = round(meta["wall"], 1)
    dist = collections.Counter()
    for r in batch:
        if "harness_error" in r:
            dist["harness-error"] += 1
            continue
        p = r["program"]
        dist["shape:" + design_batch.shape(p)] += 1
        if r["build"] != "ok":
            dist["rejected-by-constructor:" + str(r["build"][1])] += 1
        elif r["doc"] != "ok":
            dist["outside-docsem"] += 1
        else:
            dist["analysed"] += 1
            for k in design_batch.constraint_kinds(p):
                dist["kind:" + k] += 1
            for f in design_batch.features(p):
                dist["feature:" + f] += 1
            dist["oracle-empty" if not r.get("oracle") else "oracle-nonempty"] += 1
    res.extra["input_distribution"] = dict(dist)
    herr = [r for r in batch if "harness_error" in r]
    if herr:
        res.violations.append(Violation("harness-crash", "harness failed on %d programs: %s" % (len(herr), herr[0]["harness_error"][-300:]),
                                        {"program": herr[0]["program"]}, failing_input=False))
    return [r for r in batch if "harness_error" not in r]


def analysed(batch):
    return [r for r in batch if r["build"] == "ok" and r["doc"] == "ok"]


def nontrivial(p):
    return bool(design_batch.constraint_kinds(p)) or design_batch.shape(p) != "CrossBlock" or any(
        f["kind"] == "derived" for f in p["factors"])


def count(res, r):
    p = r["program"]
    res.count(json.dumps(p, sort_keys=True), nontrivial=nontrivial(p) and r["build"] == "ok" and r["doc"] == "ok")


def sample_case(res, r, extra=None):
    d = {"program": r["program"], "T_doc": r.get("T_doc"), "oracle_count": len(r.get("oracle", [])) if "oracle" in r else None}
    for s, rr in r.get("real", {}).items():
        d[s] = rr["status"] if rr["status"] != "ok" else "returned %d" % len(rr["keys"])
    if extra:
        d.update(extra)
    res.sample(d, limit=4)


def reanalyse(p, strategies):
    return designrun.analyse(p, strategies=strategies)


def report(res, prefix, r, still_fails, what, detail=None, causes_allowed=None):
    """Shrink the program and record a violation.  The signature is
    <failure class>:<root cause> when the shrunk program has the shape of a
    recorded root cause (harness/causes.py), else failure class + shape."""
    import causes
    p = r["program"]
    try:
        small = design_batch.shrink(p, still_fails)
    except Exception:  # noqa
        small = p
    cause = causes.classify(small, causes_allowed)
    sig = "%s:cause=%s" % (prefix, cause) if cause else design_batch.signature(prefix, small)
    res.violations.append(Violation(sig,
                                    "%s on %s program with constraints %s" % (what, design_batch.shape(small),
                                                                              design_batch.constraint_kinds(small)),
                                    {"program": small, "original_program": p, "detail": detail}))
