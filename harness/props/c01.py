"""C01 - Formula-based samplers return only valid trial sequences.

Theorems: coq/theories/Properties/C01.v (compile model denotes the reference
semantics, fragment stated there).  Correspondence: L3/L4 (harness/compile_corr.py:
the compile model against build_backend_request of the real block).  Search:
every sequence returned by IterateSATGen (exhausted) and by CMSGen / UniGen /
IterateGen / UniformGen (a few samples) is judged by the extracted reference
semantics valid_b on doc_sem(program)."""
import docsem
import designrun
import ir
from props import _design

TITLE = "formula-based samplers return only valid sequences"
LEVEL = "proof"
DOMAINS = ['Compile', 'Design']
STRATS = ("CMSGen", "UniGen", "IterateGen", "UniformGen")


def invalid_from(p, strat, n):
    try:
        ds = docsem.doc_sem(p)
    except Exception:  # noqa
        return False
    r = ir.synthesize_isolated(p, n, strat)
    if r[0] != "ok" or not r[1]:
        return False
    seqs = [docsem.seq_of_sample(ds, s) or [[-1] * ds.T for _ in ds.forder] for s in r[1]]
    return not all(designrun.oracle_valid(ds, seqs))


def run(ctx, res):
    batch = _design.load(ctx, res)
    try:
        import compile_corr
        bad = compile_corr.compile_correspondence(ctx, res, [r["program"] for r in batch if r["build"] == "ok"][:(120 if ctx.quick else 1200)])
    except ImportError:
        bad = None
        res.notes.append("compile correspondence module not present")
    nextra = 0
    found = False
    for r in _design.analysed(batch):
        _design.count(res, r)
        _design.sample_case(res, r)
        rr = r["real"].get("IterateSATGen")
        if rr and rr["status"] == "ok" and rr["keys"]:
            ok = all(rr.get("valid", [])) and not rr.get("unknown_level") and not rr.get("bad_shape")
            res.layer("valid-IterateSATGen", ok)
            if not ok:
                found = True
                i = rr["valid"].index(False) if False in rr.get("valid", []) else 0
                _design.report(res, "invalid:IterateSATGen", r, lambda p: invalid_from(p, "IterateSATGen", r["requested"]),
                               "IterateSATGen returned an invalid sequence", {"sequence": rr["keys"][i], "names": r["names"]})
        if nextra < (20 if ctx.quick else 200) and r.get("oracle"):
            nextra += 1
            ds = docsem.doc_sem(r["program"])
            for s in STRATS:
                out = ir.synthesize_isolated(r["program"], 3, s)
                if out[0] != "ok":
                    continue   # internal errors are C08's business
                seqs = [docsem.seq_of_sample(ds, x) or [[-1] * ds.T for _ in ds.forder] for x in out[1]]
                v = designrun.oracle_valid(ds, seqs)
                res.layer("valid-" + s, all(v))
                if not all(v):
                    found = True
                    _design.report(res, "invalid:" + s, r, lambda p, s=s: invalid_from(p, s, 3),
                                   "%s returned an invalid sequence" % s, {"sequence": out[1][v.index(False)]})
    if bad and not found:
        from common import Violation
        res.violations.append(Violation("corr:L3", "compile model and build_backend_request disagree on %d programs" % len(bad),
                                        {"layer": "L3", "theorems": ["C01_sound"], "first": bad[0]}, failing_input=False))


def replay(ctx, data):
    return any(invalid_from(data["program"], s, 50) for s in ("IterateSATGen",) + STRATS)
