"""C02 - Exhausting IterateSATGen yields exactly the valid sequences.

Theorems: coq/theories/Properties/C02.v.  Search: the exhausted real IterateSATGen
result, as a multiset of name-level sequences, must equal the oracle's valid set
with the documented multiplicity (weighted levels of uncrossed non-derived
factors print identically)."""
import collections

import ir
from props import _design

TITLE = "exhausted IterateSATGen = valid set"
LEVEL = "proof"
DOMAINS = ['Design', 'DocSem', 'T2']
EXTRA_PROPERTY_FILES = ["T2", "T2c", "T2e", "T2d"]   # theorems about Design/DocSem.v, the Gallina rendering of the documented semantics
STRAT = "IterateSATGen"


def diff(r, strat):
    rr = r["real"].get(strat)
    if not rr or rr["status"] != "ok" or "oracle" not in r:
        return None
    if sum(r["oracle_mult"]) + 3 > r["requested"] and len(rr["keys"]) >= r["requested"]:
        return None   # not exhausted: too many solutions for the request cap
    want = collections.Counter()
    for k, m in zip(r["oracle"], r["oracle_mult"]):
        want[k] += m
    got = collections.Counter(rr["keys"])
    if got == want:
        return False
    missing = [k for k in want if got[k] < want[k]]
    extra = [k for k in got if got[k] > want[k]]
    return {"missing": len(missing), "extra": len(extra), "example_missing": missing[:1], "example_extra": extra[:1],
            "returned": sum(got.values()), "expected": sum(want.values())}


def still(p, strat):
    from props import _design as d
    r = d.reanalyse(p, (strat,))
    if r["build"] != "ok" or r["doc"] != "ok":
        return False
    return bool(diff(r, strat))


def docsem_layer(res, batch):
    """The documented semantics exists twice: harness/docsem.py (Python, feeds the oracle) and
    coq/theories/Design/DocSem.v (Gallina, extracted; the theorems of Properties/T2.v are about it).
    They must agree on every program of this run (same normal form, same Unsupported verdicts)."""
    import json
    import docsem_corr
    from common import Violation
    progs = [r["program"] for r in batch]
    stats = {}
    try:
        bad = docsem_corr.compare(progs, stats)
    except Exception as e:  # noqa
        res.violations.append(Violation("corr:T2-docsem", "docsem.py vs Design/DocSem.v: comparison failed: %r" % (e,),
                                        {"layer": "T2-docsem-coq", "error": repr(e)}, failing_input=False))
        return
    badi = {i for i, _, _ in bad}
    for i in range(len(progs)):
        res.layer("T2-docsem-coq", i not in badi)
    res.extra["docsem_py_vs_coq"] = {"%s/%s" % k: v for k, v in sorted(stats.items())}
    if bad:
        i, a, b = bad[0]
        res.violations.append(Violation(
            "corr:T2-docsem", "harness/docsem.py and Design/DocSem.v disagree on %d programs, e.g. python %s coq %s on %s" % (
                len(bad), str(a)[:200], str(b)[:200], json.dumps(progs[i])[:600]),
            {"layer": "T2-docsem-coq", "theorems": ["T2_*"], "program": progs[i], "python": str(a)[:2000], "coq": str(b)[:2000]},
            failing_input=False))


def t2c_layer(ctx, res, batch):
    """T2(c) per run on the plain fragment (single CrossBlock of plain factors): Front/PlainInput.v +
    Front/CreateFlat.v rebuild the flat record from the PROGRAM alone, it must equal the real block's, and
    Encode/CodeSem.v's reading of it must be sem_eqv (Design/SemEqv.v: equal valid_b) to Design/DocSem.v's
    doc_sem of the program - the chain program -> code's semantics vs documented semantics, inside Coq."""
    import json
    import t2_corr
    from common import Violation
    progs = [r["program"] for r in batch] + t2_corr.plain_programs(ctx.rng, 80 if ctx.quick else 800)
    stats = {}
    try:
        bad = t2_corr.compare(progs, stats)
    except Exception as e:  # noqa
        res.violations.append(Violation("corr:T2c", "T2(c) layer failed: %r" % (e,), {"layer": "T2c-plain", "error": repr(e)},
                                        failing_input=False))
        return
    badi = {i for i, _ in bad}
    inside = 0
    for i in range(len(progs)):
        res.layer("T2c-plain", i not in badi)
    res.extra["t2c_plain"] = dict(sorted(stats.items()))
    if bad:
        i, r = bad[0]
        res.violations.append(Violation(
            "corr:T2c", "program -> create_flat -> code_sem vs doc_sem breaks on %d programs, e.g. %s on %s" % (
                len(bad), r[:200], json.dumps(progs[i])[:600]),
            {"layer": "T2c-plain", "theorems": ["T2c_*"], "program": progs[i], "result": r[:2000]}, failing_input=False))


def t2d_layer(ctx, res):
    """The same chain for single CrossBlocks with within-trial derived factors (the Stroop shape):
    Front/DerivedInput.v computes from the PROGRAM the inputs create_flat used to read from the real block
    (exclusion counts, generated derivations, excluded_derived, error flag); the created flat record must
    equal the real one, constructor exceptions must agree, and inside the guard t2d_guard the proved checker
    (T2d_checker_sound, T2d_derived_valid_partial) must accept code_sem vs doc_sem."""
    import json
    import t2_corr
    from common import Violation
    progs = t2_corr.derived_programs(ctx.rng, 400 if ctx.quick else 4000)
    stats = {}
    try:
        bad = t2_corr.compare_derived(progs, stats)
    except Exception as e:  # noqa
        res.violations.append(Violation("corr:T2d", "T2(d) layer failed: %r" % (e,), {"layer": "T2d-derived", "error": repr(e)},
                                        failing_input=False))
        return
    badi = {i for i, _ in bad}
    for i in range(len(progs)):
        res.layer("T2d-derived", i not in badi)
    res.extra["t2d_derived"] = dict(sorted(stats.items(), key=lambda kv: -kv[1])[:25])
    if bad:
        i, r = bad[0]
        res.violations.append(Violation(
            "corr:T2d", "program -> derived_input -> create_flat -> code_sem vs doc_sem breaks on %d programs, e.g. %s on %s" % (
                len(bad), r[:200], json.dumps(progs[i])[:600]),
            {"layer": "T2d-derived", "theorems": ["T2d_*"], "program": progs[i], "result": r[:2000]}, failing_input=False))


def run(ctx, res):
    batch = _design.load(ctx, res)
    docsem_layer(res, batch)
    t2c_layer(ctx, res, batch)
    t2d_layer(ctx, res)
    for r in _design.analysed(batch):
        _design.count(res, r)
        d = diff(r, STRAT)
        if d is None:
            continue
        _design.sample_case(res, r)
        res.layer("L9-" + STRAT, not d)
        if d:
            what = "exhausted %s differs from the valid set (missing %d, extra %d; returned %d, expected %d)" % (
                STRAT, d["missing"], d["extra"], d["returned"], d["expected"])
            kind = "missing" if d["missing"] and not d["extra"] else ("extra" if d["extra"] and not d["missing"] else "both")
            _design.report(res, "setdiff:%s:%s" % (STRAT, kind), r, lambda p: still(p, STRAT), what, d)


def replay(ctx, data):
    return still(data["program"], STRAT)
