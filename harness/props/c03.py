"""C03 - Each trial sequence is exactly one model of the compiled formula.

Theorems: coq/theories/Properties/C03.v (about Encode/Compile.v, Core/Card.v,
Logic/Tseitin.v).
Correspondence: `compile_corr.compile_correspondence` - the extracted model of
`build_backend_request` and of `combine_cnf_with_requests` against the real
ones on generated programs and the corpus (literal clause lists, requests and
fresh counter; the exception class where the code raises).
Search (the property itself on the real code, independent of the model): for
every small program the complete formula the samplers hand to the solver is
built with the real code and *all* its models are enumerated with pycryptosat;
grouped by their projection onto the trial variables 1..variables_per_sample
every group must have exactly one member (the auxiliary variables are fixed by
the levels chosen), every variable 1..num_vars must occur in some clause (no
free solver-visible variable), and the sampling set written for UniGen/CMSGen
must be exactly [1..variables_per_sample].
"""
import os
import tempfile
from pathlib import Path

import compile_corr
import gen_design
import ir
from common import Violation

TITLE = "each sequence is exactly one model"
LEVEL = "proof"
DOMAINS = ['Compile', 'Design']

MODEL_CAP = 20000


def real_full(block):
    """('ok', num_vars, clauses, support) | ('error', ExcName) | ('hang',)"""
    r = compile_corr.real_compile(block)
    if r[0] != "ok":
        return r[:2]
    f = compile_corr.real_full_cnf(block, r[4])
    if f[0] != "ok":
        return f[:2]
    with ir.quiet():
        support = block.variables_per_sample()
    return ("ok", f[1], f[2], support, r[4])


def enumerate_all(clauses, nvars, cap):
    """All models over variables 1..nvars (blocking on every variable); None if more than `cap`."""
    import pycryptosat
    s = pycryptosat.Solver()
    for c in clauses:
        s.add_clause(c)
    if nvars > 0:
        s.add_clause([nvars, -nvars])   # make the solver aware of every declared variable
    out = []
    while True:
        ok, sol = s.solve()
        if not ok:
            return out
        if len(out) >= cap:
            return None
        m = tuple(bool(sol[v]) for v in range(1, nvars + 1))
        out.append(m)
        s.add_clause([-(v) if m[v - 1] else v for v in range(1, nvars + 1)])


def sampling_set_of(block, br):
    """The sampling set UniGen/CMSGen receive for this block (the `c ind` lines of
    the file written by combine_and_save_cnf, read back by the library's own parser)."""
    from sweetpea._internal.core.cnf import CNF
    from sweetpea._internal.core.generate.utility import combine_and_save_cnf
    from sweetpea._internal.core.generate.tools.unigen import parse_cnf_file
    d = tempfile.mkdtemp(prefix="c03_")
    p = Path(d) / "f.cnf"
    try:
        with ir.quiet():
            combine_and_save_cnf(p, CNF(br.get_cnfs_as_json()), br.fresh - 1, block.variables_per_sample(),
                                 br.get_requests_as_generation_requests())
            clauses, sset, num_vars = parse_cnf_file(p)
        return sset, num_vars, len(clauses)
    finally:
        if p.exists():
            p.unlink()
        os.rmdir(d)


def check_program(program, cap=MODEL_CAP):
    """Decide C03 on the real code for one program.
    -> ('skip', why) | ('ok', info) | ('bad', what, detail)"""
    block, why = compile_corr.build_real(program)
    if block is None:
        return ("skip", "rejected")
    with ir.quiet():
        try:
            if block.show_errors():
                return ("skip", "show_errors")   # the samplers return nothing for such a block
        except Exception:  # noqa
            return ("skip", "show_errors raised")
    r = real_full(block)
    if r[0] != "ok":
        return ("skip", "compile:%s" % (r[1] if len(r) > 1 else r[0]))
    _, num_vars, clauses, support, br = r
    # sampling set
    try:
        sset, declared, _ = sampling_set_of(block, br)
    except Exception as e:  # noqa
        return ("bad", "sampling-set", {"error": type(e).__name__})
    if sset != list(range(1, support + 1)):
        return ("bad", "sampling-set", {"sampling_set": sset[:50], "support": support})
    used = set(abs(l) for c in clauses for l in c)
    top = max([num_vars, declared] + list(used)) if used else max(num_vars, declared)
    free = [v for v in range(1, top + 1) if v not in used]
    if free:
        return ("bad", "free-variable", {"free_variables": free[:20], "num_vars": top, "support": support})
    if declared < max(used):
        return ("bad", "header", {"declared": declared, "highest_used": max(used)})
    models = enumerate_all(clauses, top, cap)
    if models is None:
        return ("skip", "above-cap")
    groups = {}
    for m in models:
        groups.setdefault(m[:support], []).append(m)
    for proj, ms in groups.items():
        if len(ms) != 1:
            a, b = ms[0], ms[1]
            diff = [v + 1 for v in range(top) if a[v] != b[v]]
            return ("bad", "extension-not-unique",
                    {"projection_true_vars": [v + 1 for v in range(support) if proj[v]],
                     "model_a_true_vars": [v + 1 for v in range(top) if a[v]],
                     "model_b_true_vars": [v + 1 for v in range(top) if b[v]],
                     "differ_on": diff[:20], "support": support, "num_vars": top})
    return ("ok", {"models": len(models), "support": support, "num_vars": top, "aux": top - support})


def decode_models(block, models, implied=False):
    """Set of sequences (per act-design factor a tuple of level indices / 'none') the models decode to.
    With implied=True the rows of the factors outside act_design are added by the REAL
    Block.add_implied_levels (what SampleGen.decode callers do) and the rows are listed in design order."""
    with ir.quiet():
        t_n = block.trials_per_sample()
        act = list(block.act_design)
        out = set()
        for m in models:
            rows = []
            for f in act:
                sc = block.sustain_count(f)
                row = []
                for t in range(t_n):
                    if not f.applies_to_trial(t // sc + 1):
                        row.append("none")
                        continue
                    on = [li for li, l in enumerate(f.levels) if m[block._encode_variable(f, l, t + 1) - 1]]
                    row.append(on[0] if len(on) == 1 else "bad")
                rows.append(tuple(row))
            if implied:
                if any("bad" in r for r in rows):
                    out.add(("bad",) + tuple(rows))
                    continue
                named = {f.name: [("" if x == "none" else f.levels[x].name) for x in r] for f, r in zip(act, rows)}
                full = block.add_implied_levels(named)
                rows = []
                for f in block.design:
                    names = [l.name for l in f.levels]
                    rows.append(tuple(("none" if x == "" else names.index(x)) for x in full[f.name]))
            out.add(tuple(rows))
    return out


def denotation_f1(ctx, res, progs, cap=3000):
    """The statement of compile_denotes on the real code: for every generated program whose flat record
    is in the fragment F1 (CodeSem.in_f1, evaluated by the extracted model) the models of the REAL full
    CNF decode to exactly the sequences valid for code_sem (Sem.all_valid, evaluated by the extracted model)."""
    import flat as flatmod
    from common import parse_sexp
    cases = []
    for name, prog in progs:
        block, _ = compile_corr.build_real(prog)
        if block is None:
            continue
        try:
            with ir.quiet():
                if block.show_errors():
                    continue
                w = flatmod.flat_wire(block)
        except Exception:  # noqa
            continue
        cases.append((name, prog, block, w))
    if not cases:
        return []
    inf = ctx.model(["(inf1 %s)" % c[3] for c in cases])
    f1 = [c for c, x in zip(cases, inf) if x == "true"]
    # Sem.all_valid enumerates derived rows in design order: it needs every depended-on factor listed
    # before the derived factor (the theorem does not); such records are counted and skipped here
    ordered = []
    for c in f1:
        rec = flatmod.flat_of_block(c[2])
        if all(win is None or all(d < i for d in win[0]) for i, (_n, _h, _l, win, _c) in enumerate(rec[0])):
            ordered.append(c)
        else:
            res.extra["denote_skipped_unordered"] = res.extra.get("denote_skipped_unordered", 0) + 1
    f1 = ordered
    if not f1:
        return []
    outs = ctx.model(["(codesem-all %s)" % c[3] for c in f1])
    bad = []
    for (name, prog, block, w), o in zip(f1, outs):
        r = real_full(block)
        if r[0] != "ok":
            res.layer("T1-F1-denotes", False)
            bad.append({"name": name, "program": prog, "detail": "in F1 but the real compilation gave %r" % (r[:2],)})
            continue
        models = enumerate_all(r[2], r[1], cap)
        if models is None or o.startswith("!"):
            continue
        # all rows, those of the implied factors as the real add_implied_levels computes them
        real = decode_models(block, models, implied=True)
        mod = set(tuple(tuple(r) for r in q) for q in parse_sexp(o)[0])
        ok = real == mod
        if len(block.act_design) != len(block.design):
            res.extra["denote_with_implied"] = res.extra.get("denote_with_implied", 0) + 1
        res.layer("T1-F1-denotes", ok)
        res.count(("denote", name, len(real)), nontrivial=len(real) > 0)
        if not ok:
            bad.append({"name": name, "program": prog,
                        "detail": "real models decode to %d sequences, code_sem admits %d" % (len(real), len(mod))})
    return bad


def programs(ctx):
    n = 150 if ctx.quick else 1500
    out = [("corpus:" + nm, p) for nm, p in gen_design.corpus()]
    for i in range(n):
        p = gen_design.gen_program(ctx.rng, max_space=20000)
        if p is not None:
            out.append(("gen%d" % i, p))
    return out


def run(ctx, res):
    progs = programs(ctx)
    res.rule = ("corpus + %d generated programs (gen_design.gen_program, max_space=20000, all shapes and constraint kinds); "
                "correspondence: literal get_cnfs_as_json()/ll_requests/fresh (and full combined CNF) of model vs. real; "
                "search: every model of the real full CNF (cap %d models) grouped by its projection on 1..support; "
                "a case is non-trivial if the compiled formula has at least one clause / at least one auxiliary variable; "
                "distinct by flat record" % (len(progs), MODEL_CAP))
    mism = compile_corr.compile_correspondence(ctx, res, progs, blocks=compile_corr.extra_blocks())

    # search on the real code
    stats = {"checked": 0, "skipped": {}, "models": 0, "max_models": 0, "max_aux": 0}
    bad = []
    cap = MODEL_CAP
    budget = 60 if ctx.quick else 600    # seconds for the enumeration part
    import time
    t0 = time.time()
    for name, prog in progs:
        if time.time() - t0 > budget:
            stats["skipped"]["budget"] = stats["skipped"].get("budget", 0) + 1
            continue
        r = check_program(prog, cap)
        if r[0] == "skip":
            stats["skipped"][r[1]] = stats["skipped"].get(r[1], 0) + 1
            continue
        stats["checked"] += 1
        if r[0] == "ok":
            info = r[1]
            stats["models"] += info["models"]
            stats["max_models"] = max(stats["max_models"], info["models"])
            stats["max_aux"] = max(stats["max_aux"], info["aux"])
            res.count(("search", name, info["models"], info["num_vars"]), nontrivial=info["aux"] > 0 and info["models"] > 0)
            if info["models"] > 1:
                res.sample({"program": name, "models": info["models"], "support": info["support"], "aux_vars": info["aux"]})
        else:
            res.count(("search", name, r[1]))
            bad.append((name, prog, r[1], r[2]))
    den = denotation_f1(ctx, res, progs)
    res.extra["search"] = stats
    res.extra["search_space"] = ("all models of the real full CNF of every generated program with at most %d models "
                                 "(%d programs decided, %d models enumerated)" % (cap, stats["checked"], stats["models"]))
    res.extra["exhaustive"] = False
    for name, prog, what, detail in bad[:1]:
        res.violations.append(Violation(
            "c03:%s" % what,
            "%s on program %s: %s" % (what, name, str(detail)[:300]),
            {"program": prog, "what": what, "detail": detail}))
    if bad:
        res.extra["failing_programs"] = [(n, w) for n, _, w, _ in bad]
    if den and not bad:
        d0 = den[0]
        res.violations.append(Violation(
            "corr:T1-F1", "statement of compile_denotes does not hold on the real code for %d F1 programs, e.g. %s: %s" % (
                len(den), d0["name"], d0["detail"]),
            {"layer": "T1-F1-denotes", "theorems": ["C01_sound", "C02_complete", "C03_unique_extension"],
             "program": d0["program"], "detail": d0["detail"]}, failing_input=False))
    if mism and not bad:
        m = mism[0]
        res.violations.append(Violation(
            "corr:%s" % m["layer"],
            "model Encode/Compile.v and the real build_backend_request disagree on %d programs, e.g. %s: %s" % (
                len(mism), m["name"], m["detail"]),
            {"layer": m["layer"], "theorems": ["C03_unique_extension", "C03_vars_contiguous"], "program": m["program"],
             "detail": m["detail"], "mismatching_programs": len(mism)}, failing_input=False))
    elif mism:
        res.notes.append("correspondence also broken on %d programs" % len(mism))
    res.notes.append("C03 is decided by proof for the fragment stated in Properties/C03.v and by the model-enumeration "
                     "search on the real code for every generated program below the cap")


def replay(ctx, data):
    r = check_program(data["program"])
    return r[0] == "bad"
