"""C04 - RandomGen returns only valid trial sequences.

Theorems: coq/theories/Properties/C04.v (accept_sound of the enumerator model).
Correspondence: L8 (harness/random_corr.py).  Search: every sequence RandomGen
returns (exhausted on the batch) is judged by the reference semantics."""
import docsem
import designrun
import ir
from props import _design
from props.c01 import invalid_from

TITLE = "RandomGen returns only valid sequences"
LEVEL = "proof"
DOMAINS = ['Random', 'Design']


def run(ctx, res):
    batch = _design.load(ctx, res)
    found = False
    for r in _design.analysed(batch):
        _design.count(res, r)
        rr = r["real"].get("RandomGen")
        if rr and rr["status"] == "ok" and rr["keys"]:
            _design.sample_case(res, r)
            ok = all(rr.get("valid", [])) and not rr.get("unknown_level") and not rr.get("bad_shape")
            res.layer("valid-RandomGen", ok)
            if not ok:
                found = True
                i = rr["valid"].index(False) if False in rr.get("valid", []) else 0
                _design.report(res, "invalid:RandomGen", r, lambda p: invalid_from(p, "RandomGen", r["requested"]),
                               "RandomGen returned an invalid sequence", {"sequence": rr["keys"][i], "names": r["names"]})
    try:
        import random_corr
        random_corr.random_correspondence(ctx, res, [r["program"] for r in batch if r["build"] == "ok"][:(100 if ctx.quick else 1000)])
        bad = sum(d["mismatches"] for name, d in res.corr.items() if name.startswith("L8"))
        if bad and not found:
            from common import Violation
            res.violations.append(Violation("corr:L8", "enumerator model Random/Enum.v and UCSolutionEnumerator disagree on %d observations" % bad,
                                            {"layer": "L8", "theorems": ["C04_accept_sound_partial"],
                                             "layers": {k: v for k, v in res.corr.items() if k.startswith("L8")}}, failing_input=False))
    except ImportError:
        res.notes.append("random correspondence module not present")


def replay(ctx, data):
    return invalid_from(data["program"], "RandomGen", 200)
