"""C05 - RandomGen samples uniformly: one candidate per valid sequence.

Theorems: coq/theories/Properties/C05.v (about Random/Enum.v).
Correspondence (layer L8, harness/random_corr.py): for generated programs the
real `UCSolutionEnumerator(block)` is instantiated and compared with the
extracted model on the flat record of the real block: constructor outcome,
the three counts, shapes and partitions, and - for designs with at most 5000
candidate keys - EVERY key decoded through the enumerator's own methods
(`generate_preamble_sample`, `generate_sample_from_components`,
`generate_leftover_sample`, `__combine_round`,
`fill_in_nonpreamble_uncrossed_derived`) against the model's decode, and the
verdict of the real rejection test `__are_constraints_violated`.
Search (the property itself, on the real code, oracle independent of it): the
multiset of name-level sequences of the accepted candidates must equal the set
of valid sequences of the documentation-side semantics
(`designrun.oracle_all(docsem.doc_sem(program))`), each valid sequence hit by
exactly one accepted key - times the documented multiplicity for weighted levels
of non-derived factors outside every crossing (`designrun.name_multiplicity`).
"""
import collections
import json

import common
import designrun
import docsem
import gen_design
import ir
import random_corr
from common import Violation

TITLE = "RandomGen: one candidate per valid sequence"
LEVEL = "proof"
DOMAINS = ['Random', 'Design']

MAX_KEYS = 5000
MAX_SPACE = 20000


def programs_for(ctx):
    n = 150 if ctx.quick else 1500
    progs = [("corpus:" + name, p) for name, p in gen_design.corpus()]
    progs += [("corpus:" + name, p) for name, p in extra_corpus()]
    i = 0
    while len(progs) < n + len(gen_design.corpus()):
        p = gen_design.gen_program(ctx.rng, MAX_SPACE)
        i += 1
        if p is not None:
            progs.append(("gen:%d" % i, p))
    # a stream (mostly) inside the proved fragment (Frag.frag2): one crossing of plain factors, free factors,
    # Repeat / MinimumTrials for several rounds and a leftover round, exclusions and constraints by rejection,
    # every third one with weighted levels / a crossing weight; some MultiCrossBlocks (further crossings by rejection);
    # every fourth one with within-trial derived factors, every eighth one a Nest
    nfrag = 40 if ctx.quick else 300
    j = 0
    tries = 0
    while j < nfrag and tries < 50 * nfrag:
        tries += 1
        if j % 4 == 3:
            # every fourth program: within-trial derived factors (in the sampled crossing or not) over plain factors
            p = gen_design.gen_program(ctx.rng, 3000, shape=ctx.rng.choice(["cross", "cross", "repeat"]),
                                       features={"derived": True, "wtype": "within", "weighted_p": 0.0})
            if p is not None and not any(f["kind"] == "derived" for f in p["factors"]):
                continue
        elif j % 8 == 5:
            # some nested designs (a sustained outer crossing, enforced by rejection)
            p = gen_design.gen_program(ctx.rng, 3000, shape="nest", features={"derived": False, "weighted_p": 0.0})
        else:
            p = gen_design.gen_program(ctx.rng, 3000, shape=ctx.rng.choice(["cross", "cross", "repeat", "multi"]),
                                       features={"derived": False, "weighted_p": 0.5 if j % 3 == 2 else 0.0})
        if p is None:
            continue
        if j % 2 == 0:
            # every other program: nothing that needs rejection (the earlier fragment Frag.frag0)
            keep = [c for c in p["constraints"] if c["kind"] == "MinimumTrials"]
            ids = {c["id"] for c in keep}
            p["constraints"] = keep
            for b in p["blocks"]:
                b["constraints"] = [c for c in b.get("constraints", []) if c in ids]
        j += 1
        progs.append(("frag:%d" % j, p))
    return progs


def extra_corpus():
    """One program per branch of the enumerator that the random stream hits rarely."""
    f0 = {"id": 0, "name": "f0", "kind": "simple", "levels": [["a", 1], ["b", 1]]}
    f1 = {"id": 1, "name": "f1", "kind": "simple", "levels": [["x", 1], ["y", 1], ["z", 1]]}
    fw = {"id": 1, "name": "fw", "kind": "simple", "levels": [["x", 2], ["y", 1]]}
    con = {"id": 2, "name": "con", "kind": "derived", "window": {"type": "within", "deps": [0, 1]},
           "levels": [{"name": "yes", "table": [[["a"], ["x"]], [["b"], ["y"]]]}, {"name": "no", "else": True}]}
    out = []
    # no-rejection fragment: independent factor, leftover rounds through MinimumTrials on a Repeat
    out.append(("independent+repeat-leftover", {
        "factors": [f0, f1], "constraints": [{"id": 0, "kind": "MinimumTrials", "trials": 5}],
        "blocks": [{"id": 0, "kind": "CrossBlock", "design": [0, 1], "crossing": [0], "constraints": [], "rcc": True},
                   {"id": 1, "kind": "Repeat", "block": 0, "constraints": [0]}], "main": 1}))
    # crossing weight via MinimumTrials (counters), leftover
    out.append(("crossing-weight-leftover", {
        "factors": [f0, f1], "constraints": [{"id": 0, "kind": "MinimumTrials", "trials": 5}],
        "blocks": [{"id": 0, "kind": "CrossBlock", "design": [0, 1], "crossing": [0], "constraints": [0], "rcc": True}],
        "main": 0}))
    # weighted crossed level
    out.append(("weighted-crossed", {
        "factors": [f0, fw], "constraints": [],
        "blocks": [{"id": 0, "kind": "CrossBlock", "design": [0, 1], "crossing": [0, 1], "constraints": [], "rcc": True}],
        "main": 0}))
    # weighted uncrossed level (desugared; multiplicity)
    out.append(("weighted-uncrossed", {
        "factors": [f0, fw], "constraints": [],
        "blocks": [{"id": 0, "kind": "CrossBlock", "design": [0, 1], "crossing": [0], "constraints": [], "rcc": True}],
        "main": 0}))
    # crossed within-trial derived factor with an uncrossed source factor
    out.append(("crossed-derived-uncrossed-source", {
        "factors": [f0, f1, con], "constraints": [],
        "blocks": [{"id": 0, "kind": "CrossBlock", "design": [0, 1, 2], "crossing": [0, 2], "constraints": [], "rcc": True}],
        "main": 0}))
    # Exclude on a level of a free (uncrossed, independent) factor, with and without a leftover round:
    # the count, the candidate decoding of full rounds and of the leftover round must all use the
    # same filtered level list (seeded change C05-leftover-unfiltered-independent-levels)
    for tag, trials, inner in (("repeat-leftover", 3, True), ("repeat-noleftover", 4, True),
                               ("weight-leftover", 3, False), ("repeat-2leftover", 5, True)):
        cons = [{"id": 0, "kind": "Exclude", "level": [1, "z"]}, {"id": 1, "kind": "MinimumTrials", "trials": trials}]
        if inner:
            blocks = [{"id": 0, "kind": "CrossBlock", "design": [0, 1], "crossing": [0], "constraints": [0], "rcc": False},
                      {"id": 1, "kind": "Repeat", "block": 0, "constraints": [1]}]
            main = 1
        else:
            blocks = [{"id": 0, "kind": "CrossBlock", "design": [0, 1], "crossing": [0], "constraints": [0, 1], "rcc": False}]
            main = 0
        out.append(("free-exclude-" + tag, {"factors": [f0, f1], "constraints": cons, "blocks": blocks, "main": main}))
    f2 = {"id": 2, "name": "f2", "kind": "simple", "levels": [["p", 1], ["q", 1]]}
    out.append(("free-exclude-two-crossed-leftover", {
        "factors": [f0, f1, f2],
        "constraints": [{"id": 0, "kind": "Exclude", "level": [1, "x"]}, {"id": 1, "kind": "MinimumTrials", "trials": 5}],
        "blocks": [{"id": 0, "kind": "CrossBlock", "design": [0, 1, 2], "crossing": [0, 2], "constraints": [0], "rcc": False},
                   {"id": 1, "kind": "Repeat", "block": 0, "constraints": [1]}], "main": 1}))
    return out


def oracle_sets(entries):
    """entries: list of (idx, program) -> {idx: ("ok", ds, {name_key: multiplicity}) | ("unsupported", why)}.
    One model call for all programs."""
    out = {}
    lines, who = [], []
    for idx, program in entries:
        try:
            ds = docsem.doc_sem(program)
        except docsem.Unsupported as e:
            out[idx] = ("unsupported", str(e))
            continue
        except Exception as e:  # noqa
            out[idx] = ("unsupported", "doc_sem raised %r" % (e,))
            continue
        lines.append("(allvalid %s)" % docsem.to_wire(ds.sem))
        who.append((idx, program, ds))
    res = common.run_model(lines) if lines else []
    for (idx, program, ds), line in zip(who, res):
        if line.startswith("!"):
            out[idx] = ("unsupported", "oracle failed: " + line[:80])
            continue
        r = common.parse_sexp(line)
        names = ir.user_factor_names(program)
        exp = {}
        for q in r[1]:
            k = ir.names_to_key(docsem.sample_of_seq(ds, q), names)
            exp[k] = exp.get(k, 0) + designrun.name_multiplicity(program, ds, q)
        out[idx] = ("ok", ds, exp, r[0])
    return out


def cause_tag(rec, ds=None):
    """Front-end conditions (findings of other properties, or readings of the
    documentation that are the requester's to decide) that change what a valid
    name-level sequence is; they are kept apart in the signature, not hidden."""
    blk = rec["block"]
    strs = [f.name for f in blk.design if isinstance(f.name, str)]
    if len(set(strs)) != len(strs):
        return ":dupnames"      # Merge of blocks that desugared a weighted factor differently (C23 / C14)
    import causes
    if causes.derived_chain_in_crossing(rec["program"]):
        # a crossed within-trial derived factor that reads another derived factor of the same crossing:
        # combinations impossible only through the chain stay in the crossing (open findings of C02/C06/C09)
        return ":derived-chain-in-crossing"
    if ds is not None:
        # where each crossing starts: code (preamble_size per crossing, times sustain) vs documentation-side semantics
        try:
            code = [blk.preamble_size(c) * blk.crossing_sustain_count(c) for c in blk.crossings]
            doc = [c[1] for c in ds.sem[2]]
            if code != doc:
                from sweetpea._internal.cross_block import AlignmentMode
                if blk.alignment == AlignmentMode.POST_PREAMBLE and blk._alignment_preamble > max(list(blk.preamble_sizes) + [0]):
                    # an uncrossed complex factor delays every crossing (code) but not in the documentation
                    return ":alignment-preamble"
                return ":crossing-start-differs"
            # chunk length of each crossing: code (crossing_size x crossing_weight) vs documentation-side semantics
            code_chunk = [blk.crossing_sizes[i] * blk.crossing_weight(c) for i, c in enumerate(blk.crossings)]
            doc_chunk = [c[2] for c in ds.sem[2]]
            if code_chunk != doc_chunk:
                # e.g. a crossing of mutually dependent derived factors: the code keeps (and then cannot fill)
                # combinations that the documentation-side semantics drops as impossible
                return ":crossing-size-differs"
        except Exception:  # noqa
            pass
    return ""


def signature(kind):
    """Stable signatures (matched against known_findings.json)."""
    if kind.startswith("constructor-raises:KeyError@__count_solutions"):
        # crossed within-trial derived factor whose window contains an uncrossed derived factor
        return "random:keyerror:derived-source"
    if kind.endswith(":alignment-preamble"):
        return "random:alignment-preamble"
    return "c05:" + kind


def judge(program, rec, oracle):
    """C05 on the real code for one program: returns (list of (kind, detail, key), stats)."""
    blk, en = rec["block"], rec["enumerator"]
    names = ir.user_factor_names(program)
    exp = oracle[2]
    tag = cause_tag(rec, oracle[1])
    got = collections.Counter()
    first_key = {}
    bad = []
    accepted = 0
    for key, rows, v, run in rec["real_all"]:
        if isinstance(rows, tuple):
            bad.append(("key-raises:%s@%s" % (rows[1], rows[2].split(":")[0]),
                        "decoding candidate key raises %s at %s" % (rows[1], rows[2]), key))
            continue
        if isinstance(v, tuple):
            bad.append(("key-raises:%s@%s" % (v[1], v[2].split(":")[0]),
                        "rejection test raises %s at %s" % (v[1], v[2]), key))
            continue
        if v:
            continue
        accepted += 1
        try:
            smp = random_corr.real_names(blk, en, run)
            k = ir.names_to_key(smp, names)
        except Exception as e:  # noqa
            bad.append(("output-raises:%s" % type(e).__name__, "converting an accepted candidate to names raises %r" % (e,), key))
            continue
        got[k] += 1
        first_key.setdefault(k, []).append(key)
    if bad:
        # some candidate could not be decoded, judged or turned into a name-level sequence:
        # the comparison with the valid set would only repeat that finding
        return bad, {"accepted": accepted, "valid": sum(exp.values()), "keys": len(rec["real_all"])}
    for k, n in got.items():
        if k not in exp:
            bad.append(("invalid" + tag, "accepted candidate is not a valid sequence: %r" % (dict(zip(names, k)),), first_key[k][0]))
        elif n > exp[k]:
            bad.append(("duplicate" + tag, "valid sequence %r produced by %d accepted keys (expected %d)" % (
                dict(zip(names, k)), n, exp[k]), first_key[k][1 if len(first_key[k]) > 1 else 0]))
        elif n < exp[k]:
            bad.append(("missing" + tag, "valid sequence %r produced by only %d accepted keys (expected %d)" % (
                dict(zip(names, k)), n, exp[k]), first_key[k][0]))
    for k in exp:
        if k not in got:
            bad.append(("missing" + tag, "valid sequence %r produced by no accepted key" % (dict(zip(names, k)),), None))
    return bad, {"accepted": accepted, "valid": sum(exp.values()), "keys": len(rec["real_all"])}


def features(rec):
    s = rec["enum_real"][1]
    f = []
    if not s[4]:
        f.append("weighted")
    if s[3] > 1:
        f.append("complex-crossed")
    if s[1] > 0:
        f.append("preamble")
    if s[9] > 0:
        f.append("leftover")
    if s[10] > 1:
        f.append("rounds>1")
    if len(s[14]) > 1:
        f.append("multi-crossing")
    if any(len(x) for x in s[18]) and s[12][1] and max(s[12][1]) > 1 or (s[12][1] and min(s[12][1]) == 0):
        f.append("source-filter")
    if s[21]:
        f.append("independent")
    if s[20]:
        f.append("fill-in-derived")
    return f


def run(ctx, res):
    progs = programs_for(ctx)
    res.rule = ("%d programs: hand-written corpus + gen_design.gen_program(max_space=%d) (all shapes: cross/multi/repeat/merge/nest, "
                "derived within/transition/window, every constraint kind, weights) + a stream inside the proved fragment Frag.frag2 "
                "(plain crossing, free factors, exclusions, constraints by rejection, Repeat/MinimumTrials rounds and leftover); every candidate key of designs with <= %d keys "
                "decoded by the real enumerator and by the model; non-trivial = distinct (main crossing, preamble, crossing size, m, "
                "weighted?, instances, possible keys) tuples" % (len(progs), MAX_SPACE, MAX_KEYS))
    res.notes.append("level: proof for designs inside Frag.frag2 (Properties/C05.v: *_partial on Frag.frag1, *_frag2 with weights; closed under the global context); outside it the "
                     "property is decided per design by exhaustive enumeration of the real enumerator's keys against the reference "
                     "oracle (translation validation), with the model tied to the code by layer L8")
    recs = random_corr.random_correspondence(ctx, res, [p for _, p in progs], max_keys=MAX_KEYS)
    hist = random_corr.summarize(recs)
    res.extra["L8_status"] = hist
    feat = collections.Counter()
    # ---- correspondence mismatches
    mism = [(name, r) for (name, _), r in zip(progs, recs) if r["mismatch"]]
    # ---- search
    entries = [(i, r["program"]) for i, r in enumerate(recs) if r.get("real_all") is not None and r["status"] in ("compared", "no-solutions")]
    raising = [(i, r) for i, r in enumerate(recs) if r["status"] == "enumerator-raises"]
    oracles = oracle_sets(entries + [(i, r["program"]) for i, r in raising])
    judged = 0
    stats = collections.Counter()
    found = []
    for i, _ in entries:
        rec = recs[i]
        for f in features(rec):
            feat[f] += 1
        o = oracles[i]
        if o[0] != "ok":
            stats["oracle-unsupported"] += 1
            continue
        if rec["show_errors"]:
            # RandomGen returns no samples at all: the design is not accepted
            stats["not-accepted(show_errors)"] += 1
            continue
        if o[1].T != rec["T"]:
            # the code's trial count differs from the documented one: a finding of C16, and
            # sequences of different lengths cannot be compared
            stats["trial-count-differs(C16)"] += 1
            continue
        bad, st = judge(rec["program"], rec, o)
        judged += 1
        stats["judged"] += 1
        stats["keys"] += st["keys"]
        stats["accepted"] += st["accepted"]
        stats["valid"] += st["valid"]
        if st["accepted"] < st["keys"]:
            stats["designs-with-rejection"] += 1
        res.count(("search", progs[i][0], st["keys"], st["valid"]), nontrivial=st["valid"] > 0)
        if len(res.samples) < 4 and st["valid"] > 1:
            res.sample({"program": progs[i][0], "keys": st["keys"], "accepted": st["accepted"], "valid_sequences": st["valid"],
                        "features": features(rec)})
        for kind, what, key in bad:
            found.append((kind, what, key, i))
    # constructor raises although the design has valid sequences and show_errors() passes
    for i, rec in raising:
        o = oracles.get(i)
        ex = rec["enum_real"]
        where = ex[2].split(":")[0]
        stats["constructor-raises:%s@%s" % (ex[1], where)] += 1
        if o and o[0] == "ok" and not rec.get("show_errors") and sum(o[2].values()) == 0:
            stats["constructor-raises-but-no-valid-sequence(vacuous)"] += 1
        if o and o[0] == "ok" and not rec.get("show_errors") and sum(o[2].values()) > 0:
            nvalid = sum(o[2].values())
            found.append(("constructor-raises:%s@%s" % (ex[1], where),
                          "UCSolutionEnumerator raises %s at %s on a design show_errors() accepts (%d valid sequences): no candidate is produced"
                          % (ex[1], ex[2], nvalid), None, i))
    res.extra["search"] = dict(stats)
    thm = collections.Counter()
    gen_thm = collections.Counter()     # over the generated stream only ("gen:..." programs)
    thm_bad = []
    for (name, _), r in zip(progs, recs):
        t = r.get("thm")
        if t is None:
            if name.startswith("gen:"):
                gen_thm["not-built"] += 1
            continue
        inside = t[0] in ("frag", "big", "refused")
        level = (t[10] if t[0] == "frag" else t[-1]) if inside else None     # 0: frag0, 1: frag1, 2: frag2 (weights)
        thm[t[0]] += 1
        if inside and level == 2:
            thm["weighted"] += 1
        if name.startswith("gen:"):
            gen_thm["frag2" if inside else "outside"] += 1
            if inside and level <= 1:
                gen_thm["frag1"] += 1
            if inside and level == 0:
                gen_thm["frag0"] += 1
        if t[0] == "frag" and not (all(x is True for x in t[2:7]) and t[11] is True):
            thm_bad.append((name, r, t))
    ngen = sum(gen_thm[k] for k in ("frag2", "outside", "not-built"))
    share = lambda k: round(gen_thm.get(k, 0) / ngen, 4) if ngen else None
    res.extra["proved_fragment"] = {
        "frag2_designs_evaluated": thm.get("frag", 0), "frag2_too_many_keys": thm.get("big", 0),
        "frag2_refused_by_show_errors": thm.get("refused", 0), "frag2_weighted_designs": thm.get("weighted", 0),
        "outside_fragment": thm.get("outside", 0),
        "generated_programs": ngen, "generated_in_frag2": gen_thm.get("frag2", 0),
        "generated_in_frag1": gen_thm.get("frag1", 0), "generated_in_frag0": gen_thm.get("frag0", 0),
        "share_of_generated_in_frag2": share("frag2"), "share_of_generated_in_frag1": share("frag1"),
        "share_of_generated_in_frag0": share("frag0"),
        "note": "frag2 = Frag.frag2 (Properties/C04-C07 *_frag2; weights, further crossings, implied factors, within-trial derived factors of act_design in the sampled crossing or filled in after the draw, sustained further crossings), it contains Frag.frag1 (the *_partial theorems) which "
                "contains the first fragment Frag.frag0; shares are over the gen_design.gen_program stream only (programs the "
                "constructors reject count as outside); for the designs inside the fragment the executable statements of the "
                "theorems - and the side condition FragSem.enumerates_b of the frag2 completeness / count theorems - were also "
                "evaluated on the extracted model against Sem.all_valid"}
    res.extra["features_exercised"] = dict(feat)
    seen = set()
    for kind, what, key, i in found:
        if signature(kind) in seen:
            continue
        seen.add(signature(kind))
        res.violations.append(Violation(signature(kind), "%s [%s]" % (what, progs[i][0]),
                                        {"program": recs[i]["program"], "key": random_corr._tolist(key) if key is not None else None,
                                         "kind": kind}))
    if mism:
        # (run.py prints a broken tie only when no unlisted concrete failing input explains it)
        name, r = mism[0]
        res.violations.append(Violation(
            "corr:L8", "model Random/Enum.v and the real UCSolutionEnumerator disagree on %d programs, e.g. %s: %s" % (
                len(mism), name, r["mismatch"][:600]),
            {"layer": "L8", "theorems": ["C05_*"], "program": r["program"], "key": r.get("mismatch_key"),
             "mismatch": r["mismatch"][:1500]}, failing_input=False))
    if thm_bad:
        name, r, t = thm_bad[0]
        res.violations.append(Violation(
            "corr:theorem-statement", "executable statement of a C04-C06 theorem is false on the model for %s: %r" % (name, t),
            {"layer": "L8-theorem-statements", "program": r["program"], "result": list(t)}, failing_input=False))
    res.notes.append("L8: %s" % json.dumps(hist, sort_keys=True))
    res.notes.append("search: %s" % json.dumps(dict(stats), sort_keys=True))


def replay(ctx, data):
    """True iff the recorded kind of violation still occurs on the recorded program."""
    res = common.Result()
    recs = random_corr.random_correspondence(ctx, res, [data["program"]], max_keys=MAX_KEYS)
    rec = recs[0]
    kind = data.get("kind", "")
    if data.get("layer") == "L8":
        return rec["mismatch"] is not None
    if kind.startswith("constructor-raises"):
        return rec["status"] == "enumerator-raises" and ("constructor-raises:%s@%s" % (
            rec["enum_real"][1], rec["enum_real"][2].split(":")[0])) == kind
    if rec.get("real_all") is None:
        return False
    o = oracle_sets([(0, data["program"])])[0]
    if o[0] != "ok":
        return False
    bad, _ = judge(data["program"], rec, o)
    return any(signature(k) == signature(kind) for k, _, _ in bad)
