"""C06 - Exhausting RandomGen yields exactly the valid set; reported count is exact.

Theorems: coq/theories/Properties/C06.v.  Search: the exhausted real RandomGen
result, as a multiset of name-level sequences, must equal the oracle's valid set
with the documented multiplicity (weighted levels of uncrossed non-derived
factors print identically)."""
import collections

import ir
from props import _design

TITLE = "exhausted RandomGen = valid set"
LEVEL = "proof"
DOMAINS = ['Design']
STRAT = "RandomGen"


def diff(r, strat):
    rr = r["real"].get(strat)
    if not rr or rr["status"] != "ok" or "oracle" not in r:
        return None
    if sum(r["oracle_mult"]) + 3 > r["requested"] and len(rr["keys"]) >= r["requested"]:
        return None   # not exhausted: too many solutions for the request cap
    want = collections.Counter()
    for k, m in zip(r["oracle"], r["oracle_mult"]):
        want[k] += m
    got = collections.Counter(rr["keys"])
    if got == want:
        return False
    missing = [k for k in want if got[k] < want[k]]
    extra = [k for k in got if got[k] > want[k]]
    return {"missing": len(missing), "extra": len(extra), "example_missing": missing[:1], "example_extra": extra[:1],
            "returned": sum(got.values()), "expected": sum(want.values())}


def still(p, strat):
    from props import _design as d
    r = d.reanalyse(p, (strat,))
    if r["build"] != "ok" or r["doc"] != "ok":
        return False
    return bool(diff(r, strat))


def run(ctx, res):
    batch = _design.load(ctx, res)
    for r in _design.analysed(batch):
        _design.count(res, r)
        d = diff(r, STRAT)
        if d is None:
            continue
        _design.sample_case(res, r)
        res.layer("L9-" + STRAT, not d)
        if d:
            what = "exhausted %s differs from the valid set (missing %d, extra %d; returned %d, expected %d)" % (
                STRAT, d["missing"], d["extra"], d["returned"], d["expected"])
            kind = "missing" if d["missing"] and not d["extra"] else ("extra" if d["extra"] and not d["missing"] else "both")
            _design.report(res, "setdiff:%s:%s" % (STRAT, kind), r, lambda p: still(p, STRAT), what, d)


def replay(ctx, data):
    return still(data["program"], STRAT)
