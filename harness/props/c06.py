"""C06 - Exhausting RandomGen yields exactly the valid set; reported count is exact.

Theorems: coq/theories/Properties/C06.v.  Search: the exhausted real RandomGen
result, as a multiset of name-level sequences, must equal the oracle's valid set
with the documented multiplicity (weighted levels of uncrossed non-derived
factors print identically)."""
import collections

import ir
from props import _design

TITLE = "exhausted RandomGen = valid set"
LEVEL = "proof"
DOMAINS = ['Design']
STRAT = "RandomGen"


def diff(r, strat):
    rr = r["real"].get(strat)
    if not rr or rr["status"] != "ok" or "oracle" not in r:
        return None
    if sum(r["oracle_mult"]) + 3 > r["requested"] and len(rr["keys"]) >= r["requested"]:
        return None   # not exhausted: too many solutions for the request cap
    want = collections.Counter()
    for k, m in zip(r["oracle"], r["oracle_mult"]):
        want[k] += m
    got = collections.Counter(rr["keys"])
    if got == want:
        return False
    missing = [k for k in want if got[k] < want[k]]
    extra = [k for k in got if got[k] > want[k]]
    return {"missing": len(missing), "extra": len(extra), "example_missing": missing[:1], "example_extra": extra[:1],
            "returned": sum(got.values()), "expected": sum(want.values())}


def still(p, strat):
    from props import _design as d
    r = d.reanalyse(p, (strat,))
    if r["build"] != "ok" or r["doc"] != "ok":
        return False
    return bool(diff(r, strat))


def drawable(en, shape, trial_count, lo, cap=60000):
    """How many distinct `Components` triples `random_components(shape, trial_count, lo)` can
    return (computed from the enumerator's own shapes and `jth_permutation_indices`), or None
    when that needs more than `cap` permutation lookups."""
    q = len(en._crossing_instances)
    ind = 1
    for x in shape.independent_shapes:
        ind *= x
    if trial_count == q and en._crossing_is_unweighted:
        n = shape.crossings_shape
        for x in shape.combinations_shapes:
            n *= x
        return n * ind
    if shape.crossings_shape > cap:
        return None
    total = 0
    for pi in range(shape.crossings_shape):
        perm = en.jth_permutation_indices(q, en.crossing_size if lo == 0 else lo, pi,
                                          en._pmemo if lo == 0 else en._leftover_pmemo)
        n = 1
        for p_ in perm:
            n *= shape.combinations_shapes[p_]
        total += n
    return total * ind


def stops(program):
    """The exhausting loop of RandomGen.__sample ends (with probability 1) iff the number of
    distinct keys its draws can produce equals the `possible_keys` it waits for: it leaves the
    loop only when `len(used_keys) == possible_keys` or enough samples were accepted.
    -> None (not decidable here) | (True, n, n) | (False, drawable, possible_keys)"""
    import random_corr
    b = ir.build(program)
    blk = ir.main_block(b, program)
    if blk is None:
        return None
    with ir.quiet():
        if blk.show_errors():
            return None
    r = random_corr.real_enumerator(blk, limit=20)
    if r[0] != "ok":
        return None
    en = r[1]
    if en.solution_count() == 0:
        return None
    T, rounds, leftover = random_corr.real_geometry(blk, en)
    possible = en.preamble_solution_count() * pow(en.solution_count(), rounds) * en.leftover_solution_count()
    with ir.quiet():
        per_round = drawable(en, en._components_shape, en.crossing_size, 0)
        per_left = drawable(en, en._leftover_components_shape, leftover, leftover) if leftover > 0 else 1
    if per_round is None or per_left is None:
        return None
    can = en.preamble_solution_count() * pow(per_round, rounds) * per_left
    return (can == possible, can, possible)


def never_stops(program):
    try:
        r = stops(program)
    except Exception:  # noqa
        return False
    return r is not None and not r[0]


def hangs(p, strat, n):
    out = ir.synthesize_isolated(p, n, strat, timeout=20)
    return out[0] == "crash" and out[1] == "timeout"


def run(ctx, res):
    batch = _design.load(ctx, res)
    for r in _design.analysed(batch):
        _design.count(res, r)
        rr = r["real"].get(STRAT)
        # "and then stops": decided on the real enumerator without waiting for the loop
        try:
            st = stops(r["program"]) if rr else None
        except Exception as e:  # noqa
            st = None
            res.extra.setdefault("termination_undecided_errors", []).append(repr(e)[:80])
        if st is not None:
            res.layer("termination-" + STRAT, st[0])
            if not st[0]:
                _design.sample_case(res, r)
                _design.report(res, "nonterminating:%s" % STRAT, r, never_stops,
                               "%s can draw %d distinct keys but waits for %d before it stops: an exhausting request never returns" % (
                                   STRAT, st[1], st[2]))
                continue
        if rr and rr["status"] == "error" and rr.get("exc") == "Timeout":
            # slow is not wrong: the loop provably ends (above) or could not be decided; counted, not reported
            res.extra["timeouts_inconclusive"] = res.extra.get("timeouts_inconclusive", 0) + 1
            continue
        d = diff(r, STRAT)
        if d is None:
            continue
        _design.sample_case(res, r)
        res.layer("L9-" + STRAT, not d)
        if d:
            what = "exhausted %s differs from the valid set (missing %d, extra %d; returned %d, expected %d)" % (
                STRAT, d["missing"], d["extra"], d["returned"], d["expected"])
            kind = "missing" if d["missing"] and not d["extra"] else ("extra" if d["extra"] and not d["missing"] else "both")
            _design.report(res, "setdiff:%s:%s" % (STRAT, kind), r, lambda p: still(p, STRAT), what, d)


def replay(ctx, data):
    return never_stops(data["program"]) or still(data["program"], STRAT)
