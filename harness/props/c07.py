"""C07 - SAT-based and combinatoric samplers agree on the solution space.

Theorems: coq/theories/Properties/C07.v.  Search (needs no oracle): on every
program both strategies accept, the exhausted IterateSATGen and RandomGen
name-level solution multisets are compared."""
import collections

from props import _design

TITLE = "IterateSATGen and RandomGen agree"
LEVEL = "proof"
DOMAINS = ['Design']


def diff(r):
    a, b = r["real"].get("IterateSATGen"), r["real"].get("RandomGen")
    if not a or not b or a["status"] != "ok" or b["status"] != "ok":
        return None
    if len(a["keys"]) >= r["requested"] or len(b["keys"]) >= r["requested"]:
        return None
    ca, cb = collections.Counter(a["keys"]), collections.Counter(b["keys"])
    if ca == cb:
        return False
    return {"only_sat": [k for k in ca if k not in cb][:1], "only_random": [k for k in cb if k not in ca][:1],
            "sat_total": sum(ca.values()), "random_total": sum(cb.values()),
            "multiplicity_only": set(ca) == set(cb)}


def still(p):
    r = _design.reanalyse(p, ("IterateSATGen", "RandomGen"))
    return r["build"] == "ok" and bool(diff(r))


def run(ctx, res):
    batch = _design.load(ctx, res)
    for r in batch:
        _design.count(res, r)
        if r["build"] != "ok":
            continue
        d = diff(r)
        if d is None:
            continue
        _design.sample_case(res, r)
        res.layer("sat-vs-random", not d)
        if d:
            _design.report(res, "disagree:" + ("multiplicity" if d["multiplicity_only"] else "sets"), r, still,
                           "IterateSATGen (%d) and RandomGen (%d) disagree" % (d["sat_total"], d["random_total"]), d)


def replay(ctx, data):
    return still(data["program"])
