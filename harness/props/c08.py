"""C08 - Synthesis never fails internally on an accepted design.

Theorems: coq/theories/Properties/C08.v (totality of the compile / layout models on
well-formed flat records).  Search: every program the constructors accept is
handed to IterateSATGen and RandomGen (and, on a sample, CMSGen and UniGen); any
exception escaping synthesize_trials is a violation (neither strategy documents a
refusal)."""
import ir
from props import _design
from common import Violation

TITLE = "no internal errors on accepted designs"
LEVEL = "proof"
DOMAINS = ['Design']


def site_of(msg):
    """'@function' where the exception was raised (ir.raise_site), part of the finding's identity."""
    import re
    m = re.match(r"\[@([\w?]+)\]", msg or "")
    return "@" + m.group(1) if m else ""


def fails(p, strat, exc, n=3):
    if exc == "Timeout":
        r = ir.synthesize_isolated(p, n, strat, timeout=20)
        return r[0] == "crash" and r[1] == "timeout"
    r = ir.synthesize_isolated(p, 3, strat)
    return (r[0] == "error" and r[1] == exc) or (r[0] == "crash" and exc in ("process-terminated", "ProcessTerminated"))


def run(ctx, res):
    batch = _design.load(ctx, res)
    nextra = 0
    for r in batch:
        _design.count(res, r)
        if r["build"] != "ok":
            continue
        _design.sample_case(res, r)
        for s, rr in r["real"].items():
            if rr["status"] != "ok" and rr["exc"] == "Timeout":
                # no result within the harness's time limit: slow is not an internal error (whether the
                # exhausting loop of RandomGen ends at all is decided by the C06 check); counted only
                res.extra["timeouts_inconclusive"] = res.extra.get("timeouts_inconclusive", 0) + 1
                continue
            res.layer("outcome-" + s, rr["status"] == "ok")
            if rr["status"] != "ok":
                exc = rr["exc"]
                _design.report(res, "exc:%s:%s%s" % (s, exc, site_of(rr.get("msg"))), r,
                               lambda p, s=s, exc=exc, n=r.get("requested", 3): fails(p, s, exc, n),
                               "%s raised %s (%s)" % (s, exc, (rr.get("msg") or "")[:80]))
        # the uniform samplers on a sample of the programs (slower)
        if nextra < (25 if ctx.quick else 200) and r.get("oracle"):
            nextra += 1
            for s in ("CMSGen", "UniGen"):
                out = ir.synthesize_isolated(r["program"], 2, s)
                res.layer("outcome-" + s, out[0] == "ok")
                if out[0] != "ok":
                    exc = out[1] if out[0] == "error" else "process-terminated"
                    if out[0] == "crash":
                        out = ("crash", "process-terminated", "the sampler terminated the Python process (status %s)" % out[1])
                    _design.report(res, "exc:%s:%s%s" % (s, exc, site_of(out[2])), r, lambda p, s=s, exc=exc: fails(p, s, exc),
                                   "%s raised %s (%s)" % (s, exc, out[2][:80]))


def replay(ctx, data):
    p = data["program"]
    for s in ("IterateSATGen", "RandomGen", "CMSGen", "UniGen"):
        if ir.synthesize_isolated(p, 3, s)[0] in ("error", "crash"):
            return True
    return False
