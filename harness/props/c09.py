"""C09 - Without-replacement samplers return distinct sequences, as many as exist.

Theorems: coq/theories/Properties/C09.v (the iterate-and-block loop over an
abstract solver returns min(requested, N) pairwise different projected models).
Search: for small programs with N valid object-level solutions, IterateSATGen,
RandomGen and IterateGen are asked for 0, 1, N-1, N, N+1 and 3N sequences: the
number returned must be min(requested, N) and no name-level sequence may appear
more often than its documented multiplicity (copies of a weighted level of a
factor outside the crossing)."""
import collections

import ir
from props import _design

TITLE = "distinct sequences, min(requested, available) of them"
LEVEL = "proof"
DOMAINS = ['Design']
STRATS = ("IterateSATGen", "RandomGen", "IterateGen")


def check(p, oracle_mult, names, strat, n):
    """None if fine, else description."""
    N = sum(oracle_mult.values())
    b = ir.build(p)
    blk = ir.main_block(b, p)
    r = ir.synthesize(blk, n, strat)
    if r[0] != "ok":
        return None    # C08
    keys = [ir.names_to_key(s, names) for s in r[1]]
    if len(keys) != min(n, N):
        return {"requested": n, "available": N, "returned": len(keys)}
    c = collections.Counter(keys)
    over = [k for k, v in c.items() if v > oracle_mult.get(k, 0)]
    if over:
        return {"requested": n, "available": N, "repeated": over[:1], "times": c[over[0]], "allowed": oracle_mult.get(over[0], 0)}
    return None


def run(ctx, res):
    batch = _design.load(ctx, res)
    done = 0
    for r in _design.analysed(batch):
        _design.count(res, r)
        if "oracle" not in r or done >= (45 if ctx.quick else 400):
            continue
        mult = collections.Counter()
        for k, m in zip(r["oracle"], r["oracle_mult"]):
            mult[k] += m
        N = sum(mult.values())
        if N == 0 or N > 120:
            continue
        done += 1
        _design.sample_case(res, r, {"available": N})
        for strat in STRATS:
            for n in sorted(set([0, 1, max(N - 1, 0), N, N + 1, 3 * N])):
                bad = check(r["program"], mult, r["names"], strat, n)
                res.layer("count-" + strat, bad is None)
                if bad is not None:
                    def still(p, strat=strat, n=n):
                        rr = _design.reanalyse(p, ())
                        if rr["build"] != "ok" or rr["doc"] != "ok":
                            return False
                        m2 = collections.Counter()
                        for k, m in zip(rr["oracle"], rr["oracle_mult"]):
                            m2[k] += m
                        N2 = sum(m2.values())
                        return any(check(p, m2, rr["names"], strat, q) is not None for q in (1, N2, N2 + 1))
                    _design.report(res, "count:%s:%s" % (strat, "short" if bad.get("returned", 0) < min(n, N) else "dup"),
                                   r, still, "%s: %r" % (strat, bad), bad)
                    break


def replay(ctx, data):
    p = data["program"]
    rr = _design.reanalyse(p, ())
    if rr["build"] != "ok" or rr["doc"] != "ok":
        return False
    m2 = collections.Counter()
    for k, m in zip(rr["oracle"], rr["oracle_mult"]):
        m2[k] += m
    N2 = sum(m2.values())
    return any(check(p, m2, rr["names"], s, q) is not None for s in STRATS for q in (0, 1, N2, N2 + 1, 3 * N2))
