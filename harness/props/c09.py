"""C09 - Without-replacement samplers return distinct sequences, as many as exist.

Theorems: coq/theories/Properties/C09.v (the iterate-and-block loop over an
abstract solver returns min(requested, N) pairwise different projected models).
Search: for small programs with N valid object-level solutions, IterateSATGen,
RandomGen and IterateGen are asked for 0, 1, N-1, N, N+1 and 3N sequences: the
number returned must be min(requested, N) and no name-level sequence may appear
more often than its documented multiplicity (copies of a weighted level of a
factor outside the crossing)."""
import collections

import ir
from props import _design

TITLE = "distinct sequences, min(requested, available) of them"
LEVEL = "proof"
DOMAINS = ["Design", "Iterate"]
STRATS = ("IterateSATGen", "RandomGen", "IterateGen")


def check(p, oracle_mult, names, strat, n):
    """None if fine, else description."""
    N = sum(oracle_mult.values())
    b = ir.build(p)
    blk = ir.main_block(b, p)
    r = ir.synthesize(blk, n, strat)
    if r[0] != "ok":
        return None    # C08
    keys = [ir.names_to_key(s, names) for s in r[1]]
    if len(keys) != min(n, N):
        return {"requested": n, "available": N, "returned": len(keys)}
    c = collections.Counter(keys)
    over = [k for k, v in c.items() if v > oracle_mult.get(k, 0)]
    if over:
        return {"requested": n, "available": N, "repeated": over[:1], "times": c[over[0]], "allowed": oracle_mult.get(over[0], 0)}
    return None


def loop_correspondence(ctx, res):
    """The real compute_solutions loop on random small CNF files vs the model
    Sample/Iterate.v replaying the real solver's answers; and independently: the
    returned solutions are pairwise different projections of models, as many as
    min(count, number of projected models)."""
    import itertools
    import shutil
    import tempfile
    from pathlib import Path
    from common import sexp, Atom, parse_sexp, Violation
    from sweetpea._internal.core.cnf import CNF
    from sweetpea._internal.core.generate.utility import save_cnf
    from sweetpea._internal.core.generate.sample_non_uniform import compute_solutions
    rng = ctx.rng
    tmp = tempfile.mkdtemp(prefix="verif_c09_")
    lines, reals, cases = [], [], []
    try:
        for i in range(120 if ctx.quick else 1500):
            nv = rng.randint(2, 6)
            cls = [[rng.choice([-1, 1]) * rng.randint(1, nv) for _ in range(rng.randint(1, 3))] for _ in range(rng.randint(1, 6))]
            cls.append([nv, -nv])
            support = rng.randint(1, nv)
            count = rng.randint(0, 10)
            path = Path(tmp) / ("f%d.cnf" % i)
            save_cnf(path, CNF(cls), nv, support)
            with ir.quiet():
                sols = compute_solutions(path, support, count)
            final = []
            for ln in path.read_text().splitlines()[1:]:
                toks = ln.split()
                if toks and toks[0] not in ("c", "p"):
                    final.append([int(t) for t in toks[:-1]])
            reals.append(sols)
            cases.append((cls, nv, support, count, final))
            lines.append(sexp([Atom("iterate"), support, count, cls, sols]))
    finally:
        shutil.rmtree(tmp, ignore_errors=True)
    outs = ctx.model(lines, domain="Iterate")
    bad = []
    for (cls, nv, support, count, final), sols, out in zip(cases, reals, outs):
        ok = (not out.startswith("!")) and parse_sexp(out)[0] == sols
        # the file after the loop = the printed clauses (reversed order of the CNF object) + one blocking clause per solution
        expect = list(reversed(cls)) + [[-l for l in s] for s in sols]
        ok = ok and final == expect
        res.layer("loop-model-vs-real", ok)
        res.count(("loop", repr(cls), support, count))
        if not ok:
            bad.append((cls, support, count, sols))
        # the property itself
        proj = set()
        for a in itertools.product([False, True], repeat=nv):
            if all(any((a[abs(l) - 1] if l > 0 else not a[abs(l) - 1]) for l in c) for c in cls):
                proj.add(tuple((v if a[v - 1] else -v) for v in range(1, support + 1)))
        got = [tuple(s) for s in sols]
        if len(got) != min(count, len(proj)) or len(set(got)) != len(got) or not set(got) <= proj:
            res.violations.append(Violation("loop:compute_solutions", "compute_solutions returned %d of %d projected models for count %d" % (
                len(got), len(proj), count), {"kind": "loop", "cnf": cls, "nvars": nv, "support": support, "count": count}))
            return
    if bad:
        res.violations.append(Violation("corr:iterate", "model Sample/Iterate.v and compute_solutions disagree on %d cases, e.g. %r" % (len(bad), bad[0]),
                                        {"layer": "loop-model-vs-real", "theorems": ["C09_iterate_spec"]}, failing_input=False))
    res.sample({"iterate": lines[0], "model_out": outs[0]})


def run(ctx, res):
    loop_correspondence(ctx, res)
    batch = _design.load(ctx, res)
    done = 0
    for r in _design.analysed(batch):
        _design.count(res, r)
        is_gen = r["name"].startswith("gen-")
        # every hand-written corpus program is checked; generated ones up to a budget
        if "oracle" not in r or (is_gen and done >= (18 if ctx.quick else 400)):
            continue
        mult = collections.Counter()
        for k, m in zip(r["oracle"], r["oracle_mult"]):
            mult[k] += m
        N = sum(mult.values())
        if N == 0 or N > (320 if not is_gen else 120):
            continue
        done += is_gen
        _design.sample_case(res, r, {"available": N})
        for strat in STRATS:
            for n in sorted(set([0, 1, max(N - 1, 0), N, N + 1, 3 * N])):
                bad = check(r["program"], mult, r["names"], strat, n)
                res.layer("count-" + strat, bad is None)
                if bad is not None:
                    def still(p, strat=strat, n=n):
                        rr = _design.reanalyse(p, ())
                        if rr["build"] != "ok" or rr["doc"] != "ok":
                            return False
                        m2 = collections.Counter()
                        for k, m in zip(rr["oracle"], rr["oracle_mult"]):
                            m2[k] += m
                        N2 = sum(m2.values())
                        return any(check(p, m2, rr["names"], strat, q) is not None for q in (1, N2, N2 + 1))
                    _design.report(res, "count:%s:%s" % (strat, "dup" if "repeated" in bad or bad.get("returned", 0) > min(n, N) else "short"),
                                   r, still, "%s: %r" % (strat, bad), bad)
                    break


def replay(ctx, data):
    if data.get("kind") == "loop":
        return True
    p = data["program"]
    rr = _design.reanalyse(p, ())
    if rr["build"] != "ok" or rr["doc"] != "ok":
        return False
    m2 = collections.Counter()
    for k, m in zip(rr["oracle"], rr["oracle_mult"]):
        m2[k] += m
    N2 = sum(m2.values())
    return any(check(p, m2, rr["names"], s, q) is not None for s in STRATS for q in (0, 1, N2, N2 + 1, 3 * N2))
