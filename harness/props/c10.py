"""C10 - Cardinality constraints are encoded exactly.

Theorems: coq/theories/Properties/C10.v (about Core/Card.v).
Correspondence: literal clause lists + fresh counters of the real
`combine_cnf_with_requests` / `CNF.assert_k_of_n` / `_inequality_assertion`
against the extracted model.
Search: for small (kind, n, k) all models of the real CNF are enumerated with
pycryptosat; per assignment of the n variables there must be exactly one model
iff the count stands in the relation to k.
"""
import itertools

from common import Violation, sexp, Atom, parse_sexp

TITLE = "cardinality encoders"
LEVEL = "proof"
DOMAINS = ['Card']

REL = {"EQ": lambda c, k: c == k, "LT": lambda c, k: c < k, "GT": lambda c, k: c > k}


def real_request(kind, k, vs, nfr):
    from sweetpea._internal.core.cnf import CNF, Var
    from sweetpea._internal.core.generate.utility import combine_cnf_with_requests, GenerationRequest, AssertionType
    req = GenerationRequest(AssertionType[kind], k, [Var(v) for v in vs])
    try:
        final = combine_cnf_with_requests(CNF(), nfr, 0, [req])
    except Exception as e:  # noqa
        return ("error", type(e).__name__)
    # the fresh counter after the request, observed on a twin object
    twin = CNF.from_fresh(nfr)
    getattr(twin, {"EQ": "assert_k_of_n", "LT": "assert_k_less_than_n", "GT": "assert_k_greater_than_n"}[kind])(
        k, [Var(v) for v in vs])
    return ("ok", twin._num_vars, final.as_list_of_list_of_ints())


def model_line(kind, k, vs, nfr):
    return sexp([Atom("request"), Atom(kind), k, list(vs), nfr])


def parse_model(line):
    if line.startswith("!"):
        return ("model-error", line)
    r = parse_sexp(line)
    if r[0] != "true":
        return ("error", "ValueError")
    return ("ok", r[1], r[2])


def enumerate_models(clauses, nvars, limit=100000):
    import pycryptosat
    s = pycryptosat.Solver()
    for c in clauses:
        s.add_clause(c)
    if nvars > 0:
        s.add_clause([nvars, -nvars])   # make the solver aware of every variable
    out = []
    while len(out) < limit:
        ok, sol = s.solve()
        if not ok:
            break
        m = tuple(bool(sol[v]) for v in range(1, nvars + 1))
        out.append(m)
        s.add_clause([-(v) if m[v - 1] else v for v in range(1, nvars + 1)])
    return out


def property_holds_real(kind, k, n, nfr_extra=0):
    """Decide the property itself on the real code for vars 1..n: returns None
    if it holds, else a description of the failing assignment."""
    vs = list(range(1, n + 1))
    r = real_request(kind, k, vs, n + nfr_extra)
    if r[0] != "ok":
        return "real code raised %s" % r[1]
    _, nv, clauses = r
    nv = max([nv] + [abs(l) for c in clauses for l in c])
    models = enumerate_models(clauses, nv)
    per = {}
    for m in models:
        per.setdefault(m[:n], 0)
        per[m[:n]] += 1
    for a in itertools.product([False, True], repeat=n):
        want = 1 if REL[kind](sum(a), k) else 0
        got = per.get(a, 0)
        if got != want:
            return {"assignment": [i + 1 for i in range(n) if a[i]], "count": sum(a),
                    "extensions_found": got, "extensions_expected": want}
    return None


def cases(ctx):
    out = []
    nmax = 8 if ctx.quick else 12
    for kind in ("EQ", "LT", "GT"):
        for n in range(1, nmax + 1):
            for k in range(0, 2 * n + 4):
                out.append((kind, k, list(range(1, n + 1)), n))
    rng = ctx.rng
    for _ in range(150 if ctx.quick else 3000):
        n = rng.randint(1, 40 if ctx.quick else 70)
        k = rng.randint(0, n + 12)
        nfr = rng.randint(n, n + 50)
        pool = list(range(1, nfr + 1))
        vs = rng.sample(pool, n)
        if rng.random() < 0.3:
            vs.sort()
        out.append((rng.choice(("EQ", "LT", "GT")), k, vs, nfr))
    return out


def run(ctx, res):
    res.rule = ("all (kind, n<=%d, k<=2n+3) on variables 1..n plus random (n<=70, k<=n+12) on shuffled non-contiguous "
                "variable lists with fresh offsets; a case is non-trivial if it emits at least one adder; distinct by "
                "(kind, n, k, vars, fresh)" % (8 if ctx.quick else 12))
    cs = cases(ctx)
    outs = ctx.model([model_line(*c) for c in cs])
    mism = []
    for c, line in zip(cs, outs):
        kind, k, vs, nfr = c
        real = real_request(kind, k, vs, nfr)
        mod = parse_model(line)
        ok = (real == mod) or (real[0] == "ok" and mod[0] == "ok" and real[1] == mod[1] and real[2] == mod[2])
        res.layer("L4-request-literal", ok)
        res.count((kind, k, tuple(vs), nfr), nontrivial=len(vs) > 1)
        if not ok:
            mism.append(c)
        if kind == "LT" and k == 2 and len(vs) == 3:
            res.sample({"kind": kind, "k": k, "vars": vs, "fresh": nfr, "model_out": line[:200]})
    # the empty variable list: the real code raises ValueError, the model says false
    real = real_request("EQ", 1, [], 3)
    mod = parse_model(ctx.model([model_line("EQ", 1, [], 3)])[0])
    res.layer("L4-request-literal", real[0] == "error" and mod[0] == "error")
    # multi-request combine with an initial CNF
    from sweetpea._internal.core.cnf import CNF, Var
    from sweetpea._internal.core.generate.utility import combine_cnf_with_requests, GenerationRequest, AssertionType
    rng = ctx.rng
    lines, reals = [], []
    for _ in range(40 if ctx.quick else 400):
        nfr = rng.randint(3, 12)
        init = [[rng.choice([-1, 1]) * rng.randint(1, nfr) for _ in range(rng.randint(1, 3))] for _ in range(rng.randint(0, 4))]
        reqs = []
        for _ in range(rng.randint(1, 3)):
            n = rng.randint(1, min(6, nfr))
            reqs.append((rng.choice(("EQ", "LT", "GT")), rng.randint(0, n + 2), rng.sample(range(1, nfr + 1), n)))
        final = combine_cnf_with_requests(CNF(init), nfr, 0, [GenerationRequest(AssertionType[kd], k, [Var(v) for v in vs])
                                                               for kd, k, vs in reqs])
        reals.append(final.as_list_of_list_of_ints())
        lines.append(sexp([Atom("combine"), init, nfr, [[Atom(kd), k, vs] for kd, k, vs in reqs]]))
    for line, real, out in zip(lines, reals, ctx.model(lines)):
        r = parse_sexp(out)
        ok = r[0] == "true" and r[2] == real
        res.layer("L4-combine-literal", ok)
        res.count(line)
        if not ok:
            mism.append(("combine", line))
    res.sample({"combine": lines[0], "model_out": ctx.model([lines[0]])[0][:200]})

    # cross-check of extraction: a sample of the cases re-evaluated inside Coq
    import common
    sample = [(c, line) for c, line in zip(cs, outs) if len(c[2]) <= 6][:: max(1, len(cs) // 60)][:60]
    checks = []
    for (kind, k, vs, nfr), line in sample:
        m = parse_model(line)
        if m[0] != "ok":
            continue
        checks.append("let '(ok, nx, cl) := run_request %d %s %d %s in ok && (nx =? %d) && zll_eqb cl %s" % (
            nfr, kind, k, common.coq_list(vs), m[1], common.coq_llist(m[2])))
    try:
        n, bad = common.coq_crosscheck("C10", "Core.CnfModel Core.Card", checks)
        res.extra["in_coq_crosscheck"] = {"cases": n, "mismatches": bad}
        res.layer("extraction-vs-vm_compute", bad == 0)
        if bad:
            mism.append(("extraction differs from vm_compute on %d cases" % bad,))
    except Exception as e:  # noqa
        res.notes.append("in-Coq cross-check not run: %s" % str(e)[:200])
        mism.append(("in-Coq cross-check failed", str(e)[:200]))

    # search: the property itself on the real code
    nsearch = 6 if ctx.quick else 9
    failing = []
    for kind in ("EQ", "LT", "GT"):
        for n in range(1, nsearch + 1):
            for k in range(0, (2 * n + 3 if ctx.quick else 2 * n + 6)):
                bad = property_holds_real(kind, k, n)
                res.count(("search", kind, n, k))
                if bad is not None:
                    failing.append((kind, n, k, bad))
    res.extra["search_space"] = "all 2^n assignments for n<=%d, all kinds, k<=2n+3" % nsearch
    res.extra["exhaustive"] = False
    for kind, n, k, bad in failing[:1]:
        res.violations.append(Violation(
            "card:%s:n=%d:k=%d" % (kind, n, k),
            "%s with n=%d k=%d: %s" % (kind, n, k, bad),
            {"kind": kind, "n": n, "k": k, "detail": bad}))
    if failing:
        res.extra["failing_cases"] = [(kd, n, k) for kd, n, k, _ in failing]
    if mism and not failing:
        res.violations.append(Violation(
            "corr:L4", "model Core/Card.v and real cardinality encoders disagree on %d cases, e.g. %r" % (len(mism), mism[0]),
            {"layer": "L4", "theorems": ["C10_exact"], "first_mismatch": repr(mism[0])}, failing_input=False))
    elif mism:
        res.notes.append("correspondence also broken on %d cases" % len(mism))


def replay(ctx, data):
    return property_holds_real(data["kind"], data["k"], data["n"]) is not None
