"""C11 - Formula-to-CNF conversions preserve meaning.

Theorems: coq/theories/Properties/C11.v (about Logic/{Formula,Tseitin,Naive,Switching}.v).
Totality: `C11_naive_total`, `C11_switching_total` - the model returns on every
formula (the TypeError / IndexError defects of the real code were repaired in
/repo commits 94d9e8e and 9837dd8 and the model follows the repairs), so any
exception of the real converters is both a correspondence mismatch and a
`raises:` violation of the search.
Correspondence: the real `to_cnf_tseitin` / `to_cnf_naive` / `to_cnf_switching`
(returned tree, returned fresh counter, `cnf_to_json` of the tree or the
exception raised) and the passes `__eliminate_iff`, `__apply_demorgan`,
`__distribute_ors_naive`, `list.sort(key=__order_clauses)` against the extracted
model, literally.
Search: truth tables.  For every assignment of the original variables the real
Tseitin clauses must have exactly one extension over the reported fresh range
[nv, nv') if the formula is true and none otherwise, and mention no other
variable; the naive output must have the same truth table, no new variable and
CNF shape; the switching output must have the same models projected to the
original variables.  The oracle (`ev`, `count_ext`) is written here and shares
nothing with the code under test.
"""
import itertools

from common import Violation, sexp, Atom, parse_sexp

TITLE = "formula to CNF conversions"
LEVEL = "proof"
DOMAINS = ['Logic']

# --------------------------------------------------------------------------- formulas
# harness representation: int | ("not", f) | ("and", (f, ...)) | ("or", (f, ...)) | ("if", p, q) | ("iff", p, q)


def to_real(f):
    from sweetpea._internal.logic import And, Or, Not, If, Iff
    if isinstance(f, int):
        return f
    t = f[0]
    if t == "not":
        return Not(to_real(f[1]))
    if t == "and":
        return And([to_real(x) for x in f[1]])
    if t == "or":
        return Or([to_real(x) for x in f[1]])
    if t == "if":
        return If(to_real(f[1]), to_real(f[2]))
    if t == "iff":
        return Iff(to_real(f[1]), to_real(f[2]))
    raise ValueError(f)


def to_wire(f):
    if isinstance(f, int):
        return f
    t = f[0]
    if t in ("and", "or"):
        return [Atom(t)] + [to_wire(x) for x in f[1]]
    return [Atom(t)] + [to_wire(x) for x in f[1:]]


def from_json(x):
    """replay data (lists) -> harness tuples"""
    if isinstance(x, int):
        return x
    if x[0] in ("and", "or"):
        return (x[0], tuple(from_json(y) for y in x[1]))
    return (x[0],) + tuple(from_json(y) for y in x[1:])


def canon_tree(t):
    """real And/Or/Not/int tree -> the shape parse_sexp gives for the model's tree"""
    from sweetpea._internal.logic import And, Or, Not
    if isinstance(t, bool) or not isinstance(t, (int, And, Or, Not)):
        return ["?", repr(t)]
    if isinstance(t, int):
        return t
    if isinstance(t, Not):
        return ["not", canon_tree(t.c)]
    if isinstance(t, And):
        return ["and"] + [canon_tree(x) for x in t.input_list]
    return ["or"] + [canon_tree(x) for x in t.input_list]


def nf_to_real(t):
    """parsed wire tree (no If/Iff) -> real namedtuples"""
    from sweetpea._internal.logic import And, Or, Not
    if isinstance(t, int):
        return t
    if t[0] == "not":
        return Not(nf_to_real(t[1]))
    if t[0] == "and":
        return And([nf_to_real(x) for x in t[1:]])
    return Or([nf_to_real(x) for x in t[1:]])


def nf_wire(t):
    if isinstance(t, int):
        return t
    return [Atom(t[0])] + [nf_wire(x) for x in t[1:]]


def size(f):
    if isinstance(f, int):
        return 1
    if f[0] in ("and", "or"):
        return 1 + sum(size(x) for x in f[1])
    return 1 + sum(size(x) for x in f[1:])


def leaves(f):
    if isinstance(f, int):
        return [f]
    if f[0] in ("and", "or"):
        return [z for x in f[1] for z in leaves(x)]
    return [z for x in f[1:] for z in leaves(x)]


# --------------------------------------------------------------------------- oracle

def ev(f, a):
    """truth value of a harness formula under a: dict var -> bool (leaves are DIMACS literals)"""
    if isinstance(f, int):
        return a[f] if f > 0 else not a[-f]
    t = f[0]
    if t == "not":
        return not ev(f[1], a)
    if t == "and":
        return all(ev(x, a) for x in f[1])
    if t == "or":
        return any(ev(x, a) for x in f[1])
    if t == "if":
        return (not ev(f[1], a)) or ev(f[2], a)
    return ev(f[1], a) == ev(f[2], a)


def ev_tree(t, a):
    """truth value of a canonical output tree (parse shape)"""
    if isinstance(t, int):
        return a[t] if t > 0 else not a[-t]
    if t[0] == "not":
        return not ev_tree(t[1], a)
    if t[0] == "and":
        return all(ev_tree(x, a) for x in t[1:])
    if t[0] == "or":
        return any(ev_tree(x, a) for x in t[1:])
    raise ValueError(t)


def tree_clauses(t):
    """canonical CNF-shaped tree -> integer clauses, or None if it is not And of (literal | Or of literals)"""
    def lit(x):
        if isinstance(x, int) and x != 0:
            return x
        if isinstance(x, list) and x[0] == "not" and isinstance(x[1], int) and x[1] != 0:
            return -x[1]
        return None
    if not (isinstance(t, list) and t[0] == "and"):
        return None
    out = []
    for c in t[1:]:
        if lit(c) is not None:
            out.append([lit(c)])
        elif isinstance(c, list) and c[0] == "or" and all(lit(x) is not None for x in c[1:]):
            out.append([lit(x) for x in c[1:]])
        else:
            return None
    return out


def count_ext(clauses, a, cap=2):
    """number (capped) of total extensions of the partial assignment `a` (dict) to all variables of
    `clauses` that satisfy them: DPLL with unit propagation"""
    a = dict(a)
    cl = []
    for c in clauses:
        keep, sat_ = [], False
        for l in c:
            v = abs(l)
            if v in a:
                if a[v] == (l > 0):
                    sat_ = True
                    break
            else:
                keep.append(l)
        if sat_:
            continue
        if not keep:
            return 0
        cl.append(keep)
    free = sorted({abs(l) for c in cl for l in c})

    def go(cl, nfree):
        # unit propagation
        while True:
            unit = None
            for c in cl:
                if len(c) == 1:
                    unit = c[0]
                    break
            if unit is None:
                break
            ncl = []
            for c in cl:
                if unit in c:
                    continue
                if -unit in c:
                    c = [l for l in c if l != -unit]
                    if not c:
                        return 0
                ncl.append(c)
            cl = ncl
            nfree -= 1
        if not cl:
            return min(cap, 2 ** nfree)
        v = abs(cl[0][0])
        tot = 0
        for lit_ in (v, -v):
            tot += go(cl + [[lit_]], nfree)
            if tot >= cap:
                return cap
        return tot

    # deduplicate literals inside clauses, drop tautologies
    norm = []
    for c in cl:
        s = set(c)
        if any(-l in s for l in s):
            continue
        norm.append(sorted(s, key=abs))
    nfree = len(free)
    return go(norm, nfree)


# --------------------------------------------------------------------------- real code

CONV = ("tseitin", "naive", "switching")


def real_conv(which, f, nv):
    from sweetpea._internal import logic
    fn = {"tseitin": logic.to_cnf_tseitin, "naive": logic.to_cnf_naive, "switching": logic.to_cnf_switching}[which]
    try:
        tree, fresh = fn(to_real(f), nv)
    except RecursionError:
        raise
    except Exception as e:  # noqa
        return ("error", type(e).__name__)
    try:
        js = ("ok", [list(c) for c in logic.cnf_to_json([tree])])
    except Exception as e:  # noqa
        js = ("error", type(e).__name__)
    return ("ok", canon_tree(tree), fresh, js)


def parse_res(r):
    """parsed model result (ok x...) | (err E) -> tuple"""
    if r[0] == "err":
        return ("error", r[1])
    return ("ok",) + tuple(r[1:])


def parse_model_conv(which, line):
    if line.startswith("!"):
        return ("model-error", line)
    r = parse_sexp(line)[0]
    if r[0] == "err":
        return ("error", r[1])
    js = ("error", r[3][1]) if r[3][0] == "err" else ("ok", r[3][1])
    if which == "tseitin":
        # the integer-clause model `tseitin` must coincide with cnf_to_json of the tree model
        if js != ("ok", r[4]) or r[5] != r[2]:
            return ("model-error", "tseitin / tseitin_tree disagree: " + line[:200])
    return ("ok", r[1], r[2], js)


# --------------------------------------------------------------------------- generators

def rand_formula(rng, depth, nvars, pool):
    """random formula; `pool` collects generated subformulas and is drawn from to create sharing"""
    r = rng.random()
    if depth <= 0 or r < 0.18:
        v = rng.randint(1, nvars)
        return -v if rng.random() < 0.3 else v
    if pool and r < 0.33:
        return rng.choice(pool)
    t = rng.choice(("not", "and", "or", "and", "or", "if", "iff"))
    if t == "not":
        f = ("not", rand_formula(rng, depth - 1, nvars, pool))
    elif t in ("and", "or"):
        k = rng.choice((0, 1, 2, 2, 2, 3, 3, 4))
        kids = []
        for _ in range(k):
            if kids and rng.random() < 0.15:
                kids.append(rng.choice(kids))           # duplicate member
            elif rng.random() < 0.2:
                kids.append((t, tuple(rand_formula(rng, depth - 2, nvars, pool) for _ in range(rng.randint(0, 2)))))
            else:
                kids.append(rand_formula(rng, depth - 1, nvars, pool))
        f = (t, tuple(kids))
    else:
        f = (t, rand_formula(rng, depth - 1, nvars, pool), rand_formula(rng, depth - 1, nvars, pool))
    pool.append(f)
    return f


def rand_nnf(rng, depth, nvars):
    """negations on leaves only, no If/Iff: the input language of __distribute_ors_* (deeper And/Or nesting
    than rand_formula reaches, many members per connective)"""
    if depth <= 0 or rng.random() < 0.25:
        v = rng.randint(1, nvars)
        v = -v if rng.random() < 0.2 else v
        return ("not", v) if rng.random() < 0.35 else v
    t = rng.choice(("and", "or"))
    return (t, tuple(rand_nnf(rng, depth - 1, nvars) for _ in range(rng.choice((0, 1, 2, 2, 3, 3, 4)))))


def all_formulas(maxsize, lits):
    """every formula with at most `maxsize` nodes over the literal leaves `lits`"""
    by = {1: list(lits) + [("and", ()), ("or", ())]}

    def seqs(total, nmin):
        # tuples of formulas (length >= nmin) whose sizes add up to `total`
        if total == 0:
            if nmin <= 0:
                yield ()
            return
        for first in range(1, total + 1):
            for f in by.get(first, ()):
                for rest in seqs(total - first, nmin - 1):
                    yield (f,) + rest

    for n in range(2, maxsize + 1):
        cur = []
        for g in by[n - 1]:
            cur.append(("not", g))
        for t in ("and", "or"):
            for kids in seqs(n - 1, 1):
                cur.append((t, kids))
        for a in range(1, n - 1):
            for p in by[a]:
                for q in by[n - 1 - a]:
                    cur.append(("if", p, q))
                    cur.append(("iff", p, q))
        by[n] = cur
    return [f for n in range(1, maxsize + 1) for f in by[n]]


def rand_tree(rng, depth):
    """arbitrary If/Iff-free tree (any shape) for cnf_to_json / sort / pass-level comparisons"""
    if depth <= 0 or rng.random() < 0.35:
        return rng.choice((-3, -2, -1, 1, 2, 3, 4, 5, 0))
    t = rng.choice(("not", "not", "and", "or"))
    if t == "not":
        return ["not", rand_tree(rng, depth - 1)]
    return [t] + [rand_tree(rng, depth - 1) for _ in range(rng.choice((0, 1, 2, 2, 3)))]


# --------------------------------------------------------------------------- the property on the real code

def check_property(which, f, nv):
    """None if the property holds for conversion `which` on (f, nv), else (signature-tail, description)."""
    r = real_conv(which, f, nv)
    if r[0] != "ok":
        return ("raises:" + r[1], "to_cnf_%s raised %s" % (which, r[1]))
    _, tree, fresh, js = r
    V = sorted({abs(z) for z in leaves(f)})
    cls = tree_clauses(tree)
    if cls is None:
        return ("shape", "result is not an And of literals / Ors of literals: %r" % (tree,))
    allv = {abs(l) for c in cls for l in c}
    if which == "naive":
        if fresh != nv:
            return ("fresh", "naive conversion changed the fresh counter %d -> %d" % (nv, fresh))
        if not allv <= set(V):
            return ("newvars", "naive conversion mentions variables %r not in the formula" % sorted(allv - set(V)))
    else:
        if fresh < nv:
            return ("fresh", "fresh counter decreased %d -> %d" % (nv, fresh))
        bad = sorted(v for v in allv if v not in V and not (nv <= v < fresh))
        if bad:
            return ("newvars", "variables %r are neither in the formula nor in the reported fresh range [%d,%d)" % (bad, nv, fresh))
    if which == "tseitin":
        if js[0] != "ok" or js[1] != cls:
            return ("json", "cnf_to_json of the result: %r" % (js,))
    for bits in itertools.product((False, True), repeat=len(V)):
        a = dict(zip(V, bits))
        want = ev(f, a)
        if which == "naive":
            full = dict(a)
            got = ev_tree(tree, full)
            if got != want:
                return ("meaning", "assignment %r: formula %s, naive CNF %s" % (a, want, got))
        elif which == "tseitin":
            # every fresh variable must be determined: count extensions over [nv, fresh)
            # the tautologies make every variable of the fresh range count as free even if no clause uses it
            n = count_ext(cls + [[v, -v] for v in range(nv, fresh)], dict(a), cap=3)
            if n != (1 if want else 0):
                return ("meaning", "assignment %r: formula %s but %s extension(s) over [%d,%d)" % (
                    a, want, n if n < 3 else ">=3", nv, fresh))
        else:
            n = count_ext(cls, dict(a), cap=1)
            if (n >= 1) != want:
                return ("meaning", "assignment %r: formula %s, switching CNF %s over [%d,%d)" % (
                    a, want, "satisfiable" if n else "unsatisfiable", nv, fresh))
    return None


def naive_clauses(f, pos=True):
    """number of clauses the textbook distribution (what to_cnf_naive does) produces for f (pos) / Not f
    (not pos): generator-side size estimate, independent of the code under test"""
    if isinstance(f, int):
        return 1
    t = f[0]
    if t == "not":
        return naive_clauses(f[1], not pos)
    if t in ("and", "or"):
        ks = [naive_clauses(x, pos) for x in f[1]]
        if (t == "and") == pos:
            return sum(ks)
        n = 1
        for k in ks:
            n *= k
        return n
    p1, p0 = naive_clauses(f[1], True), naive_clauses(f[1], False)
    q1, q0 = naive_clauses(f[2], True), naive_clauses(f[2], False)
    if t == "if":
        return p0 * q1 if pos else p1 + q0
    return p1 * q0 + p0 * q1 if pos else (p0 + q1) * (p1 + q0)


# to_cnf_naive is exponential by design (its docstring says so); formulas whose naive CNF would have more
# clauses than this are run through to_cnf_tseitin and to_cnf_switching only
NAIVE_CAP = 1500


def convs(f):
    return CONV if naive_clauses(f) <= NAIVE_CAP else ("tseitin", "switching")


def default_nv(f, extra=0):
    return max([abs(z) for z in leaves(f)] + [0]) + 1 + extra


# --------------------------------------------------------------------------- run

def run(ctx, res):
    from sweetpea._internal import logic
    rng = ctx.rng
    quick = ctx.quick
    res.rule = ("random formulas (depth<=5, <=6 variables, shared subformulas drawn from a pool, negative leaves, empty "
                "And/Or, nested same connectives, duplicate members) + random negation-normal formulas + all formulas "
                "with <=%d nodes over the literals +-1..+-3; each run through to_cnf_tseitin, to_cnf_naive (unless its "
                "output would exceed 1500 clauses), to_cnf_switching; a case is non-trivial if the formula has a connective; distinct by (formula, fresh)"
                % (3 if quick else 5))

    # ---- cases
    cases = []
    for _ in range(1700 if quick else 12000):
        pool = []
        nvars = rng.randint(1, 6)
        f = rand_formula(rng, rng.randint(1, 5), nvars, pool)
        cases.append((f, default_nv(f, rng.choice((0, 0, 0, 1, 5, 40)))))
    for _ in range(500 if quick else 4000):
        f = rand_nnf(rng, rng.randint(1, 4), rng.randint(1, 6))
        cases.append((f, default_nv(f, rng.choice((0, 0, 3)))))
    lits = [1, -1, 2, -2, 3, -3]
    exhaustive = all_formulas(3 if quick else 5, lits)
    res.extra["exhaustive_formulas"] = len(exhaustive)
    for f in exhaustive:
        cases.append((f, 4))
    # hand-picked corner cases
    for f in [("and", ()), ("or", ()), ("not", ("and", ())), ("not", ("or", ())), ("and", (("and", ()),)),
              ("or", (("or", ()), 1)), ("or", (("and", (1, 2)), ("and", (3, 4)))),
              ("or", (("and", (1, 2)), ("and", (3, 4)), ("and", (5, 6)))),
              ("or", (("and", (1, 2)), ("and", (3, 4)), ("and", (5, 6)), -7)),
              ("iff", ("and", (1, 2)), ("and", (1, 2))), ("and", (("not", 1), ("not", 1), ("not", ("not", 1)))),
              ("if", ("or", (1, 2)), ("or", (1, 2))), ("not", ("if", 1, 2)), ("not", ("iff", 1, 2)),
              ("not", ("and", (("and", (1, 2)), 3))), ("not", ("and", (("and", (1, 2)), ("or", (1, 3))))),
              # the inputs on which the conversions raised before /repo commits 94d9e8e, 9837dd8
              ("not", ("or", (1, ("and", (2, 3))))), ("not", ("not", ("or", ()))), ("and", (("or", ()), 1)),
              ("or", (("not", ("and", (1, 2))), ("not", ("or", (3, ("iff", 1, 2)))))),
              # an implication together with its converse, an equivalence with its operands swapped: the
              # Tseitin cache must not identify If(p,q) with If(q,p) (seed C11-tseitin-cache-key-sorted-operands)
              ("and", (("if", 1, 2), ("if", 2, 1))), ("or", (("if", 1, 2), ("if", 2, 1))),
              ("and", (("iff", 1, 2), ("iff", 2, 1), ("if", ("and", (1, 3)), 2), ("if", 2, ("and", (1, 3))))),
              # recursion depth of __distribute_ors_switching: many conjunctions in one disjunction,
              # negative leaves (they sort before the compound members)
              ("or", tuple(("and", (2 * i + 1, 2 * i + 2)) for i in range(9))),
              ("or", (-1, -2, ("and", (3, 4)), ("and", (-5, 6)), ("and", (7, ("or", (8, ("and", (9, 10))))))))]:
        cases.append((f, default_nv(f)))

    # ---- correspondence: the three converters
    lines = []
    pos = {}
    for ci, (f, nv) in enumerate(cases):
        for w in convs(f):
            pos[(ci, w)] = len(lines)
            lines.append(sexp([Atom(w), to_wire(f), nv]))
    res.extra["naive_skipped_as_exponential"] = sum(1 for f, nv in cases if len(convs(f)) < len(CONV))
    outs = ctx.model(lines)
    mism = []
    real_cache = {}
    i = 0
    stats = {}
    for f, nv in cases:
        for w in convs(f):
            real = real_conv(w, f, nv)
            real_cache[(w, f, nv)] = real
            mod = parse_model_conv(w, outs[i])
            i += 1
            if real[0] == "ok":
                ok = mod[0] == "ok" and mod[1] == real[1] and mod[2] == real[2] and tuple(mod[3]) == tuple(real[3])
            else:
                ok = (mod == real)
            res.layer("L-" + w + "-literal", ok)
            stats[(w, real[0] if real[0] == "ok" else real[1])] = stats.get((w, real[0] if real[0] == "ok" else real[1]), 0) + 1
            if real[0] == "ok" and real[3][0] != "ok":
                stats[(w, "json:" + real[3][1])] = stats.get((w, "json:" + real[3][1]), 0) + 1
            if not ok:
                mism.append((w, f, nv, real, mod))
        res.count((f, nv), nontrivial=not isinstance(f, int))
    res.extra["outcomes"] = {"%s:%s" % k: v for k, v in sorted(stats.items())}
    res.sample({"formula": sexp(to_wire(cases[3][0])), "fresh": cases[3][1],
                "model_tseitin": outs[pos[(3, "tseitin")]][:300]})
    res.sample({"formula": sexp(to_wire(cases[5][0])), "fresh": cases[5][1],
                "model_naive": outs[pos[(5, "naive")]][:300] if (5, "naive") in pos else "(skipped)",
                "model_switching": outs[pos[(5, "switching")]][:300]})

    # ---- correspondence: outside the calling convention (fresh counter not above the leaves); literal only
    off = []
    for _ in range(150 if quick else 1500):
        pool = []
        f = rand_formula(rng, rng.randint(1, 4), rng.randint(2, 6), pool)
        off.append((f, rng.randint(-1, max(abs(z) for z in leaves(f) or [1]))))
    offl = [sexp([Atom(w), to_wire(f), nv]) for f, nv in off for w in convs(f)]
    offo = ctx.model(offl)
    i = 0
    off_broken = None
    for f, nv in off:
        for w in convs(f):
            real = real_conv(w, f, nv)
            mod = parse_model_conv(w, offo[i])
            i += 1
            ok = (mod[0] == "ok" and real[0] == "ok" and mod[1] == real[1] and mod[2] == real[2]
                  and tuple(mod[3]) == tuple(real[3])) or (real[0] != "ok" and mod == real)
            res.layer("L-" + w + "-literal-offconvention", ok)
            if not ok:
                mism.append((w, f, nv, real, mod))
            if w == "tseitin" and off_broken is None and real[0] == "ok" and leaves(f) and nv >= 1:
                bad = check_property(w, f, nv)
                if bad is not None:
                    off_broken = (f, nv, bad[1])
        res.count(("off", f, nv))
    if off_broken is not None:
        res.notes.append("outside the documented calling convention (fresh counter <= a leaf variable) the real "
                         "to_cnf_tseitin allocates a variable the formula already uses, e.g. %s with fresh=%d: %s "
                         "(not a violation: the theorems assume |leaf| < fresh)" % (
                             sexp(to_wire(off_broken[0])), off_broken[1], off_broken[2]))

    # ---- correspondence: the passes and the sort, on arbitrary trees
    elim_r = getattr(logic, "__eliminate_iff")
    dem_r = getattr(logic, "__apply_demorgan")
    dist_r = getattr(logic, "__distribute_ors_naive")
    order_r = getattr(logic, "__order_clauses")

    def guarded(fn, *a):
        try:
            return ("ok", fn(*a))
        except RecursionError:
            raise
        except Exception as e:  # noqa
            return ("error", type(e).__name__)

    plines, preal = [], []
    for f, nv in cases[:(600 if quick else 6000)]:
        plines.append(sexp([Atom("elim"), to_wire(f)]))
        preal.append(("elim", ("ok", canon_tree(elim_r(to_real(f))))))
    for _ in range(600 if quick else 6000):
        t = rand_tree(rng, rng.randint(1, 4))
        plines.append(sexp([Atom("demorgan"), nf_wire(t)]))
        r = guarded(dem_r, nf_to_real(t))
        preal.append(("demorgan", ("ok", canon_tree(r[1])) if r[0] == "ok" else r))
        plines.append(sexp([Atom("distnaive"), nf_wire(t)]))
        r = guarded(dist_r, nf_to_real(t))
        preal.append(("distnaive", ("ok", canon_tree(r[1])) if r[0] == "ok" else r))
        plines.append(sexp([Atom("json"), [nf_wire(t)]]))
        r = guarded(logic.cnf_to_json, [nf_to_real(t)])
        preal.append(("json", ("ok", [list(c) for c in r[1]]) if r[0] == "ok" else r))
        ts = [rand_tree(rng, rng.randint(0, 3)) for _ in range(rng.choice((0, 1, 2, 3, 4, 5, 8, 13)))]
        if rng.random() < 0.02:
            ts = [rng.randint(-9, 9) if rng.random() < 0.7 else ["not", rng.randint(-9, 9)] for _ in range(rng.randint(64, 90))]
        plines.append(sexp([Atom("pysort"), [nf_wire(x) for x in ts]]))
        r = guarded(lambda l: sorted(l, key=order_r), [nf_to_real(x) for x in ts])
        preal.append(("pysort", ("ok", [canon_tree(x) for x in r[1]]) if r[0] == "ok" else r))
    pouts = ctx.model(plines)
    for (name, real), line, pl in zip(preal, pouts, plines):
        if line.startswith("!"):
            mod = ("model-error", line)
        elif name == "elim":
            mod = ("ok", parse_sexp(line)[0])
        else:
            r = parse_sexp(line)[0]
            mod = ("error", r[1]) if r[0] == "err" else ("ok", r[1])
        ok = (mod == real) or (real[0] == "ok" and mod[0] == "ok" and mod[1] == real[1])
        res.layer("L-pass-" + name, ok)
        res.count(pl)
        if not ok:
            mism.append((name, pl, None, real, mod))

    # ---- correspondence: the reference semantics of the theorems (Formula.eval) vs the oracle used below
    elines, ewant = [], []
    for f, nv in cases[:(400 if quick else 4000)]:
        V = sorted({abs(z) for z in leaves(f)})
        tv = [v for v in V if rng.random() < 0.5]
        elines.append(sexp([Atom("eval"), tv, to_wire(f)]))
        ewant.append("true" if ev(f, {v: (v in tv) for v in V}) else "false")
    for line, want in zip(ctx.model(elines), ewant):
        res.layer("L-eval-oracle", line == want)
        res.count(None)
        if line != want:
            mism.append(("eval", None, None, want, line))

    # ---- search: the property itself on the real code
    failing = {}
    nsearch = 0
    for f, nv in cases:
        V = {abs(z) for z in leaves(f)}
        if len(V) > 6 or size(f) > (40 if quick else 60):
            continue
        for w in convs(f):
            real = real_cache[(w, f, nv)]
            if w != "tseitin" and real[0] == "ok" and sum(len(c) if isinstance(c, list) else 1 for c in real[1][1:]) > 4000:
                continue
            nsearch += 1
            res.count(("search", w, f, nv))
            bad = check_property(w, f, nv)
            if bad is not None:
                sig = "logic:%s:%s" % (w, bad[0])
                cur = failing.get(sig)
                if cur is None or (size(f), repr(f)) < (size(cur[0]), repr(cur[0])):
                    failing[sig] = (f, nv, bad[1], (cur[3] + 1) if cur else 1)
                else:
                    failing[sig] = cur[:3] + (cur[3] + 1,)
    res.extra["search_space"] = ("%d (formula, conversion) pairs, all assignments of the formula's variables (<=6), "
                                 "extensions over the fresh range counted by DPLL" % nsearch)
    res.extra["exhaustive_subspace"] = "all formulas with <=%d nodes over literals +-1..+-3 (%d formulas)" % (
        3 if quick else 5, len(exhaustive))
    for sig, (f, nv, what, n) in sorted(failing.items()):
        w = sig.split(":")[1]
        res.violations.append(Violation(
            sig, "to_cnf_%s(%s, %d): %s  [%d failing inputs of this kind in the run; smallest shown]" % (
                w, sexp(to_wire(f)), nv, what, n),
            {"conv": w, "formula": to_json(f), "fresh": nv, "detail": what}))
    if failing:
        res.extra["failing_kinds"] = {sig: v[3] for sig, v in failing.items()}

    # cnf_to_json of a converter's own output can fail (top-level Not(v) is rejected): an observation about
    # cnf_to_json's input language, not a change of meaning
    jfail = [(w, f, nv, real_cache[(w, f, nv)][3][1]) for f, nv in cases for w in convs(f)
             if real_cache[(w, f, nv)][0] == "ok" and real_cache[(w, f, nv)][3][0] != "ok"]
    if jfail:
        w, f, nv, e = min(jfail, key=lambda x: (size(x[1]), repr(x[1])))
        res.notes.append("cnf_to_json rejects %d outputs of the converters themselves, e.g. cnf_to_json([to_cnf_%s(%s, %d)[0]]) "
                         "raises %s (a negated leaf as a direct member of the And); the tree is still equivalent"
                         % (len(jfail), w, sexp(to_wire(f)), nv, e))

    if mism:
        # (run.py prints a broken tie only when no unlisted concrete failing input explains it)
        m = mism[0]
        res.violations.append(Violation(
            "corr:logic", "model Logic/*.v and real logic.py disagree on %d cases, e.g. %s %s fresh=%s real=%s model=%s" % (
                len(mism), m[0], sexp(to_wire(m[1])) if isinstance(m[1], (tuple, int)) else m[1], m[2],
                repr(m[3])[:200], repr(m[4])[:200]),
            {"layer": "logic", "theorems": ["C11_tseitin", "C11_naive", "C11_naive_total", "C11_switching", "C11_switching_total"], "first_mismatch": repr(m)[:1000]},
            failing_input=False))


def to_json(f):
    if isinstance(f, int):
        return f
    if f[0] in ("and", "or"):
        return [f[0], [to_json(x) for x in f[1]]]
    return [f[0]] + [to_json(x) for x in f[1:]]


def replay(ctx, data):
    return check_property(data["conv"], from_json(data["formula"]), data["fresh"]) is not None
