"""C12 - Adder and population-count circuits compute sums.

Theorems: coq/theories/Properties/C12.v (about Core/CnfModel.v).
Correspondence: every builder of the real `CNF` class called directly; literal
clause lists, returned variables and the fresh counter vs. the extracted model.
Search: for small widths all input assignments: the real clauses must have
exactly one extension and the outputs must decode to the sum (with the
documented saturation of the top bit).
"""
import itertools

from common import Violation, sexp, Atom, parse_sexp
from props.c10 import enumerate_models

TITLE = "adders and population count"
LEVEL = "proof"
DOMAINS = ['Card']


def real_cnf(nfr):
    from sweetpea._internal.core.cnf import CNF
    return CNF.from_fresh(nfr)


def V(x):
    from sweetpea._internal.core.cnf import Var
    return None if x is None else Var(x)


def ints(vs):
    return [None if v is None else int(v) for v in vs]


def real_call(op, args, nfr):
    c = real_cnf(nfr)
    try:
        if op == "half":
            r = ints(c.half_adder(V(args[0]), V(args[1])))
        elif op == "full":
            r = ints(c.full_adder(V(args[0]), V(args[1]), V(args[2])))
        elif op == "satadd":
            r = int(c.saturate_adder(V(args[0]), V(args[1]), V(args[2])))
        elif op == "ripple":
            cin, ss = c.ripple_carry([V(x) for x in args[0]], [V(x) for x in args[1]])
            r = [None if cin is None else int(cin), ints(ss)]
        elif op == "ripplesat":
            r = ints(c.ripple_saturate([V(x) for x in args[0]], [V(x) for x in args[1]], args[2]))
            if None in r:
                r = None
        elif op == "popcount":
            r = ints(c.pop_count([V(x) for x in args[0]], args[1]))
            if None in r:
                r = None
    except Exception as e:  # noqa
        return ("error", type(e).__name__)
    return ("ok", r, c._num_vars, c.as_list_of_list_of_ints())


def model_line(op, args, nfr):
    return sexp([Atom(op)] + list(args) + [nfr])


def parse_model(op, line):
    if line.startswith("!"):
        return ("model-error", line)
    r = parse_sexp(line)
    if op in ("half", "full"):
        return ("ok", r[0], r[1], r[2])
    if op == "satadd":
        return ("ok", r[0], r[1], r[2])
    if op == "ripple":
        return ("ok", [None if r[0] == "none" else r[0], r[1]], r[2], r[3])
    if op in ("ripplesat", "popcount"):
        return ("ok", None if r[0] == "none" else r[0], r[1], r[2])


def same(real, mod):
    if real[0] == "error":
        # python raised (e.g. None reaching Var arithmetic): the model reports none
        return mod[0] == "ok" and (mod[1] is None or mod[1] == [None, []])
    return real == mod or (mod[0] == "ok" and list(real[1:]) == list(mod[1:]))


def gen_cases(ctx):
    rng = ctx.rng
    out = []

    def lits(n, nfr):
        return [rng.choice([1, 1, 1, -1]) * rng.randint(1, nfr) for _ in range(n)]
    for _ in range(30):
        nfr = rng.randint(3, 20)
        a, b, c = lits(3, nfr)
        out.append(("half", [a, b], nfr))
        out.append(("full", [a, b, c], nfr))
        out.append(("full", [a, b, None], nfr))
        out.append(("satadd", [a, b, c], nfr))
        out.append(("satadd", [a, b, None], nfr))
    wmax = 8 if ctx.quick else 12
    for w1 in range(0, wmax + 1):
        for w2 in range(0, wmax + 1):
            if ctx.quick and abs(w1 - w2) > 2 and rng.random() < 0.7:
                continue
            nfr = w1 + w2 + rng.randint(0, 5) + 1
            xs, ys = lits(w1, nfr), lits(w2, nfr)
            out.append(("ripple", [xs, ys], nfr))
            for sa in range(0, 10):
                if ctx.quick and rng.random() < 0.5:
                    continue
                out.append(("ripplesat", [xs, ys, sa], nfr))
    for n in range(0, (17 if ctx.quick else 40)):
        for sa in range(0, (7 if ctx.quick else 9)):
            nfr = n + rng.randint(0, 4)
            vs = list(range(1, n + 1))
            if rng.random() < 0.5:
                nfr = n + 10
                vs = lits(n, nfr)
            out.append(("popcount", [vs, sa], max(nfr, 1)))
    return out


def val(bits):
    v = 0
    for b in bits:
        v = 2 * v + (1 if b else 0)
    return v


def search_popcount(n, sa):
    """Decide C12 for pop_count on the real code for inputs 1..n: unique extension and
    decoded value.  Returns None if ok else a description."""
    r = real_call("popcount", [list(range(1, n + 1)), sa], n)
    if r[0] != "ok" or r[1] is None:
        return "real pop_count failed: %r" % (r[:2],)
    _, outs, nv, clauses = r
    nv = max([nv, n] + [abs(l) for c in clauses for l in c])
    per = {}
    for m in enumerate_models(clauses, nv):
        per.setdefault(m[:n], []).append(m)
    for a in itertools.product([False, True], repeat=n):
        ms = per.get(a, [])
        if len(ms) != 1:
            return {"inputs_true": [i + 1 for i in range(n) if a[i]], "extensions": len(ms)}
        m = ms[0]
        bits = [m[abs(o) - 1] if o > 0 else not m[abs(o) - 1] for o in outs]
        N = sum(a)
        w = len(bits)
        if sa == 0 or w < sa:
            want = N
            got = val(bits)
        else:
            want = (N % (2 ** (sa - 1))) + (2 ** (sa - 1) if N >= 2 ** (sa - 1) else 0)
            got = val(bits)
        if got != want:
            return {"inputs_true": [i + 1 for i in range(n) if a[i]], "decoded": got, "expected": want, "width": w}
    return None


def search_ripple(w):
    xs = list(range(1, w + 1))
    ys = list(range(w + 1, 2 * w + 1))
    r = real_call("ripple", [xs, ys], 2 * w)
    _, (cin, ss), nv, clauses = r
    per = {}
    for m in enumerate_models(clauses, nv):
        per.setdefault(m[:2 * w], []).append(m)
    for a in itertools.product([False, True], repeat=2 * w):
        ms = per.get(a, [])
        if len(ms) != 1:
            return {"inputs": a, "extensions": len(ms)}
        m = ms[0]
        got = val([m[cin - 1]] + [m[s - 1] for s in reversed(ss)])
        if got != val(a[:w]) + val(a[w:]):
            return {"inputs": a, "decoded": got}
    return None


def run(ctx, res):
    res.rule = ("each clause builder called on the real CNF object with literal lists of widths 0..%d, all saturate_at 0..9, "
                "random signs/offsets; non-trivial = emits at least one clause; distinct by full argument tuple" %
                (8 if ctx.quick else 12))
    cs = gen_cases(ctx)
    outs = ctx.model([model_line(*c) for c in cs])
    mism = []
    for c, line in zip(cs, outs):
        op, args, nfr = c
        real = real_call(op, args, nfr)
        mod = parse_model(op, line)
        ok = same(real, mod)
        res.layer("builders-literal", ok)
        res.count((op, repr(args), nfr), nontrivial=(real[0] == "ok" and len(real[3]) > 0))
        if not ok:
            mism.append((c, real, mod))
        if op == "popcount" and len(args[0]) == 3 and args[1] == 2:
            res.sample({"op": op, "args": args, "fresh": nfr, "model_out": line[:160]})
    failing = []
    for n in range(1, (7 if ctx.quick else 10)):
        for sa in range(0, 6):
            bad = search_popcount(n, sa)
            res.count(("search-pop", n, sa))
            if bad is not None:
                failing.append(("popcount", n, sa, bad))
    for w in range(1, (4 if ctx.quick else 6)):
        bad = search_ripple(w)
        res.count(("search-ripple", w))
        if bad is not None:
            failing.append(("ripple", w, 0, bad))
    for op, n, sa, bad in failing[:1]:
        res.violations.append(Violation("adders:%s:n=%d:sat=%d" % (op, n, sa), "%s n=%d saturate_at=%d: %s" % (op, n, sa, bad),
                                        {"op": op, "n": n, "sa": sa, "detail": bad}))
    if mism and not failing:
        res.violations.append(Violation(
            "corr:builders", "model Core/CnfModel.v and real CNF builders disagree on %d cases, e.g. %r" % (len(mism), mism[0][0]),
            {"layer": "builders-literal", "theorems": ["C12_*"], "first_mismatch": repr(mism[0])[:1500]}, failing_input=False))


def replay(ctx, data):
    if data["op"] == "popcount":
        return search_popcount(data["n"], data["sa"]) is not None
    return search_ripple(data["n"]) is not None
