"""C13 - Combinatorial unranking functions are bijections with correct counts.

Theorems: coq/theories/Properties/C13.v (about Comb/CombModel.v).
Correspondence: every function of sweetpea/_internal/combinatorics.py against the
extracted model: exhaustively for small parameter tuples over every index
0..N-1 and the out-of-range indices N, N+1, -1 (value or error class), on random
larger tuples whose counts exceed 2^64, and on sessions that interleave count /
unrank calls on one shared PermutationMemo (results and the final table).
Search: for small parameters the image of 0..N-1 under the *real* function is
duplicate-free and equals the brute-force set of arrangements (itertools), and
N is what the real counting function reports.
"""
import itertools
import math

from common import Violation, sexp, Atom, parse_sexp

TITLE = "combinatorial unranking"
LEVEL = "proof"
DOMAINS = ['Comb']


def C():
    import sweetpea._internal.combinatorics as c
    return c


# --------------------------------------------------------------------------- real side

def guard(f):
    try:
        return ["ok"] + list(f())
    except Exception as e:  # noqa
        return ["err", type(e).__name__]


def kres(v):
    if isinstance(v, list):
        return ["perm", [int(x) for x in v]]
    return ["int", int(v)]


def memo_items(pm):
    return sorted([int(a), int(b), int(v)] for (a, b), v in pm.memo.items())


def moc_real(mc):
    return mc[1] if mc[0] == "u" else list(mc[1])


def moc_wire(mc):
    return [Atom("u"), mc[1]] if mc[0] == "u" else [Atom("c"), list(mc[1])]


def make_memo(c, items):
    pm = c.PermutationMemo()
    for a, b, v in items:
        pm.memo[(a, b)] = v
    return pm


def real_call(cmd, args):
    """Run the real function named by the wire command; canonical result."""
    c = C()
    if cmd == "extract_components":
        return guard(lambda: [c.extract_components(list(args[0]), args[1])])
    if cmd == "jth_combination":
        return guard(lambda: [c.compute_jth_combination(*args)])
    if cmd == "ncm":
        return guard(lambda: [c.n_choose_m_given_m_factorial(*args)])
    if cmd == "n_choose_m":
        return guard(lambda: [c.n_choose_m(*args)])
    if cmd == "cns":
        return guard(lambda: [c.compute_jth_combination_without_replacement(*args)])
    if cmd == "inversion":
        return guard(lambda: [c.compute_jth_inversion_sequence(*args)])
    if cmd == "construct_permutation":
        return guard(lambda: [c.construct_permutation(list(args[0]), args[1])])
    if cmd == "perm_prefix":
        return guard(lambda: [c.compute_jth_permutation_prefix(*args)])
    if cmd == "crp":
        return guard(lambda: [c.count_remaining_permutations(list(args[0]))])
    if cmd == "interleavings":
        return guard(lambda: [c.count_interleavings(*args)])
    if cmd == "cwc":
        return guard(lambda: [c._construct_permutation_with_copies(args[0], args[1], args[2], list(args[3]))])
    if cmd == "cpwc":
        return guard(lambda: [c.construct_permutation_with_copies(*args)])
    if cmd == "cpwvc":
        return guard(lambda: [c.construct_permutation_with_varying_copies(args[0], args[1], list(args[2]))])
    if cmd == "count_pwc":
        return guard(lambda: [kres(c.count_permutations_with_copies(*args))])
    if cmd == "count_pwvc":
        return guard(lambda: [kres(c.count_permutations_with_varying_copies(args[0], list(args[1]), args[2]))])
    if cmd == "recur_count":
        pm = make_memo(c, args[3])
        return guard(lambda: [c.recur_count_prefixes_of_permutations_with_copies(args[0], args[1], args[2], pm),
                              memo_items(pm)])
    if cmd == "kprefix":
        pm = make_memo(c, args[4])
        return guard(lambda: [kres(c.k_prefixes_of_permutations_with_copies(args[0], moc_real(args[1]), args[2], args[3], pm)),
                              memo_items(pm)])
    if cmd == "session":
        pm = c.PermutationMemo()
        out = []
        for op in args[2]:
            if op[0] == "count":
                out.append(guard(lambda: [kres(c.count_prefixes_of_permutations_with_copies(
                    args[0], moc_real(args[1]), op[1], pm))]))
            else:
                out.append(guard(lambda: [kres(c.compute_jth_prefix_of_permutations_with_copies(
                    args[0], moc_real(args[1]), op[1], op[2], pm))]))
        return [out, memo_items(pm)]
    raise KeyError(cmd)


def wire_args(cmd, args):
    if cmd == "kprefix":
        return [args[0], moc_wire(args[1]), args[2], args[3], [list(x) for x in args[4]]]
    if cmd == "session":
        return [args[0], moc_wire(args[1]), [[Atom(op[0])] + list(op[1:]) for op in args[2]]]
    if cmd == "recur_count":
        return [args[0], args[1], args[2], [list(x) for x in args[3]]]
    return [list(a) if isinstance(a, (list, tuple)) else a for a in args]


def model_line(cmd, args):
    return sexp([Atom(cmd)] + wire_args(cmd, args))


def parse_model(cmd, line):
    if line.startswith("!"):
        return ["model-error", line]
    r = parse_sexp(line)
    if cmd == "session":
        return [[x for x in r[0]], sorted(r[1])]
    if cmd in ("kprefix", "recur_count") and r[0] == "ok":
        return ["ok", r[1], sorted(r[2])]
    return r


# --------------------------------------------------------------------------- brute-force oracles (independent of the code)

def words_bounded(counters, first_n):
    q = len(counters)
    return set(w for w in itertools.product(range(q), repeat=first_n)
               if all(w.count(i) <= counters[i] for i in range(q)))


def oracle_count(counters, first_n):
    """Number of words of length first_n with symbol i used at most counters[i]
    times, by an exponential-generating-function DP written independently of the
    code under test (used only to size index ranges during case generation)."""
    if first_n < 0:
        return 0
    # ways[k] = number of words of length k over the symbols seen so far
    ways = [1] + [0] * first_n
    for c in counters:
        new = [0] * (first_n + 1)
        for k in range(first_n + 1):
            if ways[k]:
                for v in range(0, min(c, first_n - k) + 1):
                    new[k + v] += ways[k] * math.comb(k + v, v)
        ways = new
    return ways[first_n]


def oracle_multinomial(counters):
    n = math.factorial(sum(counters))
    for x in counters:
        n //= math.factorial(x)
    return n


def arrangements(kind, p):
    if kind == "radix":
        return set(itertools.product(*[range(s) for s in p[0]]))
    if kind == "comb":
        l, n = p
        return set(itertools.product(range(n), repeat=l))
    if kind == "cns":
        n, m = p
        return set(tuple(sorted(x, reverse=True)) for x in itertools.combinations(range(n), m))
    if kind == "perm":
        n, m = p
        return set(itertools.permutations(range(n), m))
    if kind == "multiperm":
        cs = p[0]
        pool = [i for i, cnt in enumerate(cs) for _ in range(cnt)]
        return set(itertools.permutations(pool))
    if kind in ("prefix_u", "prefix_c", "prefix_u_fresh", "prefix_c_fresh"):
        q, cs, first_n = p
        if kind.startswith("prefix_u"):
            cs = [cs] * q
        return words_bounded(cs, first_n)
    raise KeyError(kind)


def real_count_and_unrank(kind, p):
    """(list of (name, N reported by a real counting function), unrank function j -> tuple)."""
    c = C()
    if kind == "radix":
        sizes = list(p[0])
        return [("product of sizes", math.prod(sizes))], lambda j: tuple(c.extract_components(sizes, j))
    if kind == "comb":
        l, n = p
        return [("pow(n,l)", pow(n, l))], lambda j: tuple(c.compute_jth_combination(l, n, j))
    if kind == "cns":
        n, m = p
        return ([("n_choose_m", c.n_choose_m(n, m))],
                lambda j: tuple(c.compute_jth_combination_without_replacement(n, m, j)))
    if kind == "perm":
        n, m = p
        # random.py: factorial(n), // factorial(n - first_n) when first_n != n
        return ([("factorial(n)//factorial(n-m)", math.factorial(n) // math.factorial(n - m))],
                lambda j: tuple(c.compute_jth_permutation_prefix(n, m, j)))
    if kind == "multiperm":
        cs = list(p[0])
        q = len(cs)
        counts = [("count_remaining_permutations", c.count_remaining_permutations(cs)),
                  ("count_permutations_with_varying_copies",
                   c.count_permutations_with_varying_copies(q, cs, sum(cs)))]
        if cs and all(x == cs[0] for x in cs):
            counts.append(("count_permutations_with_copies", c.count_permutations_with_copies(q, cs[0], q * cs[0])))
            return counts, lambda j: tuple(c.construct_permutation_with_copies(j, q, cs[0]))
        return counts, lambda j: tuple(c.construct_permutation_with_varying_copies(j, q, cs))
    if kind in ("prefix_u", "prefix_c", "prefix_u_fresh", "prefix_c_fresh"):
        q, cs, first_n = p
        uniform = kind.startswith("prefix_u")
        mocv = cs if uniform else list(cs)
        pm = c.PermutationMemo()
        counts = [("count_prefixes_of_permutations_with_copies",
                   c.count_prefixes_of_permutations_with_copies(q, mocv, first_n, pm))]
        if uniform:
            counts.append(("count_permutations_with_copies", c.count_permutations_with_copies(q, mocv, first_n)))
        else:
            counts.append(("count_permutations_with_varying_copies",
                           c.count_permutations_with_varying_copies(q, mocv, first_n)))
        if kind.endswith("fresh"):
            return counts, lambda j: tuple(c.compute_jth_prefix_of_permutations_with_copies(
                q, mocv, first_n, j, c.PermutationMemo()))
        # the sampler's usage: one memo shared by the count and all unrank calls
        return counts, lambda j: tuple(c.compute_jth_prefix_of_permutations_with_copies(q, mocv, first_n, j, pm))
    raise KeyError(kind)


def property_fails_real(kind, p):
    """None if the property holds on the real code for this parameter tuple,
    else a description."""
    want = arrangements(kind, p)
    try:
        counts, unrank = real_count_and_unrank(kind, p)
    except Exception as e:  # noqa
        return "counting function raised %s" % type(e).__name__
    for name, n in counts:
        if n != len(want):
            return "%s reports %r, there are %d arrangements" % (name, n, len(want))
    seen = {}
    for j in range(len(want)):
        try:
            w = unrank(j)
        except TypeError:
            return "index %d does not yield an arrangement (a number was returned)" % j
        except Exception as e:  # noqa
            return "index %d raised %s" % (j, type(e).__name__)
        if not isinstance(w, tuple) or w not in want:
            return "index %d gives %r which is not an arrangement of the kind" % (j, w)
        if w in seen:
            return "indices %d and %d both give %r" % (seen[w], j, w)
        seen[w] = j
    return None


# --------------------------------------------------------------------------- case generation

def small_size_lists(limit):
    out = [()]
    frontier = [((), 1)]
    while frontier:
        nxt = []
        for sizes, prod in frontier:
            if len(sizes) >= 4:
                continue
            for s in range(1, limit + 1):
                if prod * s <= limit:
                    t = sizes + (s,)
                    out.append(t)
                    nxt.append((t, prod * s))
        frontier = nxt
    return out


def counter_lists(maxlen, maxc, maxsum):
    out = []
    for n in range(0, maxlen + 1):
        for cs in itertools.product(range(0, maxc + 1), repeat=n):
            if sum(cs) <= maxsum:
                out.append(cs)
    return out


def idx_range(n):
    return list(range(0, n)) + [n, n + 1, -1]


def exhaustive_cases(ctx):
    """(cmd, args, in_range) for every small parameter tuple and every index."""
    c = C()
    out = []
    lim = 7 if ctx.quick else 9
    # mixed radix
    for sizes in small_size_lists(lim + 1):
        n = math.prod(sizes)
        for j in idx_range(n):
            out.append(("extract_components", (sizes, j), 0 <= j < n))
    for sizes in [(0,), (3, 0, 2), (2, -3), (-2, 2), (-1,)]:
        for j in (0, 1, 5, -1):
            out.append(("extract_components", (sizes, j), False))
    # l-digit base n
    for l in range(-1, 5):
        for n in range(0, lim + 1):
            N = pow(n, l) if l >= 0 else 0
            if N > 4 * lim:
                continue
            for j in idx_range(N):
                out.append(("jth_combination", (l, n, j), 0 <= j < N))
    # binomials
    for n in range(-2, 12):
        for m in range(-2, 12):
            out.append(("n_choose_m", (n, m), n >= 0 and m >= 0))
            for fm in (0, 1, -2, math.factorial(m) if m >= 0 else 3):
                out.append(("ncm", (n, m, fm), False))
    # combinatorial number system
    for n in range(-1, lim + 1):
        for m in range(-1, lim + 2):
            N = math.comb(n, m) if n >= 0 and m >= 0 else 0
            for j in idx_range(N):
                out.append(("cns", (n, m, j), 0 <= j < N))
    # permutation prefixes
    pl = 6 if ctx.quick else 7
    for n in range(-1, pl + 1):
        for m in range(-1, pl + 2):
            N = math.perm(n, m) if n >= 0 and 0 <= m <= n else 0
            for j in idx_range(N):
                out.append(("perm_prefix", (n, m, j), 0 <= j < N))
                if j % 7 == 0 or j >= N or j < 0:
                    out.append(("inversion", (n, m, j), 0 <= j < N))
    for n in range(0, 5):
        for l in range(0, 4):
            for inv in itertools.product(range(-1, 4), repeat=l):
                out.append(("construct_permutation", (inv, n), False))
    # multiset permutations
    for cs in itertools.product(range(-1, 4), repeat=3):
        out.append(("crp", (cs,), min(cs) >= 0))
    for cs in [(), (0,), (1,), (5,), (2, 2, 2, 2), (0, 0, 7), (1, 1, 1, 1, 1, 1, 1)]:
        out.append(("crp", (cs,), True))
    for v in range(-1, 7):
        for need in range(-1, 7):
            out.append(("interleavings", (v, need), 0 <= v <= need))
    for q in range(0, lim + 1):
        for m in range(0, lim + 1):
            if q * m > lim:
                continue
            N = math.factorial(q * m) // (math.factorial(m) ** q)
            for j in idx_range(N):
                out.append(("cpwc", (j, q, m), 0 <= j < N))
    for cs in counter_lists(4, 3, 6 if ctx.quick else 7):
        N = math.factorial(sum(cs))
        for x in cs:
            N //= math.factorial(x)
        for j in idx_range(N):
            out.append(("cpwvc", (j, len(cs), cs), 0 <= j < N))
    # the raw loop with q / fill_n not matching the counters (IndexError, AssertionError, short fill)
    for cs in [(1, 1), (2, 1), (0, 2, 1), (1, 0, 1)]:
        for q in range(0, len(cs) + 2):
            for fill in range(0, sum(cs) + 2):
                for j in (-1, 0, 1, 2, 3, 7):
                    out.append(("cwc", (j, q, fill, cs), False))
    # prefixes of permutations with copies: uniform m
    for q in range(0, lim + 1):
        for m in range(0, lim + 1):
            if q * m > lim:
                continue
            for fn in range(0, q * m + 2):
                out.append(("count_pwc", (q, m, fn), True))
                out.append(("recur_count", (q, m, fn, ()), True))
                N = oracle_count([m] * q, fn)
                for j in idx_range(N):
                    out.append(("kprefix", (q, ("u", m), fn, j, ()), 0 <= j < N))
                    out.append(("session", (q, ("u", m), (("unrank", fn, j),)), 0 <= j < N))
    # ... and per-element counters
    for cs in counter_lists(4, 3, 6 if ctx.quick else 7):
        q = len(cs)
        for fn in range(0, sum(cs) + 2):
            out.append(("count_pwvc", (q, cs, fn), True))
            N = len(words_bounded(cs, fn))
            for j in idx_range(N):
                out.append(("kprefix", (q, ("c", cs), fn, j, ()), 0 <= j < N))
    # q not matching the counter list
    for cs in [(1, 1), (2, 1, 1), (0, 2)]:
        for q in range(0, len(cs) + 2):
            for fn in range(0, sum(cs) + 1):
                for j in (-1, 0, 1, 2, 5):
                    out.append(("kprefix", (q, ("c", cs), fn, j, ()), False))
    return out


def random_cases(ctx, count):
    rng = ctx.rng
    out = []
    c = C()
    for _ in range(count):
        kind = rng.choice(["radix", "comb", "ncm", "cns", "perm", "inv", "multi_u", "multi_c", "crp",
                           "prefix_u", "prefix_c", "prefix_u", "prefix_c", "count_u", "count_c", "recur"])
        big = rng.random() < 0.75          # most cases: counts beyond 2^64
        if kind == "radix":
            sizes = tuple(rng.randint(1, rng.choice([1000, 10 ** 6] if big else [3, 10, 1000]))
                          for _ in range(rng.randint(8 if big else 1, 14)))
            N = math.prod(sizes)
            out.append(("extract_components", (sizes, rng.randrange(N)), True))
        elif kind == "comb":
            l, n = rng.randint(16 if big else 1, 40), rng.randint(20 if big else 1, 60)
            out.append(("jth_combination", (l, n, rng.randrange(pow(n, l))), True))
        elif kind == "ncm":
            n = rng.randint(80 if big else 0, 300)
            m = rng.randint(n // 3, 2 * n // 3) if big else rng.randint(0, n + 2)
            out.append(("n_choose_m", (n, m), True))
        elif kind == "cns":
            n = rng.randint(72 if big else 1, 90)
            m = rng.randint(n // 3, 2 * n // 3) if big else rng.randint(1, n)
            out.append(("cns", (n, m, rng.randrange(math.comb(n, m))), True))
        elif kind == "perm":
            n = rng.randint(30 if big else 1, 70)
            m = rng.randint(22 if big else 0, n)
            out.append(("perm_prefix", (n, m, rng.randrange(math.perm(n, m))), True))
        elif kind == "inv":
            n = rng.randint(30 if big else 1, 70)
            m = rng.randint(22 if big else 0, n)
            out.append(("inversion", (n, m, rng.randrange(math.perm(n, m))), True))
        elif kind == "multi_u":
            q, m = rng.randint(8 if big else 1, 12), rng.randint(3 if big else 1, 4)
            N = math.factorial(q * m) // math.factorial(m) ** q
            out.append(("cpwc", (rng.randrange(N), q, m), True))
        elif kind == "multi_c":
            cs = tuple(rng.randint(2 if big else 0, 4) for _ in range(rng.randint(9 if big else 1, 12)))
            N = oracle_multinomial(cs)
            out.append(("cpwvc", (rng.randrange(N), len(cs), cs), True))
        elif kind == "crp":
            cs = tuple(rng.randint(0, 9) for _ in range(rng.randint(0, 14)))
            out.append(("crp", (cs,), True))
        elif kind in ("prefix_u", "count_u", "recur"):
            q, m = rng.randint(10 if big else 1, 12), rng.randint(2 if big else 1, 4)
            fn = rng.randint(min(19, q * m) if big else 0, min(20, q * m))
            if kind == "count_u":
                out.append(("count_pwc", (q, m, fn), True))
            elif kind == "recur":
                out.append(("recur_count", (q, m, fn, ()), True))
            else:
                N = oracle_count([m] * q, fn)
                j = rng.randrange(N) if (N > 0 and rng.random() < 0.9) else rng.choice([N, N + 1, -1])
                out.append(("kprefix", (q, ("u", m), fn, j, ()), 0 <= j < N))
        else:
            cs = tuple(rng.randint(1 if big else 0, 4) for _ in range(rng.randint(11 if big else 1, 12)))
            fn = rng.randint(min(19, sum(cs)) if big else 0, min(20, sum(cs)))
            if kind == "count_c":
                out.append(("count_pwvc", (len(cs), cs, fn), True))
            else:
                N = oracle_count(cs, fn)
                j = rng.randrange(N) if (N > 0 and rng.random() < 0.9) else rng.choice([N, N + 1, -1])
                out.append(("kprefix", (len(cs), ("c", cs), fn, j, ()), 0 <= j < N))
    # the branch for first_n >= 100 or q >= 100 of the count dispatcher
    for q, m, fn in [(100, 1, 2), (100, 1, 3), (101, 2, 3), (120, 1, 2), (2, 60, 100), (3, 40, 101)]:
        out.append(("session", (q, ("u", m), (("count", fn), ("unrank", fn, 12345 % max(1, q)), ("count", fn))), True))
    return out


def session_cases(ctx, count):
    """Interleaved count / unrank calls on one shared memo, random order."""
    rng = ctx.rng
    c = C()
    out = []
    for _ in range(count):
        if rng.random() < 0.5:
            q, m = rng.randint(1, 8), rng.randint(1, 4)
            mc = ("u", m)
            cs = [m] * q
        else:
            cs = tuple(rng.randint(0, 4) for _ in range(rng.randint(1, 8)))
            q = len(cs)
            mc = ("c", cs)
        ops = []
        for _ in range(rng.randint(2, 9)):
            fn = rng.randint(0, min(14, sum(cs) + 1))
            if rng.random() < 0.4:
                ops.append(("count", fn))
            else:
                N = oracle_count(cs, fn)
                r = rng.random()
                j = rng.randrange(N) if (N > 0 and r < 0.85) else rng.choice([N, N + 1, -1])
                ops.append(("unrank", fn, j))
        out.append(("session", (q, mc, tuple(ops)), True))
    return out


def clean_cases(ctx):
    """The clean recursion (cnt / prefix_unrank, what the theorems are about)
    against the real stack machine, in range only."""
    rng = ctx.rng
    out = []
    for cs in counter_lists(4, 3, 6):
        for fn in range(0, sum(cs) + 2):
            out.append((cs, fn, None))
            N = len(words_bounded(cs, fn))
            for j in range(N):
                out.append((cs, fn, j))
    for _ in range(150 if ctx.quick else 1500):
        cs = tuple(rng.randint(0, 4) for _ in range(rng.randint(1, 7)))
        fn = rng.randint(0, min(16, sum(cs)))
        work = 1
        for x in cs:
            work *= min(x, fn) + 1
        if work > 4000:
            continue
        out.append((cs, fn, None))
        N = oracle_count(cs, fn)
        for _ in range(3):
            if N > 0:
                out.append((cs, fn, rng.randrange(N)))
    return out


# --------------------------------------------------------------------------- the check

SEARCH_KINDS = ("radix", "comb", "cns", "perm", "multiperm", "prefix_u", "prefix_c", "prefix_u_fresh", "prefix_c_fresh")


def search_space(ctx):
    lim = 7 if ctx.quick else 8
    out = []
    for sizes in small_size_lists(lim + 1 if ctx.quick else 12):
        out.append(("radix", (sizes,)))
    for l in range(0, 5):
        for n in range(0, lim + 1):
            if pow(n, l) <= 700:
                out.append(("comb", (l, n)))
    for n in range(0, lim + 2):
        for m in range(0, n + 2):
            out.append(("cns", (n, m)))
    for n in range(0, lim):
        for m in range(0, n + 1):
            out.append(("perm", (n, m)))
    cls = counter_lists(4, 3, lim) + [(1,) * k for k in range(5, lim + 1)] + [(4, 2), (4, 3), (5, 1, 1), (4, 4)]
    for cs in cls:
        out.append(("multiperm", (cs,)))
        for fn in range(0, sum(cs) + 2):
            if fn <= 8:
                out.append(("prefix_c", (len(cs), cs, fn)))
                if fn % 2 == 1:
                    out.append(("prefix_c_fresh", (len(cs), cs, fn)))
    for q in range(0, lim + 1):
        for m in range(0, lim + 1):
            if q * m > lim + 1:
                continue
            for fn in range(0, q * m + 2):
                if q ** min(fn, 8) > 70000:
                    continue
                out.append(("prefix_u", (q, m, fn)))
                if fn % 2 == 0:
                    out.append(("prefix_u_fresh", (q, m, fn)))
    return out


def run(ctx, res):
    res.rule = ("exhaustive: every parameter tuple with product / q*m / n / sum of counters <= %d and every index "
                "0..N-1, N, N+1, -1, for each function of combinatorics.py; random larger tuples (q<=12, counters<=4, "
                "first_n<=20, n<=90; counts beyond 2^64); sessions of interleaved count/unrank calls on one shared "
                "PermutationMemo (results and final table compared); the clean recursion cnt/prefix_unrank against "
                "the real stack machine. A case is non-trivial if its index is in range (a bijection obligation); "
                "distinct by (function, arguments)" % (7 if ctx.quick else 9))
    cases = exhaustive_cases(ctx)
    n_ex = len(cases)
    cases += random_cases(ctx, 2000 if ctx.quick else 20000)
    cases += session_cases(ctx, 300 if ctx.quick else 3000)
    outs = ctx.model([model_line(cmd, args) for cmd, args, _ in cases])
    mism = []
    big = 0
    for i, ((cmd, args, in_range), line) in enumerate(zip(cases, outs)):
        real = real_call(cmd, args)
        mod = parse_model(cmd, line)
        ok = real == mod
        layer = ("L5-exhaustive:" if i < n_ex else "L5-random:") + cmd
        res.layer(layer, ok)
        res.count((cmd, repr(args)), nontrivial=in_range)
        if not ok:
            mism.append((cmd, args, real, line[:300]))
        if i >= n_ex and any(len(t) >= 20 for t in (line + " " + model_line(cmd, args)).replace("(", " ").replace(")", " ").split()):
            big += 1
        if (cmd, args) in ((("kprefix"), (3, ("u", 2), 4, 7, ())), ("cns", (5, 3, 9, )), ("perm_prefix", (4, 2, 11))):
            res.sample({"call": model_line(cmd, args), "real": repr(real), "model_out": line[:200]})
    res.extra["random_cases_with_values_beyond_2^64"] = big
    res.sample({"session": model_line(*cases[-1][:2]), "model_out": outs[-1][:300]})

    # the clean recursion of the theorems vs the real stack machine (in range)
    c = C()
    cl = clean_cases(ctx)
    lines = [sexp([Atom("cnt"), list(cs), fn]) if j is None else sexp([Atom("prefix_unrank"), list(cs), fn, j])
             for cs, fn, j in cl]
    for (cs, fn, j), line in zip(cl, ctx.model(lines)):
        try:
            if j is None:
                real = c.count_prefixes_of_permutations_with_copies(len(cs), list(cs), fn, c.PermutationMemo())
                ok = line.strip() == str(real)
            else:
                real = c.compute_jth_prefix_of_permutations_with_copies(len(cs), list(cs), fn, j, c.PermutationMemo())
                ok = isinstance(real, list) and parse_sexp(line) == [real]
        except Exception as e:  # noqa
            real, ok = ("err", type(e).__name__), False
        res.layer("L5-clean-recursion", ok)
        res.count(("clean", cs, fn, j))
        if not ok:
            mism.append(("clean", (cs, fn, j), real, line[:300]))

    # search: the property itself on the real code against itertools
    failing = []
    space = search_space(ctx)
    for kind, p in space:
        bad = property_fails_real(kind, p)
        res.count(("search", kind, repr(p)))
        if bad is not None:
            failing.append((kind, p, bad))
    res.extra["search_space"] = ("%d parameter tuples (mixed radix, base-n, combinations, permutation prefixes, multiset "
                                 "permutations, bounded-repetition prefixes with shared and fresh memo), every index; "
                                 "oracle: itertools enumeration" % len(space))
    res.extra["exhaustive"] = False
    for kind, p, bad in failing[:3]:
        res.violations.append(Violation(
            "comb:%s:%s" % (kind, "-".join(str(x) for x in p).replace(" ", "")),
            "%s with parameters %r: %s" % (kind, p, bad),
            {"kind": kind, "params": [list(x) if isinstance(x, tuple) else x for x in p], "detail": bad}))
    if failing:
        res.extra["failing_cases"] = [(k, repr(p), b) for k, p, b in failing[:50]]
    if mism and not failing:
        res.violations.append(Violation(
            "corr:L5", "model Comb/CombModel.v and real combinatorics.py disagree on %d cases, e.g. %r" % (
                len(mism), mism[0]),
            {"layer": "L5", "theorems": ["C13_*"], "first_mismatches": [repr(m) for m in mism[:5]]},
            failing_input=False))
    elif mism:
        res.notes.append("correspondence also broken on %d cases" % len(mism))


def replay(ctx, data):
    p = tuple(tuple(x) if isinstance(x, list) else x for x in data["params"])
    return property_fails_real(data["kind"], p) is not None
