"""C14 - Trial/factor/level variables are allocated and decoded consistently.

Theorems: coq/theories/Properties/C14.v (about Design/Layout.v and Sample/Decode.v).
Correspondence:
  L2  the whole layout bundle of the real block (variables_per_trial, grid_variables,
      variables_per_sample, support_variables, _encode_variable of every applicable
      (factor, level, trial), decode_variable of every variable, variable_list_for_trial)
      vs. the extracted model run on the flat record read from the same block;
  L6  Gen.decode(block, solution) vs. the extracted Sample/Decode.v on one-hot
      assignments (all of them for small designs, random ones otherwise), on random
      non-one-hot assignments (error paths) and on real solver models.
Search (the property itself on the real code, independent of the model): encode
is injective on the applicable (trial, factor, level) triples with image exactly
1..variables_per_sample, decode_variable inverts it, the backend request starts
its fresh counter at variables_per_sample+1 and never lowers it, combining with
the cardinality requests allocates only variables >= that counter, the variable
lists handed to the constraints consist of variables of the requested level, and
decoding the one-hot assignment of a level choice returns exactly that choice
with '' exactly where the factor does not apply (applicability computed from the
program's window parameters, not from the code).  Designs with two factors of
the same name outside the crossing are included.
"""
import contextlib
import copy
import itertools
import json
import signal

import docsem
import flat
import gen_design
import ir
import layout_real
from common import Violation, parse_sexp

TITLE = "variable allocation and decoding"
LEVEL = "proof"
DOMAINS = ['Decode', 'Design']


class RealCodeTimeout(BaseException):
    """raised by the watchdog (BaseException: the `except Exception` around real-code calls must not swallow it)"""


@contextlib.contextmanager
def time_limit(seconds):
    def handler(signum, frame):
        raise RealCodeTimeout()
    old = signal.signal(signal.SIGALRM, handler)
    signal.alarm(seconds)
    try:
        yield
    finally:
        signal.alarm(0)
        signal.signal(signal.SIGALRM, old)


def loops_forever(block, g):
    """map_block_trial_ranges(g, .) cannot terminate on this block: the step is <= 0 while the
    loop condition holds (decided from attributes only, without entering the loop)."""
    from sweetpea._internal.cross_block import AlignmentMode
    if g is None:
        return False
    if g.num_trials - g.preamble_size > 0:
        return False
    with ir.quiet():
        T = block.trials_per_sample()
        start = (block.preamble_size() - g.preamble_size) if block.alignment == AlignmentMode.POST_PREAMBLE else 0
    return start < T - g.preamble_size


# --------------------------------------------------------------------------- programs

def _simple(fid, name, n):
    return {"id": fid, "name": name, "kind": "simple", "levels": [[gen_design.NAMES[i] + str(fid), 1] for i in range(n)]}


def nest_complex(rng):
    """Nest programs whose outer/inner blocks carry transition/window factors, so
    that complex-window factors get a sustain count > 1 (gen_design never does)."""
    o = _simple(0, "o", rng.choice([2, 2, 3]))
    i = _simple(1, "i", rng.choice([2, 3]))
    factors = [o, i]
    od, idn = [0], [1]
    ocr, icr = [0], [1]
    fid = 2
    if rng.random() < 0.8:
        d = gen_design.derived_factor(rng, fid, [o], wtype=rng.choice(["transition", "window"]))
        factors.append(d)
        od.append(fid)
        if d["window"].get("stride", 1) == 1:
            r = rng.random()
            if r < 0.4:
                ocr = [0, fid]
            elif r < 0.7:
                ocr = [fid]
        fid += 1
    if rng.random() < 0.6:
        d = gen_design.derived_factor(rng, fid, [i], wtype=rng.choice(["transition", "window", "within"]))
        factors.append(d)
        idn.append(fid)
        if d["window"].get("stride", 1) == 1 and rng.random() < 0.4:
            icr = [1, fid]
        fid += 1
    constraints = []
    cs_in = []
    if rng.random() < 0.5:
        constraints.append(gen_design.rand_constraint(rng, len(constraints), factors, idn, 4,
                                                      kinds=["AtMostKInARow", "ExactlyK", "Pin", "AtMostKInARow-factor"]))
        cs_in.append(constraints[-1]["id"])
    cs_out = []
    if rng.random() < 0.4:
        constraints.append(gen_design.rand_constraint(rng, len(constraints), factors, od, 4,
                                                      kinds=["AtMostKInARow", "ExactlyK", "Pin"]))
        cs_out.append(constraints[-1]["id"])
    al = rng.choice(["parallel start", "post preamble", "parallel start", None])
    kind = rng.choice(["CrossBlock", "MultiCrossBlock"])
    if kind == "CrossBlock":
        ob = {"id": 0, "kind": "CrossBlock", "design": od, "crossing": ocr, "constraints": cs_out, "rcc": True}
        ib = {"id": 1, "kind": "CrossBlock", "design": idn, "crossing": icr, "constraints": cs_in, "rcc": True}
    else:
        ob = {"id": 0, "kind": "MultiCrossBlock", "design": od, "crossings": [ocr], "constraints": cs_out, "rcc": True,
              "alignment": al or "equal preamble"}
        ib = {"id": 1, "kind": "MultiCrossBlock", "design": idn, "crossings": [icr], "constraints": cs_in, "rcc": True,
              "alignment": al or "equal preamble"}
    return {"factors": factors, "constraints": constraints,
            "blocks": [ob, ib, {"id": 2, "kind": "Nest", "outer": 0, "inner": 1, "constraints": [], "alignment": al}],
            "main": 2}


def crossed_fids(program):
    out = set()
    for b in program["blocks"]:
        for c in ([b["crossing"]] if "crossing" in b else b.get("crossings", [])):
            out.update(c)
    return out


def same_name_variant(rng, program):
    """Rename a factor that is in no crossing to the name of another factor of the
    main design (the constructors reject equal names only inside one crossing)."""
    fids = ir.design_fids(program, program["main"])
    byid = {f["id"]: f for f in program["factors"]}
    crossed = crossed_fids(program)
    cands = [f for f in fids if f not in crossed and byid[f]["kind"] != "continuous"]
    if not cands or len(fids) < 2:
        return None
    g = rng.choice(cands)
    others = [f for f in fids if f != g and byid[f]["kind"] != "continuous"]
    if not others:
        return None
    h = rng.choice(others)
    p = copy.deepcopy(program)
    for f in p["factors"]:
        if f["id"] == g:
            f["name"] = byid[h]["name"]
    p["same_name"] = [g, h]
    return p


def hand_programs():
    out = list(gen_design.corpus())
    f = {"id": 0, "name": "f", "kind": "simple", "levels": [["a", 1], ["b", 1]]}
    g = {"id": 1, "name": "f", "kind": "simple", "levels": [["c", 1], ["d", 1]]}
    out.append(("same-name-simple", {
        "factors": [f, g], "constraints": [],
        "blocks": [{"id": 0, "kind": "CrossBlock", "design": [0, 1], "crossing": [0], "constraints": [], "rcc": True}],
        "main": 0, "same_name": [1, 0]}))
    t = {"id": 1, "name": "f", "kind": "derived", "window": {"type": "transition", "deps": [0]},
         "levels": [{"name": "same", "table": [[["a", "a"]], [["b", "b"]]]}, {"name": "diff", "else": True}]}
    out.append(("same-name-transition", {
        "factors": [f, t], "constraints": [{"id": 0, "kind": "AtMostKInARow", "k": 2, "level": [1, "same"]}],
        "blocks": [{"id": 0, "kind": "CrossBlock", "design": [0, 1], "crossing": [0], "constraints": [0], "rcc": True}],
        "main": 0, "same_name": [1, 0]}))
    w = {"id": 1, "name": "w", "kind": "simple", "levels": [["c", 2], ["d", 1]]}
    d = {"id": 2, "name": "d", "kind": "derived", "window": {"type": "within", "deps": [1]},
         "levels": [{"name": "isc", "table": [[["c"]]]}, {"name": "isd", "else": True}]}
    out.append(("weighted-dependency-of-derived", {
        "factors": [f, w, d], "constraints": [{"id": 0, "kind": "AtMostKInARow", "k": 1, "level": [2, "isc"]}],
        "blocks": [{"id": 0, "kind": "CrossBlock", "design": [0, 1, 2], "crossing": [0], "constraints": [0], "rcc": True}],
        "main": 0}))
    out.append(("weighted-outside-crossing", {
        "factors": [f, w], "constraints": [],
        "blocks": [{"id": 0, "kind": "CrossBlock", "design": [0, 1], "crossing": [0], "constraints": [], "rcc": True}],
        "main": 0}))
    return out


def _window_factor(fid, name, dep, width, stride, start, wtype="window"):
    """Derived factor on simple factor `dep`: level 'hit' iff the newest element of the window is
    dep's first level, else-level 'miss' (tables list None wherever the window may reach before trial 1)."""
    names = [l for l, _ in dep["levels"]]
    table = []
    for tup in itertools.product(*[names + [None]] * width):
        if tup[-1] == names[0]:
            table.append([list(tup)])
    win = {"type": wtype, "deps": [dep["id"]]}
    if wtype == "window":
        win.update({"width": width, "stride": stride, "start": start})
    return {"id": fid, "name": name, "kind": "derived", "window": win,
            "levels": [{"name": "hit", "table": table, "weight": 1}, {"name": "miss", "else": True, "weight": 1}]}


def strided_family():
    """Deterministic family (both tiers): a strided window factor (stride 2 / 3, start 0 / 1 / None, width 1..3),
    kept in act_design by an AtMostKInARow on one of its levels (strided factors cannot be crossed), listed BEFORE a
    second complex factor (Transition or stride-1 Window) that is crossed or constrained; 3..7 trials via
    MinimumTrials.  The variables of the second factor start after ALL variables of the strided one, so any
    miscount of the strided factor's applicable trials (rounding of (trials - start) / stride) makes two choices
    share a variable or leaves a gap."""
    out = []
    f = {"id": 0, "name": "f", "kind": "simple", "levels": [["a", 1], ["b", 1]]}
    for stride in (2, 3):
        for start in (0, 1, None):
            for width in (1, 2, 3):
                w = _window_factor(1, "w", f, width, stride, start)
                for second in ("transition-constrained", "window-constrained", "transition-crossed"):
                    if second == "window-constrained":
                        t = _window_factor(2, "t", f, 2, 1, None)
                    else:
                        t = _window_factor(2, "t", f, 2, 1, 1, wtype="transition")
                    for m in (3, 4, 5, 6, 7):
                        cons = [{"id": 0, "kind": "AtMostKInARow", "k": 2, "level": [1, "hit"]},
                                {"id": 1, "kind": "MinimumTrials", "trials": m}]
                        cs = [0, 1]
                        crossing = [0]
                        if second == "transition-crossed":
                            crossing = [0, 2]
                        else:
                            cons.append({"id": 2, "kind": "AtMostKInARow", "k": 3, "level": [2, "hit"]})
                            cs.append(2)
                        p = {"factors": [f, w, t], "constraints": cons,
                             "blocks": [{"id": 0, "kind": "CrossBlock", "design": [0, 1, 2], "crossing": crossing,
                                         "constraints": cs, "rcc": True}], "main": 0}
                        out.append(("strided-before-complex", p))
    # the strided factor listed LAST among the encoded factors and not applying to the final trial: the
    # first auxiliary variable must still come after ALL its variables (seed C14-fresh-from-last-trial)
    for stride in (2, 3):
        for start in (0, 1, None):
            for width in (1, 2):
                w = _window_factor(1, "w", f, width, stride, start)
                t = _window_factor(2, "t", f, 2, 1, 1, wtype="transition")
                for m in (4, 5, 6, 7):
                    cons = [{"id": 0, "kind": "AtMostKInARow", "k": 2, "level": [1, "hit"]},
                            {"id": 1, "kind": "MinimumTrials", "trials": m}]
                    out.append(("strided-last", {
                        "factors": [f, w, t], "constraints": cons,
                        "blocks": [{"id": 0, "kind": "CrossBlock", "design": [0, 2, 1], "crossing": [0, 2],
                                    "constraints": [0, 1], "rcc": True}], "main": 0}))
                    out.append(("strided-only", {
                        "factors": [f, w], "constraints": cons,
                        "blocks": [{"id": 0, "kind": "CrossBlock", "design": [0, 1], "crossing": [0],
                                    "constraints": [0, 1], "rcc": True}], "main": 0}))
    # three complex-window factors in act_design: the third one's variables start after the SUM of the
    # first two blocks of variables (seed C14-complex-offset-overwritten; two such factors cannot tell
    # an accumulated offset from an overwritten one)
    for widths in ((2, 3, 4), (3, 2, 2), (2, 2, 3)):
        for m in (5, 6, 7):
            ws = [_window_factor(i + 1, "w%d" % i, f, wd, 1, None) for i, wd in enumerate(widths)]
            cons = [{"id": i, "kind": "AtMostKInARow", "k": 3, "level": [i + 1, "hit"]} for i in range(3)]
            cons.append({"id": 3, "kind": "MinimumTrials", "trials": m})
            out.append(("three-complex", {
                "factors": [f] + ws, "constraints": cons,
                "blocks": [{"id": 0, "kind": "CrossBlock", "design": [0, 1, 2, 3], "crossing": [0],
                            "constraints": [0, 1, 2, 3], "rcc": True}], "main": 0}))
    return out


def gen_programs(ctx, n):
    """Seeded stream of (tag, program); the hand-written programs and the strided family come on top of n."""
    rng = ctx.rng
    out = [(tag, p) for tag, p in hand_programs()]
    fam = strided_family()
    n += len(fam)
    out += fam
    shapes = ["cross", "cross", "multi", "repeat", "merge", "nest", "cross", "repeat"]
    i = 0
    while len(out) < n:
        i += 1
        r = i % 10
        if r == 9:
            p = nest_complex(rng)
            tag = "nest-complex"
        else:
            shape = shapes[i % len(shapes)]
            feats = {}
            if i % 3 == 1:
                feats["wtype"] = rng.choice(["transition", "window", "window"])
            p = gen_design.gen_program(rng, max_space=60000, shape=shape, features=feats)
            tag = shape
        if p is None:
            continue
        out.append((tag, p))
        if rng.random() < 0.12:
            q = same_name_variant(rng, p)
            if q is not None:
                out.append((tag + "+same-name", q))
    return out


# --------------------------------------------------------------------------- real side

def canon_layout(rl):
    return json.dumps(rl).replace("[", "(").replace("]", ")").replace(",", "").replace('"', "")[1:-1]


def key_of(block, k):
    from sweetpea._internal.primitive import HiddenName
    if isinstance(k, HiddenName):
        for i, f in enumerate(block.design):
            if f.name is k:
                return ["hidden", i]
        return ["hidden", -1]
    return str(k)


def real_decode(block, sol):
    from sweetpea._internal.sampling_strategy.base import Gen
    try:
        with ir.quiet():
            d = Gen.decode(block, list(sol))
    except Exception as e:  # noqa
        return ["error", type(e).__name__]
    return [[key_of(block, k), [str(x) for x in v]] for k, v in d.items()]


def raw_decode(block, sol):
    from sweetpea._internal.sampling_strategy.base import Gen
    with ir.quiet():
        return Gen.decode(block, list(sol))


def model_decoded(x):
    """parse_sexp output of one decode result -> same shape as real_decode."""
    if len(x) == 2 and x[0] == "error":
        return ["error", x[1]]
    out = []
    for k, v in x:
        out.append([(["hidden", k[1]] if isinstance(k, list) else str(k)), [str(s) for s in v]])
    return out


def applicable_triples(block):
    """(t, f, l) with t 1-based, for the real block (uses the real applies_to_trial; the
    search below recomputes applicability from the program for its oracle)."""
    T = block.trials_per_sample()
    out = []
    for f in block.act_design:
        su = block.sustain_count(f)
        for t in range(1, T + 1):
            if f.applies_to_trial((t - 1) // su + 1):
                for l in f.levels:
                    out.append((t, f, l))
    return out


def doc_applies(program, built, block, f):
    """Applicability of real factor f per 0-based trial, from the program's window
    parameters (documentation reading of docsem.window_params) and the sustain count
    recorded on the block; None when the factor is not one the program declares
    (weight desugaring replacements: always width-1 windows)."""
    fd = None
    byid = {x["id"]: x for x in program["factors"]}
    for fid, obj in built.factors.items():
        if obj is f:
            fd = byid[fid]
    if fd is None and isinstance(f.name, str):
        # weight desugaring rebuilds a derived factor that depends on a desugared factor: same name, same window
        cands = [byid[fid] for fid in ir.design_fids(program, program["main"]) if byid[fid]["name"] == f.name]
        if len(cands) == 1:
            fd = cands[0]
    su = block.factor_to_sustain_count.get(f, 1)
    if fd is None or fd["kind"] != "derived":
        return lambda t: True
    _, width, stride, start = docsem.window_params(program, fd)
    return lambda t: (t // su) >= start and ((t // su) - start) % stride == 0


def uniq_act(block):
    """act_design without repeated factor objects (a factor listed twice is still one factor)."""
    out = []
    for f in block.act_design:
        if not any(f is g for g in out):
            out.append(f)
    return out


def onehot_choices(ctx, block, limit_all, nrandom):
    """Level choices: dict (factor position in act_design, 0-based trial) -> level index."""
    T = block.trials_per_sample()
    cells = []
    for fi, f in enumerate(uniq_act(block)):
        su = block.sustain_count(f)
        for t in range(T):
            if f.applies_to_trial(t // su + 1):
                cells.append((fi, t, len(f.levels)))
    total = 1
    for c in cells:
        total *= c[2]
        if total > limit_all:
            break
    if total <= limit_all:
        out = []
        for pick in itertools.product(*[range(c[2]) for c in cells]):
            out.append({(c[0], c[1]): l for c, l in zip(cells, pick)})
        return out, True
    out = []
    for _ in range(nrandom):
        out.append({(c[0], c[1]): ctx.rng.randrange(c[2]) for c in cells})
    return out, False


def assignment_of(block, choice, vps):
    act = uniq_act(block)
    pos = set()
    for (fi, t), l in choice.items():
        f = act[fi]
        pos.add(block._encode_variable(f, f.levels[l], t + 1))
    return [v if v in pos else -v for v in range(1, vps + 1)], pos


def solver_models(block, vps, limit):
    """Models of the real final CNF (as iterate_sat.py builds it), projected to 1..vps."""
    import pycryptosat
    from sweetpea._internal.core import CNF, combine_cnf_with_requests
    with ir.quiet():
        br = block.build_backend_request()
        cnf = combine_cnf_with_requests(CNF(br.get_cnfs_as_json()), br.fresh - 1, vps,
                                        br.get_requests_as_generation_requests())
    clauses = cnf.as_list_of_list_of_ints()
    s = pycryptosat.Solver()
    for c in clauses:
        s.add_clause(c)
    if vps > 0:
        s.add_clause([vps, -vps])
    out = []
    while len(out) < limit:
        ok, sol = s.solve()
        if not ok:
            break
        m = [v if sol[v] else -v for v in range(1, vps + 1)]
        out.append(m)
        s.add_clause([-x for x in m])
    return out


# --------------------------------------------------------------------------- the property on the real code

def constraint_level_geoms(block):
    """(factor, level, within_block) of every constraint that asks for variable lists."""
    out = []
    for c in block.constraints:
        l = getattr(c, "level", None)
        if l is None or not hasattr(c, "within_block") or type(c).__name__ in ("Pin", "Exclude"):
            continue
        f = getattr(l, "factor", None)
        if f is None or f not in block.act_design:
            continue
        out.append((f, l, c.within_block, type(c).__name__))
    return out


def first_bad_varlist(block, enc, vps):
    """The variable lists handed to the constraints must consist of variables of the requested level."""
    for f, l, g, cname in constraint_level_geoms(block):
        try:
            vls = block.build_variable_lists((f, l), g)
        except Exception:  # noqa
            continue
        want = (block.design.index(f), list(f.levels).index(l))
        for vl in vls:
            for v in vl:
                ks = enc.get(v)
                if not ks or (ks[0][1], ks[0][2]) != want:
                    gs = "None" if g is None else "(trials=%d, preamble=%d)" % (g.num_trials, g.preamble_size)
                    which = ("not a trial variable (variables_per_sample = %d): it collides with an auxiliary variable" % vps
                             if not ks else "the variable of (trial, factor, level) = %r" % (ks[0],))
                    T = block.trials_per_sample()
                    over = any(b > T for _, b in block.map_block_trial_ranges(g, lambda s, e: (s, e)))
                    under = any(a < 0 for a, _ in block.map_block_trial_ranges(g, lambda s, e: (s, e)))
                    from sweetpea._internal.cross_block import AlignmentMode
                    sig = ("layout:varlist-window-overrun" if over else
                           # POST_PREAMBLE: the window start is shifted by preamble_size() - within_block.preamble_size,
                           # which is negative when the constraint's own block had the longer (alignment) preamble
                           "layout:varlist-negative-start:post-preamble"
                           if under and g is not None and getattr(block, "alignment", None) == AlignmentMode.POST_PREAMBLE else
                           "layout:varlist-complex-misindexed" if f.has_complex_window else "layout:varlist-outside-grid")
                    return (sig,
                            "%s: build_variable_lists for factor %d level %d within %s lists variable %d, which is %s"
                            % (cname, want[0], want[1], gs, v, which),
                            {"constraint": cname, "factor": want[0], "level": want[1], "variable": v, "vps": vps,
                             "geometry": None if g is None else [g.num_trials, g.preamble_size]})
    return None


def search_layout(program, built, block):
    """Returns a list of (sig, what, detail) for the allocation part of the property."""
    bad = []
    with ir.quiet():
        vps = block.variables_per_sample()
        triples = applicable_triples(block)
        enc = {}
        for (t, f, l) in triples:
            try:
                v = block._encode_variable(f, l, t)
            except Exception as e:  # noqa
                bad.append(("encode:raises", "_encode_variable raised %s" % type(e).__name__,
                            {"trial": t, "factor": str(f.name), "level": str(l.name)}))
                continue
            key = (t, block.design.index(f), [i for i, x in enumerate(f.levels) if x is l][0])
            if key not in enc.setdefault(v, []):
                enc[v].append(key)
        shared = {v: ks for v, ks in enc.items() if len(ks) > 1}
        if shared:
            v = sorted(shared)[0]
            bad.append(("encode:not-injective", "variable %d stands for several (trial, factor, level): %r" % (v, shared[v]),
                        {"variable": v, "triples": shared[v]}))
        if set(enc) != set(range(1, vps + 1)):
            missing = sorted(set(range(1, vps + 1)) - set(enc))[:5]
            extra = sorted(set(enc) - set(range(1, vps + 1)))[:5]
            twice = len(uniq_act(block)) < len(block.act_design)
            bad.append(("layout:factor-listed-twice" if twice else "encode:image",
                        "encoded variables are not exactly 1..%d (unused %r, outside %r)%s" % (
                            vps, missing, extra,
                            "; act_design lists a factor object twice: %r" % ([str(getattr(f.name, "name", f.name)) for f in block.act_design],)
                            if twice else ""),
                        {"vps": vps, "unused": missing, "outside": extra}))
        for v, ks in enc.items():
            if len(ks) != 1:
                continue
            t, fi, li = ks[0]
            try:
                f, l = block.decode_variable(v)
                got = (block.design.index(f), list(f.levels).index(l))
            except Exception as e:  # noqa
                got = ("error", type(e).__name__)
            if got != (fi, li):
                bad.append(("decode-variable:inverse", "decode_variable(%d) = %r but the variable encodes factor %d level %d at trial %d"
                            % (v, got, fi, li, t), {"variable": v, "got": list(got), "triple": list(ks[0])}))
                break
        b = first_bad_varlist(block, enc, vps)
        if b is not None:
            bad.append(b)
    return bad


def search_fresh(block):
    """fresh counter of the backend request and of the final CNF."""
    import sweetpea._internal.block as B
    from sweetpea._internal.core import CNF, combine_cnf_with_requests
    bad = []
    trace = []
    orig = B.BackendRequest

    class Rec(orig):
        def __setattr__(self, k, v):
            if k == "fresh":
                trace.append(v)
            object.__setattr__(self, k, v)
    vps = block.variables_per_sample()
    B.BackendRequest = Rec
    try:
        with ir.quiet():
            br = block.build_backend_request()
    except Exception as e:  # noqa
        return None, ("error", type(e).__name__)
    finally:
        B.BackendRequest = orig
    if not trace or trace[0] != vps + 1:
        bad.append(("fresh:start", "build_backend_request starts fresh at %r, variables_per_sample = %d" % (trace[:1], vps),
                    {"trace": trace[:5], "vps": vps}))
    if any(b < a for a, b in zip(trace, trace[1:])):
        bad.append(("fresh:decreases", "fresh counter decreases while constraints are applied: %r" % trace[:20], {"trace": trace[:50]}))
    init = br.get_cnfs_as_json()
    reqs = br.get_requests_as_generation_requests()
    used = set(abs(l) for c in init for l in c)
    for r in reqs:
        used.update(abs(int(v)) for v in r.boolean_values)
    over = sorted(v for v in used if v >= br.fresh)
    if over:
        bad.append(("fresh:used-above", "formula mentions variables %r >= fresh counter %d" % (over[:5], br.fresh),
                    {"variables": over[:10], "fresh": br.fresh}))
    try:
        with ir.quiet():
            final = combine_cnf_with_requests(CNF(init), br.fresh - 1, vps, reqs)
        new = set(abs(l) for c in final.as_list_of_list_of_ints() for l in c) - used
        low = sorted(v for v in new if v < br.fresh)
        if low:
            bad.append(("fresh:aux-low", "combining with the requests introduces variables %r below the fresh counter %d (variables_per_sample %d)"
                        % (low[:5], br.fresh, vps), {"variables": low[:10], "fresh": br.fresh, "vps": vps}))
    except Exception as e:  # noqa
        return bad, ("error", type(e).__name__)
    return bad, ("ok", br.fresh - 1 - vps)


def check_onehot(program, built, block, choice, decoded):
    """decoded: what Gen.decode returned (dict) for the one-hot assignment of `choice`.
    None if it is exactly the choice, else a description."""
    act = uniq_act(block)
    T = block.trials_per_sample()
    if not isinstance(decoded, dict):
        return "Gen.decode raised %s" % (decoded,)
    names = [f.name for f in act]
    for fi, f in enumerate(act):
        app = doc_applies(program, built, block, f)
        row = []
        for t in range(T):
            if app(t):
                if (fi, t) not in choice:
                    return "factor %s applies at trial %d by its window parameters but the block allocates no variable there" % (f.name, t)
                row.append(str(f.levels[choice[(fi, t)]].name))
            else:
                if (fi, t) in choice:
                    return "factor %s does not apply at trial %d by its window parameters but the block allocates variables there" % (f.name, t)
                row.append("")
        got = decoded.get(f.name)
        if got is None or [str(x) for x in got] != row:
            dup = names.count(f.name) > 1
            return ("factor %r%s: chose %r, decoded %r" % (str(f.name) if not hasattr(f.name, "name") else "hidden:" + f.name.name,
                                                           " (name shared by %d factors of the design)" % names.count(f.name) if dup else "",
                                                           row, got))
    extra = [k for k in decoded if k not in names]
    if extra:
        return "decoded dict has keys %r that are no factor of act_design" % ([str(k) for k in extra],)
    return None


def run_program(ctx, program, limit_all, nrandom, nsolver):
    """Everything the check does for one program; returns a dict."""
    built = ir.build(program)
    block = ir.main_block(built, program)
    if block is None:
        return {"status": "rejected", "errors": [v[1] for v in built.errors.values()]}
    if any(loops_forever(block, g) for g in layout_real.geoms_of(block)):
        # compiling this design does not terminate (a finding of C26: sig ranges:nontermination); nothing to observe
        return {"status": "nonterminating", "errors": []}
    with ir.quiet():
        vps = block.variables_per_sample()
        T = block.trials_per_sample()
    r = {"status": "built", "block": block, "built": built, "vps": vps, "T": T}
    r["wire"] = flat.flat_wire(block)
    r["real_layout"] = canon_layout(layout_real.real_layout(block))
    sols = []     # (kind, assignment, choice or None)
    choices, exhaustive = onehot_choices(ctx, block, limit_all, nrandom)
    r["exhaustive"] = exhaustive
    with ir.quiet():
        for ch in choices:
            try:
                a, _ = assignment_of(block, ch, vps)
            except Exception:  # noqa
                continue
            if ctx.rng.random() < 0.5:
                a = [v for v in a if v > 0]          # solvers may also hand over positive literals only
            sols.append(("onehot", a, ch))
    for _ in range(3):
        p = ctx.rng.choice([0.1, 0.5, 0.9])
        a = [(v if ctx.rng.random() < p else -v) for v in range(1, vps + 1)]
        a += [v for v in range(vps + 1, vps + 4) if ctx.rng.random() < 0.5]
        ctx.rng.shuffle(a)
        sols.append(("random", a, None))
    try:
        ms = solver_models(block, vps, nsolver)
        r["solver"] = len(ms)
    except Exception as e:  # noqa
        ms = []
        r["solver"] = type(e).__name__
    for m in ms:
        sols.append(("solver", m, None))
    r["sols"] = sols
    return r


def choice_of_model(block, m):
    """The level choice a (one-hot) solver model makes, or None if it is not one-hot."""
    pos = set(v for v in m if v > 0)
    T = block.trials_per_sample()
    ch = {}
    with ir.quiet():
        for fi, f in enumerate(uniq_act(block)):
            su = block.sustain_count(f)
            for t in range(T):
                if f.applies_to_trial(t // su + 1):
                    ls = [li for li, l in enumerate(f.levels) if block._encode_variable(f, l, t + 1) in pos]
                    if len(ls) != 1:
                        return None
                    ch[(fi, t)] = ls[0]
    return ch


def search_program(ctx, program, r):
    """The property on the real code for one built program -> list of (sig, what, detail)."""
    block, built = r["block"], r["built"]
    bad = list(search_layout(program, built, block))
    fr, st = search_fresh(block)
    r["fresh"] = st
    if fr:
        bad += fr
    for kind, a, ch in r["sols"]:
        if kind == "random":
            continue
        if kind == "solver":
            ch = choice_of_model(block, a)
            if ch is None:
                continue
        try:
            d = raw_decode(block, a)
        except Exception as e:  # noqa
            d = type(e).__name__
        why = check_onehot(program, built, block, ch, d)
        if why is not None:
            names = [f.name for f in uniq_act(block)]
            dup = len(set(names)) < len(names)
            twice = len(uniq_act(block)) < len(block.act_design)
            bad.append(("decode:duplicate-name" if dup else "layout:factor-listed-twice" if twice else "decode:onehot", why,
                        {"assignment": [v for v in a if v > 0], "source": kind}))
            break
    return bad


# --------------------------------------------------------------------------- run / replay

def run(ctx, res):
    n = 150 if ctx.quick else 1500
    limit_all = 64 if ctx.quick else 256
    nrandom = 6 if ctx.quick else 10
    res.rule = ("%d experiment programs + the deterministic strided-window family (hand-written corpus, gen_design shapes cross/multi/repeat/merge/nest with "
                "within/transition/window factors, Nest with transition/window factors in the outer/inner crossing, "
                "same-name variants); per program: layout bundle, all one-hot assignments if <= %d else %d random ones, "
                "3 random assignments, up to 3 real solver models; non-trivial = accepted by the constructors with at "
                "least one trial variable; distinct by program text" % (n, limit_all, nrandom))
    progs = gen_programs(ctx, n)
    runs = []
    lines = []
    for tag, p in progs:
        try:
            with time_limit(30):
                r = run_program(ctx, p, limit_all, nrandom, 3)
        except RealCodeTimeout:
            r = {"status": "timeout", "errors": []}
        except Exception as e:  # noqa
            r = {"status": "harness-error", "errors": [type(e).__name__ + ": " + str(e)[:200]]}
        r["tag"] = tag
        runs.append((p, r))
        if r["status"] == "built":
            lines.append("(layout %s)" % r["wire"])
            lines.append("(wf %s)" % r["wire"])
            lines.append("(decodes %s (%s))" % (r["wire"], " ".join("(" + " ".join(str(v) for v in a) + ")"
                                                                     for _, a, _ in r["sols"])))
    outs = ctx.model(lines) if lines else []
    oi = 0
    stats = {"rejected": 0, "built": 0, "harness-error": 0, "nonterminating": 0, "timeout": 0, "complex": 0, "sustain>1": 0, "complex+sustain": 0, "two-complex": 0, "strided-first-partial-stride": 0,
             "same-name": 0, "wf_layout": 0, "keys_distinct": 0, "exhaustive-onehot": 0, "solver-models": 0, "decode-errors": 0, "assignments": 0}
    shapes = {}
    corr_bad = []
    hyp_bad = []
    found = []
    for p, r in runs:
        shapes[r["tag"]] = shapes.get(r["tag"], 0) + 1
        stats[r["status"]] += 1
        key = json.dumps(p, sort_keys=True)
        if r["status"] != "built":
            res.count(key, nontrivial=False)
            if r["status"] == "harness-error":
                corr_bad.append(("harness", p, r["errors"]))
            if r["status"] == "timeout":
                found.append(("search:real-code-timeout", "the real code does not return within 30 s on an accepted design", {}, p))
            continue
        block = r["block"]
        res.count(key, nontrivial=r["vps"] > 0)
        lay, wfl, dec = outs[oi], outs[oi + 1], outs[oi + 2]
        oi += 3
        # hypotheses of the theorems on the flat record of this accepted design
        names = [f.name for f in block.act_design]
        real_distinct = len(set(names)) == len(names)
        wf_ok = wfl.split(" ")[0] == "true"
        keys_ok = wfl.split(" ")[-1] == "true"
        stats["wf_layout"] += wf_ok
        stats["keys_distinct"] += keys_ok
        res.layer("hyp-keys-distinct", keys_ok == real_distinct)
        if keys_ok != real_distinct:
            corr_bad.append(("hyp-keys-distinct", p, {"model": wfl, "real_names_distinct": real_distinct}))
        if not wf_ok:
            hyp_bad.append((p, wfl))
        cplx = [f for f in block.act_design if f.has_complex_window]
        sus = [f for f in block.act_design if block.sustain_count(f) > 1]
        stats["complex"] += bool(cplx)
        stats["sustain>1"] += bool(sus)
        stats["complex+sustain"] += bool([f for f in cplx if f in sus])
        stats["two-complex"] += len(cplx) >= 2
        if len(cplx) >= 2:
            w0 = cplx[0].first_level.window
            stats["strided-first-partial-stride"] += (w0.stride > 1 and (r["T"] - w0.start) % w0.stride != 0)
        stats["same-name"] += "same_name" in p
        stats["exhaustive-onehot"] += bool(r["exhaustive"])
        if isinstance(r["solver"], int):
            stats["solver-models"] += r["solver"]
        ok = (lay == r["real_layout"])
        res.layer("L2-layout", ok)
        if not ok:
            corr_bad.append(("L2-layout", p, {"real": r["real_layout"][:600], "model": lay[:600]}))
        if dec.startswith("!"):
            res.layer("L6-decode", False)
            corr_bad.append(("L6-decode", p, {"model": dec[:300]}))
            md = []
        else:
            md = parse_sexp(dec)[0]
        for (kind, a, ch), m in zip(r["sols"], md):
            real = real_decode(block, a)
            mod = model_decoded(m)
            ok = (real == mod)
            stats["assignments"] += 1
            stats["decode-errors"] += (real[:1] == ["error"])
            res.layer("L6-decode-" + kind, ok)
            res.count(None, nontrivial=False)
            if not ok:
                corr_bad.append(("L6-decode-" + kind, p, {"assignment": a, "real": real, "model": mod}))
        try:
            with time_limit(30):
                bads = search_program(ctx, p, r)
        except RealCodeTimeout:
            bads = [("search:real-code-timeout", "the real code does not return within 30 s while the layout of an accepted design is inspected", {})]
        except Exception as e:  # noqa
            import traceback
            bads = [("search:real-code-raises", "the real code raises %s: %s while the layout of an accepted design is inspected (%s)"
                     % (type(e).__name__, str(e)[:150], traceback.format_exc().strip().split("\n")[-3].strip()[:150]), {})]
        for sig, what, detail in bads:
            found.append((sig, what, detail, p))
        if r["tag"] in ("nest-complex", "repeat") and r["vps"] > 0:
            res.sample({"tag": r["tag"], "trials": r["T"], "variables_per_sample": r["vps"],
                        "act_design": [str(f.name) for f in block.act_design],
                        "aux_variables": r.get("fresh"), "model_decode": dec[:200]})
    res.extra["input_distribution"] = {"shapes": shapes, "stats": stats}
    seen = set()
    for sig, what, detail, p in found:
        if sig in seen:
            continue
        seen.add(sig)
        res.violations.append(Violation(sig, what + "  program=" + json.dumps(p, sort_keys=True)[:900],
                                        {"program": p, "detail": detail, "sig": sig}))
    if hyp_bad and not found:
        p, wfl = hyp_bad[0]
        res.violations.append(Violation(
            "hyp:wf_layout", "the flat record of %d accepted designs does not satisfy wf_layout (hypothesis of the C14 theorems): "
            "a factor of act_design without complex window that does not apply to every trial, or a factor listed twice"
            % len(hyp_bad), {"program": p, "model": wfl, "theorems": ["C14_*"]}, failing_input=False))
    if corr_bad and not found:
        layer, p, d = corr_bad[0]
        res.violations.append(Violation(
            "corr:" + layer, "model (Design/Layout.v, Sample/Decode.v) and real code disagree on %d observations, first at layer %s"
            % (len(corr_bad), layer), {"layer": layer, "program": p, "detail": d, "theorems": ["C14_*"]}, failing_input=False))
    elif corr_bad:
        res.notes.append("model/code disagreements: %d (first layer %s)" % (len(corr_bad), corr_bad[0][0]))
    res.notes.append("L2: literal layout bundle; L6: Gen.decode dict (ordered) incl. error class; search: injectivity, image, "
                     "decode_variable inverse, fresh counter, constraint variable lists, one-hot decode vs program-level oracle")


def replay(ctx, data):
    p = data["program"]
    r = run_program(ctx, p, 256, 10, 3)
    if r["status"] != "built":
        return False
    sigs = [s for s, _, _ in search_program(ctx, p, r)]
    return data.get("sig") in sigs if data.get("sig") else bool(sigs)
