"""C15 - Derived factors must be total, unambiguous functions of their window.

Theorems: coq/theories/Properties/C15.v (about Design/Derive.v).
Model: Design/Derive.v = DerivationProcessor.generate_derivations + shift_window,
get_dependent_cross_product (BeforeStart), ElseLevel complement, _trial_arguments,
select_level_for_sample, test_trial, add_implied_levels.

Correspondence, per generated program with one derived factor under test (random and,
in the thorough tier, exhaustively enumerated predicate tables; within / transition /
window with width, stride, start; ElseLevel; dependencies on simple factors and on
complex derived factors; crossed / constrained / implied placement; rcc both ways):
  window   width/stride/start of the real Window (default start, start_delta) vs. the description
  domain   get_dependent_cross_product() literally (order, BeforeStart) vs. Derive.domain
  accepts  per level the accepted tuples of the cross product (ElseLevel complement) vs. Derive.accepts
  outcome  ValueError "matches ... and ..." (which two levels, which assignment) /
           the exact error and warning strings added to block.errors / whether show_errors fails
           vs. Derive.check_factor (program-level description) and Derive.generate_derivations
           (flat record read from the real block)
  derivs   the Derivation constraints of the real block (derived_idx, dependent_idxs after
           shift_window, BeforeStart ready_at) vs. Derive.generate_derivations on the flat record
  select / testtrial / implied
           real select_level_for_sample, test_trial, add_implied_levels on random columns
           (incl. out-of-range trials, "" cells, sustain 2) vs. the model
Search (the property itself on the real code; oracle = the program's tables, evaluated by
this file, never by the library): tables with two levels accepting one window of the
documented argument domain must be rejected at construction; tables leaving a window
unmatched must make synthesize_trials return [] ; otherwise every sequence returned by
IterateSATGen and RandomGen must carry, for every derived factor, at every applicable trial
exactly the level whose table accepts the actual window (None where the window reaches
before the first trial or a depended-on derived factor has no value) and '' exactly at
the other trials, in a column as long as the others.  Predicate calls outside the
documented argument domain (ir.Built.outside_domain) are reported as well.
"""
import copy
import itertools
import json
import re

import docsem
import flat
import gen_design
import ir
from common import Violation, parse_sexp

TITLE = "derived factors are total unambiguous functions of their window"
LEVEL = "proof"
DOMAINS = ['Derive', 'Design']


# --------------------------------------------------------------------------- program side

def fmap(program):
    return {f["id"]: f for f in program["factors"]}


def doc_domain(program, fd):
    """Documented argument domain: per dependency and window position the level names,
    plus None where the position can lie before the first trial / before the dependency is defined
    at the first application of the window."""
    fm = fmap(program)
    deps, width, stride, start = docsem.window_params(program, fd)
    doms = []
    for d in deps:
        dd = fm[d]
        ready = docsem.window_params(program, dd)[3] if docsem.is_complex(program, dd) else 0
        names = docsem.level_names(dd)
        for j in range(width):
            doms.append(list(names) + ([None] if start - (width - 1) + j < ready else []))
    return doms, (deps, width, stride, start)


def cols_of_flat(flat_t, width, ndeps):
    return tuple(tuple(flat_t[k * width:(k + 1) * width]) for k in range(ndeps))


def level_accepts(fd, li, cols):
    """Program-level meaning of the predicate of level li on a window (tuple per dep of names/None)."""
    lev = fd["levels"][li]
    if lev.get("else"):
        for other in fd["levels"]:
            if not other.get("else"):
                if cols in set(tuple(tuple(x) for x in e) for e in other.get("table", [])):
                    return False
        return True
    return cols in set(tuple(tuple(x) for x in e) for e in lev.get("table", []))


def classify(program, fd):
    """'ambiguous' / 'nontotal' / 'ok' over the documented argument domain (ambiguity wins, as the
    constructor raises before anything is reported)."""
    doms, (deps, width, stride, start) = doc_domain(program, fd)
    amb = non = False
    for flat_t in itertools.product(*doms):
        cols = cols_of_flat(flat_t, width, len(deps))
        n = sum(1 for li in range(len(fd["levels"])) if level_accepts(fd, li, cols))
        amb |= n > 1
        non |= n == 0
    return "ambiguous" if amb else ("nontotal" if non else "ok")


def dfac_of(program, fd):
    """Description of a derived factor for Design/Derive.v (wire structure)."""
    fm = fmap(program)
    deps, width, stride, start = docsem.window_params(program, fd)
    dd = []
    for d in deps:
        x = fm[d]
        dd.append([len(x["levels"]), docsem.window_params(program, x)[3] if docsem.is_complex(program, x) else 0])
    levels = []
    for lev in fd["levels"]:
        if lev.get("else"):
            levels.append(docsem._A("else"))
            continue
        rows = []
        for e in lev.get("table", []):
            row = []
            ok = True
            for d, col in zip(deps, e):
                names = docsem.level_names(fm[d])
                for n in col:
                    if n is None:
                        row.append(-1)
                    elif n in names:
                        row.append(names.index(n))
                    else:
                        ok = False
            if ok:
                rows.append(row)
        levels.append(rows)
    return [dd, width, stride, start, levels]


def args_repr(program, fd, tup):
    """The argument list generate_derivations prints for a model tuple (cells as ints)."""
    fm = fmap(program)
    deps, width, stride, start = docsem.window_params(program, fd)
    names = []
    for k, d in enumerate(deps):
        ln = docsem.level_names(fm[d])
        for j in range(width):
            c = tup[k * width + j]
            names.append(None if c < 0 else ln[c])
    if width != 1:
        out = []
        for k in range(len(deps)):
            out.append({j - width + 1: names[k * width + j] for j in range(width)})
        return out
    return names


def uncovered_string(program, fd, tup, crossed):
    mc = "crossed " if crossed else ""
    return "No level in %sfactor '%s' has a precicate that matches '%s'." % (mc, fd["name"], args_repr(program, fd, tup))


def nomatch_string(fd, li, crossed, rcc):
    mw = "WARNING: " if (not crossed) or not rcc else ""
    mc = "crossed " if crossed else ""
    ns = "not satisfiable" if rcc else "incomplete"
    concl = (", which means that the crossing is %s" % ns) if crossed else ""
    return "%sNo matches to the %sfactor '%s' predicate for level\n '%s'%s." % (mw, mc, fd["name"], fd["levels"][li]["name"], concl)


def model_error_strings(program, fd, errs, crossed):
    out = set()
    for e in errs:
        if e[0] == "nomatch":
            out.add(nomatch_string(fd, e[1], e[2] == "true", e[3] == "true"))
        else:
            out.add(uncovered_string(program, fd, e[1], crossed))
    return out


# --------------------------------------------------------------------------- generator

def simple(fid, n):
    return {"id": fid, "name": "f%d" % fid, "kind": "simple", "levels": [[gen_design.NAMES[i] + str(fid), 1] for i in range(n)]}


def mk_derived(fid, name, deps, wtype, width, stride, start, level_tables, else_last):
    """level_tables: per level a list of windows (tuple per dep of names/None)."""
    levels = []
    for i, tab in enumerate(level_tables):
        if else_last and i == len(level_tables) - 1:
            levels.append({"name": "L%d_%d" % (fid, i), "else": True, "weight": 1})
        else:
            levels.append({"name": "L%d_%d" % (fid, i), "table": [[list(c) for c in w] for w in tab], "weight": 1})
    win = {"type": wtype, "deps": list(deps)}
    if wtype == "window":
        win.update({"width": width, "stride": stride, "start": start})
    return {"id": fid, "name": name, "kind": "derived", "window": win, "levels": levels}


def random_tables(rng, program, proto, nlev, else_last, defect):
    """Random predicate tables over the documented domain of `proto` (a derived factor description
    without tables).  defect: None (partition) | overlap | uncovered | emptylevel | offdomain | chaos."""
    doms, (deps, width, stride, start) = doc_domain(program, proto)
    allw = [cols_of_flat(t, width, len(deps)) for t in itertools.product(*doms)]
    tabs = [[] for _ in range(nlev)]
    for w in allw:
        if defect == "chaos":
            for i in range(nlev):
                if rng.random() < 0.45:
                    tabs[i].append(w)
        else:
            tabs[rng.randrange(nlev)].append(w)
    if defect not in ("chaos", "emptylevel"):
        for i in range(nlev):
            if not tabs[i]:
                donors = [j for j in range(nlev) if len(tabs[j]) > 1]
                if donors:
                    tabs[i].append(tabs[rng.choice(donors)].pop())
    if defect == "overlap" and allw:
        w = rng.choice(allw)
        cands = [i for i in range(nlev) if w not in tabs[i]]
        if cands:
            tabs[rng.choice(cands)].append(w)
    if defect == "uncovered" and allw:
        w = rng.choice(allw)
        for i in range(nlev):
            if w in tabs[i]:
                tabs[i].remove(w)
    if defect == "emptylevel":
        i = rng.randrange(nlev)
        j = (i + 1) % nlev
        tabs[j] += tabs[i]
        tabs[i] = []
    if defect == "offdomain":
        # windows with None where the documented domain has none, possibly claimed by two levels
        fm = fmap(program)
        full = []
        for d in deps:
            for j in range(width):
                full.append(docsem.level_names(fm[d]) + [None])
        off = [cols_of_flat(t, width, len(deps)) for t in itertools.product(*full)]
        off = [w for w in off if w not in allw]
        rng.shuffle(off)
        for w in off[:3]:
            for i in range(nlev):
                if rng.random() < 0.5:
                    tabs[i].append(w)
    return tabs


def gen_case(rng, placement=None, defect="random"):
    """One program with a derived factor under test.  Returns (program, fid under test, tag dict)."""
    nb = rng.choice([1, 1, 2])
    factors = [simple(i, rng.choice([2, 2, 3])) for i in range(nb)]
    fid = nb
    cdep = None
    if rng.random() < 0.35:
        # a complex derived factor to depend on
        kind = rng.choice(["transition", "window", "window"])
        if kind == "transition":
            proto = mk_derived(fid, "c%d" % fid, [0], "transition", 2, 1, 1, [[], []], False)
        else:
            w = rng.choice([1, 2])
            st = rng.choice([None, 1, 2]) if w == 1 else rng.choice([None, 1, 2])
            if w == 1 and st is None:
                st = 1
            proto = mk_derived(fid, "c%d" % fid, [0], "window", w, 1, st, [[], []], False)
        tmp = {"factors": factors + [proto]}
        use_else = rng.random() < 0.5
        tabs = random_tables(rng, tmp, proto, 2, use_else, None)
        cdep = mk_derived(fid, proto["name"], [0], proto["window"]["type"], proto["window"].get("width", 2),
                          1, proto["window"].get("start"), tabs, use_else)
        factors.append(cdep)
        fid += 1
    wtype = rng.choice(["within", "within", "transition", "window", "window", "window"])
    pool = [f["id"] for f in factors]
    if cdep is not None and rng.random() < 0.8:
        deps = [cdep["id"]] + ([0] if rng.random() < 0.3 else [])
        if rng.random() < 0.3:
            deps.reverse()
    else:
        k = 1 if len(pool) == 1 else rng.choice([1, 2])
        deps = rng.sample([p for p in pool if cdep is None or p != cdep["id"]], min(k, nb))
    if wtype == "within":
        width, stride, start = 1, 1, None
    elif wtype == "transition":
        width, stride, start = 2, 1, 1
    else:
        width = rng.choice([1, 2, 2, 3]) if len(deps) == 1 else rng.choice([1, 2])
        stride = rng.choice([1, 1, 2])
        start = rng.choice([None, None, 0, 1, 2, 3])
        if width == 1 and stride == 1 and start is None:
            start = 0 if cdep is not None and cdep["id"] in deps else 1
    nlev = rng.choice([2, 2, 3])
    use_else = rng.random() < 0.4
    if defect == "random":
        defect = rng.choice([None, None, None, "overlap", "uncovered", "emptylevel", "offdomain", "chaos"])
    proto = mk_derived(fid, "d%d" % fid, deps, wtype, width, stride, start, [[] for _ in range(nlev)], False)
    tmp = {"factors": factors + [proto]}
    doms, _ = doc_domain(tmp, proto)
    size = 1
    for x in doms:
        size *= len(x)
    if size > 200:
        return None
    tabs = random_tables(rng, tmp, proto, nlev, use_else, defect)
    dut = mk_derived(fid, proto["name"], deps, wtype, width, stride, start, tabs, use_else)
    factors.append(dut)
    return assemble(rng, factors, dut, placement, {"defect": defect, "wtype": wtype, "cdep": cdep is not None})


def assemble(rng, factors, dut, placement=None, tag=None):
    tag = dict(tag or {})
    bases = [f["id"] for f in factors if f["kind"] == "simple"]
    stride = dut["window"].get("stride", 1)
    placement = placement or rng.choice(["crossed", "crossed", "constrained", "implied", "implied"])
    if placement == "crossed" and stride > 1:
        placement = "constrained"
    constraints = []
    cs = []
    crossing = list(bases)
    if placement == "crossed":
        crossing = [dut["id"]] + ([bases[0]] if rng.random() < 0.5 else [])
        if rng.random() < 0.3:
            crossing.reverse()
    elif placement == "constrained":
        lev = rng.choice(dut["levels"])["name"]
        constraints.append({"id": 0, "kind": "AtMostKInARow", "k": rng.choice([3, 4, 6]), "level": [dut["id"], lev]})
        cs.append(0)
    if rng.random() < 0.6:
        constraints.append({"id": len(constraints), "kind": "MinimumTrials", "trials": rng.choice([3, 4, 5, 6])})
        cs.append(constraints[-1]["id"])
    design = [f["id"] for f in factors]
    if rng.random() < 0.1:
        rng.shuffle(design)
    rcc = rng.random() < 0.7
    tag.update({"placement": placement, "rcc": rcc})
    program = {"factors": factors, "constraints": constraints,
               "blocks": [{"id": 0, "kind": "CrossBlock", "design": design, "crossing": crossing, "constraints": cs, "rcc": rcc}],
               "main": 0}
    return program, dut["id"], tag


def exhaustive_cases(quick):
    """Every table over small domains: each window of the domain is accepted by an arbitrary subset
    of the levels (so all total/ambiguous/partial tables occur), with and without ElseLevel.
    <= 2 dependencies x <= 3 levels x width <= 2; families whose table count exceeds the cap are
    enumerated up to the cap in a fixed order (the random stream covers the rest)."""
    fams = []
    # (n base factors used as deps, levels of each, wtype, width, start, nlev, else)
    for (nd, nl, wtype, width, start) in [(1, 2, "within", 1, None), (1, 3, "within", 1, None), (2, 2, "within", 1, None),
                                          (1, 2, "transition", 2, 1), (1, 2, "window", 2, 0), (1, 2, "window", 1, 1),
                                          (1, 2, "window", 2, 2), (2, 2, "window", 2, 1), (1, 3, "window", 2, None)]:
        for nlev in (2, 3):
            for use_else in (False, True):
                fams.append((nd, nl, wtype, width, start, nlev, use_else))
    cap = 40 if quick else 300
    out = []
    for (nd, nl, wtype, width, start, nlev, use_else) in fams:
        factors = [simple(i, nl) for i in range(nd)]
        proto = mk_derived(nd, "d%d" % nd, list(range(nd)), wtype, width, 1, start, [[] for _ in range(nlev)], False)
        tmp = {"factors": factors + [proto]}
        doms, (deps, w, st, s) = doc_domain(tmp, proto)
        allw = [cols_of_flat(t, w, len(deps)) for t in itertools.product(*doms)]
        free = nlev - 1 if use_else else nlev
        nsub = 2 ** free
        total = nsub ** len(allw)
        count = 0
        # mixed-radix counter over subsets per window; stride through the space when it is larger than the cap
        step = max(1, total // cap)
        code = 0
        while code < total and count < cap:
            c = code
            tabs = [[] for _ in range(nlev)]
            for wdw in allw:
                sub = c % nsub
                c //= nsub
                for i in range(free):
                    if sub >> i & 1:
                        tabs[i].append(wdw)
            dut = mk_derived(nd, proto["name"], deps, wtype, width, 1, start, tabs, use_else)
            out.append((factors + [dut], dut, {"family": "%dx%d-%s-w%d-s%s-l%d%s" % (nd, nl, wtype, width, start, nlev, "e" if use_else else "")}))
            count += 1
            code += step if step > 1 else 1
    return out


# --------------------------------------------------------------------------- real side

OVERLAP_RE = re.compile(r"^Factor (.*) matches (.*) and (.*) with assignment (.*)", re.S)


def real_index_tuple(F, tup):
    from sweetpea._internal.beforestart import BeforeStart
    w = F.first_level.window
    out = []
    for p, l in enumerate(tup):
        dep = w.factors[p // w.width]
        out.append(-1 if isinstance(l, BeforeStart) else list(dep.levels).index(l))
    return out


def real_domain_and_accepts(F):
    """get_dependent_cross_product() and, per level, the accepted tuples (as generate_derivations evaluates them)."""
    from sweetpea._internal.beforestart import BeforeStart
    from sweetpea._internal.iter import chunk_dict
    cp = F.levels[0].get_dependent_cross_product()
    dom = [real_index_tuple(F, t) for t in cp]
    acc = []
    for level in F.levels:
        rows = []
        for t in cp:
            args = [(l.name if not isinstance(l, BeforeStart) else None) for l in t]
            if level.window.width != 1:
                args = list(chunk_dict(args, level.window.width))
            if level.window.predicate(*args):
                rows.append(real_index_tuple(F, t))
        acc.append(rows)
    return dom, acc


def deriv_error_strings(block):
    return set(e for e in block.errors if "No matches to the" in e or e.startswith("No level in"))


def canon(x):
    return json.dumps(x).replace("[", "(").replace("]", ")").replace(",", "").replace('"', "")


def cells_of_names(names, col):
    out = []
    for v in col:
        if v is None:
            out.append(-1)
        elif v == "":
            out.append(-2)
        else:
            out.append(names.index(v))
    return out


def observe_windows(ctx, program, built, block, fid, n):
    """Random-column observations of select_level_for_sample / test_trial / add_implied_levels.
    Returns list of (layer, model command line, real canonical string)."""
    rng = ctx.rng
    fm = fmap(program)
    fd = fm[fid]
    F = built.factors[fid]
    w = F.first_level.window
    dw = docsem.to_wire(dfac_of(program, fd))
    obs = []
    T = rng.choice([3, 4, 5, 6])
    for _ in range(n):
        su = rng.choice([1, 1, 1, 2])
        sample = {}
        cols = []
        for dep in w.factors:
            col = [rng.randrange(len(dep.levels)) for _ in range(T)]
            sample[dep] = [dep.levels[c] for c in col]
            cols.append(col)
        i = rng.choice(list(range(T)) + [T, T + 1])
        try:
            l = F.select_level_for_sample(i, sample, su)
            real = "level %d" % list(F.levels).index(l)
        except RuntimeError:
            real = "nomatch"
        except IndexError:
            real = "indexerror"
        except Exception as e:  # noqa
            real = "error " + type(e).__name__
        obs.append(("select", "(select %s %s %d %d)" % (dw, canon(cols), i, su), real))
        li = rng.randrange(len(F.levels))
        seq = dict(sample)
        own = [F.levels[rng.randrange(len(F.levels))] for _ in range(T)]
        i2 = rng.randrange(T)
        own[i2] = F.levels[li]
        seq[F] = own
        try:
            r = F.test_trial(i2, seq, su)
            real = "true" if r else "false"
        except Exception as e:  # noqa
            real = "error " + type(e).__name__
        obs.append(("testtrial", "(testtrial %s %s %d %d %d)" % (dw, canon(cols), li, i2, su), real))
    if block is not None and F in block.design and F not in block.act_design:
        for _ in range(max(2, n // 2)):
            results = {}
            given = {}
            for g in block.design:
                gd = [x for x in program["factors"] if built.factors.get(x["id"]) is g]
                names = [str(l.name) for l in g.levels]
                col = [rng.choice(names + ([""] if (gd and gd[0]["kind"] == "derived" and rng.random() < 0.5) else []))
                       for _ in range(T)]
                results[g.name] = list(col)
                given[g.name] = list(col)
            try:
                with ir.quiet():
                    out = block.add_implied_levels(results)
                names = [str(l.name) for l in F.levels]
                real = canon([(-1 if v == "" else names.index(v)) for v in out[F.name]])
            except IndexError:
                real = "none"
            except Exception as e:  # noqa
                real = "error " + type(e).__name__
            # the columns F saw
            cols = []
            okc = True
            for dep in w.factors:
                # implied factors are filled in by derivation depth, so an implied dependency is recomputed first
                earlier = dep not in block.act_design and dep in block.design
                col = results[dep.name] if earlier else given[dep.name]
                names = [str(l.name) for l in dep.levels]
                try:
                    cols.append(cells_of_names(names, col))
                except ValueError:
                    okc = False
            if okc:
                obs.append(("implied", "(implied %s %s %d 1)" % (dw, canon(cols), T), real))
    return obs


def expected_columns(program, sample):
    """Oracle of the search: for every derived factor of the main design, per trial the list of level
    names whose table accepts the actual window ('' where the factor does not apply)."""
    fm = fmap(program)
    out = {}
    for fidx in ir.design_fids(program, program["main"]):
        fd = fm[fidx]
        if fd["kind"] != "derived":
            continue
        deps, width, stride, start = docsem.window_params(program, fd)
        T = max(len(sample[fm[d]["name"]]) for d in deps)
        col = []
        for i in range(T):
            if i >= start and (i - start) % stride == 0:
                win = []
                bad = False
                for d in deps:
                    c = []
                    for j in range(width):
                        idx = i - (width - 1 - j)
                        colv = sample[fm[d]["name"]]
                        if idx < 0:
                            c.append(None)
                        elif idx >= len(colv):
                            bad = True
                            c.append(None)
                        else:
                            c.append(None if colv[idx] == "" else colv[idx])
                    win.append(tuple(c))
                col.append(None if bad else [fd["levels"][li]["name"] for li in range(len(fd["levels"]))
                                            if level_accepts(fd, li, tuple(win))])
            else:
                col.append("")
        out[fd["name"]] = col
    return out


def judge_sample(program, sample):
    """None if every derived column is right, else (sig suffix, description)."""
    fm = fmap(program)
    names = [fm[f]["name"] for f in ir.design_fids(program, program["main"]) if fm[f]["kind"] != "continuous"]
    lens = {n: len(sample[n]) for n in names if n in sample}
    missing = [n for n in names if n not in sample]
    if missing:
        return ("missing-column", "returned dict lacks factor(s) %r" % missing)
    simple_len = [lens[fm[f]["name"]] for f in ir.design_fids(program, program["main"]) if fm[f]["kind"] == "simple"]
    T = simple_len[0] if simple_len else max(lens.values())
    for n, l in lens.items():
        if l != T:
            return ("misaligned-column", "column of factor %r has %d entries for %d trials: %r" % (n, l, T, sample[n]))
    exp = expected_columns(program, sample)
    for n, col in exp.items():
        for i, e in enumerate(col):
            got = sample[n][i]
            if e == "":
                if got != "":
                    return ("level-outside-window", "factor %r has level %r at trial %d where it does not apply (start/stride)" % (n, got, i))
            elif e is None:
                continue
            elif len(e) != 1:
                # the actual window is matched by %d levels: outside what a total unambiguous table promises
                return ("window-not-unique", "factor %r trial %d: the actual window is accepted by levels %r (sequence has %r)" % (n, i, e, got))
            elif got != e[0]:
                return ("wrong-level", "factor %r trial %d: window is accepted by level %r only, sequence has %r" % (n, i, e[0], got))
    return None


class SynthTimeout(Exception):
    pass


def synth_limited(block, n, strategy, seconds):
    """ir.synthesize under a wall-clock limit (RandomGen's rejection loop need not terminate on
    unsatisfiable designs); the limit shows up as ("error", "SynthTimeout", ...)."""
    import signal

    def handler(signum, frame):
        raise SynthTimeout("time limit %ds" % seconds)
    try:
        old = signal.signal(signal.SIGALRM, handler)
    except ValueError:      # not in the main thread
        return ir.synthesize(block, n, strategy)
    signal.alarm(seconds)
    try:
        return ir.synthesize(block, n, strategy)
    finally:
        signal.alarm(0)
        signal.signal(signal.SIGALRM, old)


def run_case(ctx, program, fid, nseq, nobs, strategies=("IterateSATGen", "RandomGen")):
    """Everything for one program.  Returns a dict (no model calls here; model lines are collected)."""
    fm = fmap(program)
    fd = fm[fid]
    r = {"lines": [], "cmp": [], "found": [], "class": None}
    try:
        r["class"] = classify(program, fd)
        dfw = docsem.to_wire(dfac_of(program, fd))
    except Exception as e:  # noqa
        r["status"] = "harness-error"
        r["error"] = type(e).__name__ + ": " + str(e)[:200]
        return r
    built = ir.build(program)
    block = ir.main_block(built, program)
    blk = program["blocks"][0]
    crossed = fid in blk["crossing"]
    rcc = blk.get("rcc", True)
    r["check_line"] = "(check %s %s %s)" % (dfw, "true" if crossed else "false", "true" if rcc else "false")
    r["crossed"] = crossed
    F = built.factors.get(fid)
    if F is None:
        r["status"] = "factor-rejected"
        r["error"] = built.errors.get(("factor", fid))
        return r
    # real window parameters, domain, accepted tuples
    w = F.first_level.window
    r["real_window"] = [w.width, w.stride, w.start]
    try:
        dom, acc = real_domain_and_accepts(F)
        r["real_domain"] = canon(dom)
        r["real_accepts"] = canon(acc)
    except Exception as e:  # noqa
        r["real_domain"] = "error " + type(e).__name__
        r["real_accepts"] = ""
    if block is None:
        err = built.errors.get(("block", program["main"]))
        r["status"] = "rejected"
        r["build_error"] = err
        m = OVERLAP_RE.match(err[2]) if err and err[1] == "ValueError" else None
        r["overlap_msg"] = err[2] if m else None
        r["obs"] = observe_windows(ctx, program, built, None, fid, nobs)
        return r
    r["status"] = "built"
    r["obs"] = observe_windows(ctx, program, built, block, fid, nobs)
    r["real_errors"] = sorted(e for e in deriv_error_strings(block) if "factor '%s'" % fd["name"] in e)
    r["all_real_errors"] = sorted(deriv_error_strings(block))
    r["real_fails"] = any("WARNING" not in e for e in block.errors)
    r["other_fail"] = any("WARNING" not in e for e in block.errors if e not in deriv_error_strings(block))
    try:
        fr = flat.flat_of_block(block)
        r["flat_wire"] = docsem.to_wire(fr)
        r["flat_derivs"] = [docsem.to_wire(c) for c in fr[14] if isinstance(c[0], docsem._A) and c[0].s == "Derivation"]
        r["flat_names"] = [f[0] for f in fr[0]]
        r["flat_levels"] = [[l[0] for l in f[2]] for f in fr[0]]
    except Exception as e:  # noqa
        r["flat_wire"] = None
        r["flat_error"] = type(e).__name__ + ": " + str(e)[:100]
    r["implied"] = F in block.design and F not in block.act_design
    # synthesis
    r["synth"] = {}
    for s in strategies:
        b2 = ir.build(program)
        blk2 = ir.main_block(b2, program)
        out = synth_limited(blk2, nseq, s, 4)
        if out[0] == "ok":
            r["synth"][s] = ("ok", out[1])
        else:
            r["synth"][s] = out
        od = list(b2.outside_domain)
        if od and "outside" not in r:
            r["outside"] = (s, od[:3])
    return r


def search_case(program, fid, r):
    """The property on the real code for one case -> list of (sig, what, detail)."""
    found = []
    fm = fmap(program)
    classes = {}
    for f in ir.design_fids(program, program["main"]):
        if fm[f]["kind"] == "derived":
            classes[f] = classify(program, fm[f])
    worst = "ambiguous" if "ambiguous" in classes.values() else ("nontotal" if "nontotal" in classes.values() else "ok")
    if r["status"] == "built" and worst == "ambiguous":
        found.append(("derive:ambiguous-accepted", "two levels of a derived factor accept the same window of the documented "
                      "argument domain but the block was built without error", {"classes": {str(k): v for k, v in classes.items()}}))
    if r["status"] != "built":
        return found
    for s, out in r["synth"].items():
        if out[0] != "ok":
            continue
        seqs = out[1]
        if worst == "nontotal" and seqs:
            found.append(("derive:nontotal-accepted:" + s, "a window of the documented argument domain matches no level but %s "
                          "returned %d sequence(s)" % (s, len(seqs)), {"strategy": s, "sample": seqs[0]}))
            continue
        if worst != "ok":
            continue
        for smp in seqs:
            try:
                j = judge_sample(program, smp)
            except Exception as e:  # noqa
                j = ("judge-error", type(e).__name__ + ": " + str(e)[:100])
            if j is not None:
                kind = "implied" if r.get("implied") else "act"
                found.append(("derive:%s:%s" % (j[0], kind), "%s returned a sequence whose derived column is wrong: %s" % (s, j[1]),
                              {"strategy": s, "sample": smp}))
                break
    if r.get("outside") and worst == "ok":
        s, od = r["outside"]
        found.append(("derive:predicate-outside-domain", "while %s ran, the predicate of level %r of factor %r was called with %s, "
                      "outside the documented argument domain (level names or None)" % (s, od[0][1], od[0][0], od[0][2]),
                      {"strategy": s, "calls": [list(x) for x in od]}))
    return found


def parse_check(out):
    """Model output of (check ...) -> dict."""
    p = parse_sexp(out)
    if p[0] == "overlap":
        return {"kind": "overlap", "l1": p[1], "l2": p[2], "t": p[3], "fails": p[4], "domain": p[5], "accepts": p[6]}
    if p[0] == "ok":
        return {"kind": "ok", "errs": p[1], "ders": p[2], "fails": p[3], "domain": p[4], "accepts": p[5]}
    return {"kind": p[0]}


def psexp(x):
    if isinstance(x, list):
        return "(" + " ".join(psexp(y) for y in x) + ")"
    return str(x)


def compare_case(program, fid, r, check_out, flat_out, res, corr_bad):
    fm = fmap(program)
    fd = fm[fid]
    mc = parse_check(check_out)
    deps, width, stride, start = docsem.window_params(program, fd)

    def layer(name, ok, detail):
        res.layer(name, ok)
        if not ok:
            corr_bad.append((name, program, detail))
    if "real_window" in r:
        layer("window", r["real_window"] == [width, stride, start], {"real": r["real_window"], "description": [width, stride, start]})
    if "real_domain" in r and "domain" in mc:
        layer("domain", r["real_domain"] == psexp(mc["domain"]), {"real": r["real_domain"][:300], "model": psexp(mc["domain"])[:300]})
        layer("accepts", r["real_accepts"] == psexp(mc["accepts"]), {"real": r["real_accepts"][:300], "model": psexp(mc["accepts"])[:300]})
    if r["status"] == "rejected":
        if r.get("overlap_msg"):
            if mc["kind"] == "overlap":
                exp = "Factor %s matches %s and %s with assignment %s." % (
                    fd["name"], fd["levels"][mc["l1"]]["name"], fd["levels"][mc["l2"]]["name"], args_repr(program, fd, mc["t"]))
                layer("outcome-overlap", exp[:200] == r["overlap_msg"][:200], {"real": r["overlap_msg"], "model": exp})
            else:
                layer("outcome-overlap", False, {"real": r["overlap_msg"], "model": check_out[:200]})
        else:
            # rejected for another reason: not comparable (counted)
            res.extra.setdefault("other_rejections", {})
            k = str(r["build_error"][1:3])[:120] if r.get("build_error") else "?"
            res.extra["other_rejections"][k] = res.extra["other_rejections"].get(k, 0) + 1
            if mc["kind"] == "overlap":
                layer("outcome-overlap", False, {"real": r.get("build_error"), "model": check_out[:200]})
    elif r["status"] == "built":
        if mc["kind"] == "overlap":
            layer("outcome-overlap", False, {"real": "built", "model": check_out[:200]})
        else:
            exp = sorted(model_error_strings(program, fd, mc["errs"], r["crossed"]))
            layer("outcome-errors", exp == r["real_errors"], {"real": r["real_errors"][:4], "model": exp[:4]})
            others = [e for e in r["all_real_errors"] if e not in r["real_errors"]]
            if not r["other_fail"] and not any("WARNING" not in e for e in others):
                layer("outcome-fails", (mc["fails"] == "true") == r["real_fails"], {"real": r["real_fails"], "model": mc["fails"]})
            # synthesis outcome class
            for s, out in r["synth"].items():
                if out[0] == "ok" and not r["other_fail"]:
                    if r["real_fails"]:
                        layer("synth-empty-" + s, out[1] == [], {"real": len(out[1]), "expected": "[] (show_errors fails)"})
        if flat_out is not None:
            if flat_out.startswith("ok "):
                p = parse_sexp(flat_out)
                ders = [psexp(x) for x in p[2]]
                layer("derivs", ders == r["flat_derivs"], {"real": r["flat_derivs"][:4], "model": ders[:4]})
                # all derivation errors of the block from the flat record
                exp = set()
                for f_i, e in p[1]:
                    fdd = [x for x in program["factors"] if x["name"] == r["flat_names"][f_i] and x["kind"] == "derived"]
                    if not fdd:
                        exp.add("?hidden factor error")
                        continue
                    cr = any(fdd[0]["id"] == c for c in program["blocks"][0]["crossing"])
                    exp |= model_error_strings(program, fdd[0], [e], cr)
                layer("flat-errors", sorted(exp) == r["all_real_errors"], {"real": r["all_real_errors"][:4], "model": sorted(exp)[:4]})
            else:
                layer("derivs", False, {"model": flat_out[:200], "real": r["flat_derivs"][:3]})


# --------------------------------------------------------------------------- run / replay

def run(ctx, res):
    quick = ctx.quick
    nrand = 220 if quick else 2200
    nseq = 4 if quick else 6
    nobs = 4 if quick else 8
    res.rule = ("%d random programs with one derived factor under test (tables: partition / overlap / uncovered / empty level / "
                "off-domain entries / arbitrary; within, transition, window width 1-3 stride 1-2 start None,0-3; ElseLevel; "
                "dependencies on simple and on complex derived factors; crossed / constrained / implied; rcc both ways) plus "
                "the enumerated tables of 9 small window families x {2,3} levels x {ElseLevel or not} (%s per family); "
                "per program: window, domain, accepted tuples, outcome class with exact messages, Derivation indices from the "
                "flat record, %d random-column observations of select_level_for_sample/test_trial (+ add_implied_levels when "
                "implied), %d sequences of IterateSATGen and RandomGen judged against the program's tables; non-trivial = "
                "constructors accepted the factor; distinct by program text"
                % (nrand, "first 40" if quick else "up to 300, strided through the family", nobs, nseq))
    cases = []
    for tag, p in gen_design.corpus():
        for f in p["factors"]:
            if f["kind"] == "derived" and p["blocks"][-1]["kind"] == "CrossBlock":
                cases.append((p, f["id"], {"corpus": tag}))
    nfam = 0
    for factors, dut, tag in exhaustive_cases(quick):
        nfam += 1
        for placement in (("crossed", "implied") if (quick or nfam % 3) else ("crossed", "implied", "constrained")):
            p, fid, t2 = assemble(ctx.rng, copy.deepcopy(factors), copy.deepcopy(dut), placement, tag)
            cases.append((p, fid, t2))
    k = 0
    while k < nrand:
        c = gen_case(ctx.rng)
        if c is None:
            continue
        cases.append(c)
        k += 1
    hand = hand_cases()
    cases = hand + cases
    runs = []
    lines = []
    for idx, (p, fid, tag) in enumerate(cases):
        heavy = (idx < len(hand)) or ("family" not in tag) or (idx % (3 if quick else 2) == 0)
        try:
            r = run_case(ctx, p, fid, nseq, nobs if "family" not in tag else 1,
                         strategies=("IterateSATGen", "RandomGen") if heavy else ("IterateSATGen",))
        except Exception as e:  # noqa
            r = {"status": "harness-error", "error": type(e).__name__ + ": " + str(e)[:200]}
        r["tag"] = tag
        r["line0"] = len(lines)
        if "check_line" in r:
            lines.append(r["check_line"])
            if r.get("flat_wire"):
                lines.append("(derive_flat %s)" % r["flat_wire"])
            for (_, ml, _) in r.get("obs", []):
                lines.append(ml)
        runs.append((p, fid, r))
    outs = ctx.model(lines) if lines else []
    stats = {"status": {}, "class": {}, "placement": {}, "defect": {}, "real-overlap": 0, "real-fails": 0, "sequences": 0,
             "implied-built": 0, "obs": 0, "cdep": 0, "outside-domain": 0, "synth": {}}
    corr_bad = []
    found = []
    for p, fid, r in runs:
        key = json.dumps(p, sort_keys=True)
        st = r.get("status", "?")
        stats["status"][st] = stats["status"].get(st, 0) + 1
        tag = r.get("tag", {})
        for k2 in ("placement", "defect"):
            if k2 in tag:
                stats[k2][str(tag[k2])] = stats[k2].get(str(tag[k2]), 0) + 1
        stats["cdep"] += bool(tag.get("cdep"))
        if st == "harness-error":
            corr_bad.append(("harness", p, r.get("error")))
            res.count(key, nontrivial=False)
            continue
        stats["class"][r["class"]] = stats["class"].get(r["class"], 0) + 1
        res.count(key, nontrivial=st in ("built", "rejected"))
        if "check_line" not in r or st == "factor-rejected":
            continue
        o = r["line0"]
        check_out = outs[o]
        o += 1
        flat_out = None
        if r.get("flat_wire"):
            flat_out = outs[o]
            o += 1
        if check_out.startswith("!"):
            corr_bad.append(("model-error", p, check_out[:200]))
            res.layer("outcome", False)
            continue
        compare_case(p, fid, r, check_out, flat_out, res, corr_bad)
        for (layer, ml, real) in r.get("obs", []):
            mo = outs[o]
            o += 1
            stats["obs"] += 1
            ok = (mo == real)
            res.layer(layer, ok)
            res.count(None, nontrivial=False)
            if not ok:
                corr_bad.append((layer, p, {"cmd": ml[:400], "real": real, "model": mo}))
        stats["real-overlap"] += bool(r.get("overlap_msg"))
        stats["real-fails"] += bool(r.get("real_fails"))
        stats["implied-built"] += bool(r.get("implied"))
        stats["outside-domain"] += bool(r.get("outside"))
        for s, out in r.get("synth", {}).items():
            d = stats["synth"].setdefault(s, {})
            k3 = "ok:%s" % ("empty" if not out[1] else "seqs") if out[0] == "ok" else "error:" + out[1]
            d[k3] = d.get(k3, 0) + 1
            if out[0] == "ok":
                stats["sequences"] += len(out[1])
        for sig, what, detail in search_case(p, fid, r):
            found.append((sig, what, detail, p, fid))
        if st == "built" and tag.get("cdep") and not r.get("real_fails"):
            res.sample({"tag": tag, "class": r["class"], "window": r.get("real_window"), "derivations": r.get("flat_derivs", [])[:3],
                        "model_check": check_out[:160]})
    res.extra["input_distribution"] = stats
    seen = set()
    for sig, what, detail, p, fid in found:
        if sig in seen:
            continue
        seen.add(sig)
        res.violations.append(Violation(sig, what + "  program=" + json.dumps(p, sort_keys=True)[:1200],
                                        {"program": p, "fid": fid, "detail": detail, "sig": sig}))
    if corr_bad:
        # run.py reports a broken tie only when no unlisted concrete failing input explains it
        layer, p, d = corr_bad[0]
        res.violations.append(Violation(
            "corr:" + layer, "model (Design/Derive.v) and real code disagree on %d observations, first at layer %s: %s"
            % (len(corr_bad), layer, json.dumps(d, default=str)[:400]),
            {"layer": layer, "program": p, "detail": d, "theorems": ["C15_*"]}, failing_input=False))
        res.notes.append("model/code disagreements: %d (first layer %s)" % (len(corr_bad), corr_bad[0][0]))
    res.extra["disagreements"] = [(l, json.dumps(d, default=str)[:300], json.dumps(p, sort_keys=True)) for l, p, d in corr_bad[:10]]
    res.notes.append("layers: window, domain, accepts (ElseLevel complement), outcome-overlap (which levels/assignment), "
                     "outcome-errors (exact strings), outcome-fails, synth-empty, derivs + flat-errors (flat record), "
                     "select / testtrial / implied (random columns); search: program tables as oracle on every returned sequence")


def hand_cases():
    """Hand-written programs (one per finding of this check)."""
    base = {"id": 0, "name": "f", "kind": "simple", "levels": [["a", 1], ["b", 1]]}
    tr = {"id": 1, "name": "tr", "kind": "derived", "window": {"type": "transition", "deps": [0]},
          "levels": [{"name": "same", "table": [[["a", "a"]], [["b", "b"]]]}, {"name": "diff", "else": True}]}
    d = {"id": 2, "name": "d", "kind": "derived",
         "window": {"type": "window", "deps": [1], "width": 1, "stride": 1, "start": 0},
         "levels": [{"name": "s", "table": [[["same"]], [[None]]]}, {"name": "t", "table": [[["diff"]]]}]}
    out = []
    out.append(({"factors": [base, tr, d], "constraints": [{"id": 0, "kind": "MinimumTrials", "trials": 4}],
                 "blocks": [{"id": 0, "kind": "CrossBlock", "design": [0, 1, 2], "crossing": [0], "constraints": [0], "rcc": True}],
                 "main": 0}, 2, {"hand": "implied-early-start-over-transition", "placement": "implied"}))
    # open finding derive:wrong-level:act: a window that mixes a complex derived dependency with a basic factor;
    # the SAT encoding reads the basic factor one trial too early
    m = {"id": 2, "name": "d", "kind": "derived", "window": {"type": "within", "deps": [1, 0]},
         "levels": [{"name": "x", "table": [[["same"], ["a"]], [["diff"], ["b"]]]},
                    {"name": "y", "table": [[["same"], ["b"]], [["diff"], ["a"]]]}]}
    out.append(({"factors": [base, tr, m],
                 "constraints": [{"id": 0, "kind": "AtMostKInARow", "k": 6, "level": [2, "x"]},
                                 {"id": 1, "kind": "MinimumTrials", "trials": 4}],
                 "blocks": [{"id": 0, "kind": "CrossBlock", "design": [0, 1, 2], "crossing": [0], "constraints": [0, 1], "rcc": True}],
                 "main": 0}, 2, {"hand": "within-over-transition-and-basic", "placement": "constrained"}))
    return out


def replay(ctx, data):
    p = data["program"]
    fid = data.get("fid")
    if fid is None:
        fid = [f["id"] for f in p["factors"] if f["kind"] == "derived"][-1]
    r = run_case(ctx, p, fid, 6, 0)
    sigs = [s for s, _, _ in search_case(p, fid, r)]
    return data.get("sig") in sigs if data.get("sig") else bool(sigs)
