"""C16 - Trial count follows the documented rules; every sequence has that length.

Theorems: coq/theories/Properties/C16.v (about Front/Trials.v).
Correspondence (L1), on generated programs of every shape (gen_design.gen_program,
c14.nest_complex and the structural family `extra_programs` below):
  L1-create  for every block of the program, Front/Create.v's `create_of` run on the
             attributes of the argument blocks (read from the real objects just before
             the real constructor is called) vs the arguments the real constructor
             hands to `MultiCrossBlockRepeat._create` (recorded by wrapping `_create`
             in the harness; /repo is not touched), or the error class it raises;
  L1-trials  Front/Trials.v run on the flat record of the real block (plus the mode and
             initial weights recorded at `_create`) vs the real `min_trials`,
             `preamble_sizes`, `trials_per_sample()`, `crossing_weights`,
             `common_preamble_size()`, `get_geometry(0)`, `crossing_size_without_exclusions`;
  L1-trreq   `trials_required f size` vs the real `__trials_required_for_crossing`
             for every crossed factor and sizes 0..S+2;
  L1-createflat  Front/CreateFlat.v `create_flat` (a model of `_create` + `Block.__init__` as a whole)
             run on the recorded `_create` arguments vs the flat record of the real block
             (harness/flat.py), field by field (geometry sustain maps sorted); the exclusion
             counts, generated Derivation constraints, excluded_derived and the error flag are
             inputs read from the real block; designs that need weight desugaring must be
             answered `unsupported`.
             Statistics `input_ok*`: on how many of the recorded `_create` arguments Front/CreateOk.v `input_ok`
             holds - the condition under which Front/CreateWf.v proves wf_layout / wf_trials of the created
             record (driver command `inputok`).
Search (the property itself, independent of the model):
  * `docsem.doc_sem(program).T` - the documented arithmetic (weighted crossing size,
    minus excluded / impossible combinations when complete crossing is not required,
    plus preamble trials of the latest-starting crossed derived factor, at least
    MinimumTrials, max over crossings, products for Repeat / Nest) - vs the real
    `trials_per_sample()`;
  * every sequence returned by every strategy that runs offline (IterateSATGen,
    RandomGen, CMSGen, UniGen, IterateGen, UniformGen, SMGen where it accepts) has
    exactly `trials_per_sample()` entries for every user factor.
"""
import json
import time

import docsem
import flat
import gen_design
import ir
from common import Violation
from docsem import _A, to_wire

TITLE = "trial count and sequence lengths"
LEVEL = "proof"
DOMAINS = ["Front", "Design"]

STRATEGIES = ("IterateSATGen", "RandomGen", "CMSGen", "UniGen", "IterateGen", "UniformGen", "SMGen")


# --------------------------------------------------------------------------- instrumented construction

class Recorder:
    """Global tables of one instrumented build: factor ids by identity, constraint keys,
    the arguments of every `_create` call."""

    def __init__(self):
        self.factors = []       # objects; index = id
        self.ckeys = []         # (type name, id(level/factor object))
        self.keep = []          # keeps every object alive so that id() stays unique
        self.created = {}       # id(block object) -> recorded dict

    def fid(self, f):
        for i, g in enumerate(self.factors):
            if g is f:
                return i
        self.factors.append(f)
        return len(self.factors) - 1

    def ckey(self, ct):
        ref = getattr(ct, "level", None)
        if ref is None:
            ref = getattr(ct, "factor", None)
        if ref is None and hasattr(ct, "factors"):
            ref = tuple(id(f) for f in ct.factors)
        if ref is None and hasattr(ct, "trials"):
            ref = "MinimumTrials"
        self.keep.append(ref)
        k = (type(ct).__name__, ref if isinstance(ref, (tuple, str)) else id(ref))
        if k not in self.ckeys:
            self.ckeys.append(k)
        return self.ckeys.index(k)

    def geom(self, g):
        if g is None:
            return None
        return [g.num_trials, g.preamble_size, sorted([self.fid(f), n] for f, n in g.factor_to_sustain_count.items())]

    def cinfo(self, ct):
        n = type(ct).__name__
        if n in ("AtMostKInARow", "AtLeastKInARow", "ExactlyK", "ExactlyKInARow", "ExactlyKMultipleInARow"):
            p = ct.k
        elif n == "Pin":
            p = ct.index
        elif n == "MinimumTrials":
            p = ct.trials
        else:
            p = 0
        return [self.ckey(ct), _A(n), p, self.geom(getattr(ct, "within_block", None))]

    def binfo(self, b):
        from sweetpea._internal.cross_block import MultiCrossBlock
        al = {"post preamble": "post", "parallel start": "parallel", "equal preamble": "equal"}[b.alignment.value]
        with ir.quiet():
            T = b.trials_per_sample()
            P = b.common_preamble_size()
        return [isinstance(b, MultiCrossBlock), [self.fid(f) for f in b.design], [[self.fid(f) for f in c] for c in b.crossings],
                list(b.crossing_sustain_counts), list(b.crossing_weights), [self.fid(f) for f in b.orig_design],
                [[self.fid(f) for f in c] for c in b.orig_crossings], [self.cinfo(c) for c in b.orig_constraints],
                _A(al), bool(b.require_complete_crossing), T, P]


def _install(rec):
    """Wrap MultiCrossBlockRepeat._create so that its arguments are recorded (in the
    harness process only)."""
    from sweetpea._internal import cross_block as CB
    orig = CB.MultiCrossBlockRepeat._create

    def wrapper(self, who, design, crossings, crossing_sustain_counts, crossing_weights, constraints,
                require_complete_crossing, mode=CB.RepeatMode.WEIGHT, alignment=CB.AlignmentMode.EQUAL_PREAMBLE):
        try:
            m = CB.normalize_mode(who, mode).value
            a = CB.normalize_alignment(who, alignment).value
        except Exception:  # noqa
            m, a = str(mode), str(alignment)
        rec.keep.append(self)
        rec.created[id(self)] = {
            "who": who, "design": [rec.fid(f) for f in design], "crossings": [[rec.fid(f) for f in c] for c in crossings],
            "sustains": list(crossing_sustain_counts), "weights": list(crossing_weights),
            # "constraints": the constraints as they are at the call (a snapshot: class, parameter, within_block geometry);
            # "constraint_objs": the objects handed over (_create copies them; they must never change afterwards)
            "constraints": [rec.cinfo(c) for c in constraints], "constraint_objs": list(constraints),
            "rcc": bool(require_complete_crossing), "mode": m, "alignment": a}
        rec.last = rec.created[id(self)]
        return orig(self, who, design, crossings, crossing_sustain_counts, crossing_weights, constraints,
                    require_complete_crossing, mode=mode, alignment=alignment)
    CB.MultiCrossBlockRepeat._create = wrapper
    return orig


def _uninstall(orig):
    from sweetpea._internal import cross_block as CB
    CB.MultiCrossBlockRepeat._create = orig


AL = {"post preamble": "post", "parallel start": "parallel", "equal preamble": "equal", None: "none"}


def instrumented_build(program):
    """Build the program block by block.  Returns (built, rec, steps); one step per
    block: {"bid", "kind", "exp": model expression (wire), "own": own constraint
    objects, "args": argument block objects, "recorded": dict | None, "error": (Exc, msg) | None}."""
    rec = Recorder()
    built = ir.Built()
    steps = []
    orig = _install(rec)
    try:
        with ir.quiet():
            for f in program["factors"]:
                try:
                    built.factors[f["id"]] = ir.build_factor(built, program, f)
                    rec.fid(built.factors[f["id"]])
                except Exception as e:  # noqa
                    built.errors[("factor", f["id"])] = ("error", type(e).__name__, str(e)[:200])
            for c in program.get("constraints", []):
                try:
                    built.constraints[c["id"]] = ir.build_constraint(built, program, c)
                except Exception as e:  # noqa
                    built.errors[("constraint", c["id"])] = ("error", type(e).__name__, str(e)[:200])
            for b in program["blocks"]:
                k = b["kind"]
                try:
                    own = [built.constraints[c] for c in b.get("constraints", [])]
                    ownw = [rec.cinfo(c) for c in own]
                    if k == "CrossBlock":
                        args = []
                        exp = [_A("cross"), [rec.fid(built.factors[f]) for f in b["design"]],
                               [rec.fid(built.factors[f]) for f in b["crossing"]], ownw, bool(b.get("rcc", True))]
                    elif k == "MultiCrossBlock":
                        args = []
                        exp = [_A("multi"), [rec.fid(built.factors[f]) for f in b["design"]],
                               [[rec.fid(built.factors[f]) for f in c] for c in b["crossings"]], ownw, bool(b.get("rcc", True)),
                               _A(b.get("mode", "equal")), _A(AL[b.get("alignment", "equal preamble")])]
                    elif k == "Repeat":
                        args = [built.blocks[b["block"]]]
                        exp = [_A("repeat"), rec.binfo(args[0]), ownw]
                    elif k == "Merge":
                        args = [built.blocks[x] for x in b["blocks"]]
                        exp = [_A("merge"), [rec.binfo(x) for x in args], ownw, _A(b.get("mode", "repeat")),
                               _A(AL[b.get("alignment")])]
                    elif k == "Nest":
                        args = [built.blocks[b["outer"]], built.blocks[b["inner"]]]
                        exp = [_A("nest"), rec.binfo(args[0]), rec.binfo(args[1]), ownw, _A(AL[b.get("alignment")])]
                    else:
                        raise ValueError(k)
                except KeyError:
                    built.errors[("block", b["id"])] = ("error", "Dependency", "argument block or constraint failed to build")
                    continue
                step = {"bid": b["id"], "kind": k, "exp": to_wire(exp), "own": own, "args": args, "recorded": None, "error": None}
                rec.last = None
                try:
                    built.blocks[b["id"]] = ir.build_block(built, program, b)
                except Exception as e:  # noqa
                    built.errors[("block", b["id"])] = ("error", type(e).__name__, str(e)[:200])
                    step["error"] = (type(e).__name__, str(e)[:200])
                step["recorded"] = rec.last
                steps.append(step)
    finally:
        _uninstall(orig)
    return built, rec, steps


def classify_error(kind, exc, msg):
    if "both outer and inner" in msg:
        return "ENestSharedCrossing"
    if "cannot have different alignment" in msg:
        return "ENestAlignment"
    if "must be nonempty" in msg:
        return "EMergeEmpty"
    if "different alignments" in msg:
        return "EMergeAlignment"
    if kind == "Nest" and exc == "AttributeError" and "sustain" in msg:
        return "ENestSustainNone"
    if kind == "Repeat" and ("argcheck" in msg or "Block" in msg or exc in ("TypeError", "ValueError")):
        return "ERepeatArg"
    return "other:" + exc


def canon_geom(g):
    if g in ("none", None):
        return "none"
    return "(%d %d %s)" % (g[0], g[1], " ".join("(%d %d)" % tuple(p) for p in sorted(tuple(q) for q in g[2])))


def real_create_view(rec, step):
    """Canonical rendering of what the real constructor did, comparable with `model_create_view`."""
    r = step["recorded"]
    if r is None:
        e = step["error"]
        return "error " + (classify_error(step["kind"], e[0], e[1]) if e else "no-create-call")
    cons = []
    for ci, obj in zip(r["constraints"], r["constraint_objs"]):
        cons.append("(%d %s %d %s)" % (ci[0], ci[1].s if ci[1].s in KINDS else "Other", ci[2], canon_geom(ci[3])))
    return "ok %r %r %r %r [%s] %r %s %s" % (r["design"], r["crossings"], r["sustains"], r["weights"], " ".join(cons), r["rcc"],
                                             r["mode"], AL[r["alignment"]])


KINDS = ("AtMostKInARow", "AtLeastKInARow", "ExactlyK", "ExactlyKInARow", "ExactlyKMultipleInARow", "Pin", "MinimumTrials",
         "Exclude")


def possible_origins(step, obj):
    out = set()
    if any(obj is c for c in step["own"]):
        out.add("own")
    for i, blk in enumerate(step["args"]):
        if any(obj is c for c in blk.orig_constraints):
            out.add("block%d" % i)
    if not out:
        out.add("outercopy")
    return out


def model_create_view(out):
    """(rendering, origins list) from the model's output line."""
    from common import parse_sexp
    r = parse_sexp(out)[0]
    if r[0] == "error":
        return "error " + r[1], []
    _, design, crossings, sustains, weights, cons, rcc, mode, al, norm, addsus, smap = r
    cs = []
    origins = []
    for o, cid, kind, param, wb in cons:
        origins.append("own" if o == "own" else ("outercopy" if o == "outercopy" else "block%d" % o[1]))
        cs.append("(%d %s %d %s)" % (cid, kind, param, canon_geom(wb)))
    view = "ok %r %r %r %r [%s] %r %s %s" % (design, crossings, sustains, weights, " ".join(cs), rcc == "true",
                                             mode, al)
    return view, origins, norm, addsus == "true", smap


# --------------------------------------------------------------------------- _create as a whole (Front/CreateFlat.v)

KROW = ("AtMostKInARow", "AtLeastKInARow", "ExactlyK", "ExactlyKInARow", "ExactlyKMultipleInARow")


def _sorted_geoms(rec):
    """the flat record (nested lists of harness/flat.py) with every geometry's sustain pairs sorted"""
    cons = []
    for c in rec[14]:
        c = list(c)
        if c[0].s in KROW + ("Pin",) and c[-1] is not None:
            g = c[-1]
            c[-1] = [g[0], g[1], sorted(g[2])]
        cons.append(c)
    return list(rec[:14]) + [cons, rec[15]]


def createflat_observation(rec, st, blk):
    """(model line, expected) : Front/CreateFlat.v `create_flat` on the recorded _create arguments vs the flat
    record of the real block after _create.  The exclusion counts, the generated Derivation constraints,
    excluded_derived and the error flag are read from the real block (they come from the user's predicates)."""
    from sweetpea._internal.primitive import DerivedFactor, Factor, HiddenName
    r = st["recorded"]
    design = [rec.factors[i] for i in r["design"] if type(rec.factors[i]).__name__ != "ContinuousFactor"]
    pos = {id(f): i for i, f in enumerate(design)}
    gpos = {i: pos[id(rec.factors[i])] for i in r["design"] if id(rec.factors[i]) in pos}

    def fi(f):
        return pos[id(f)]

    def li(f, l):
        return [id(x) for x in f.levels].index(id(l))
    factors = []
    for f in design:
        if isinstance(f, DerivedFactor):
            w = f.first_level.window
            win = [[fi(d) for d in w.factors], w.width, w.stride, w.start, w.start_delta]
            levels = [[str(l.name), l.weight, flat._table(l)] for l in f.levels]
        else:
            win = None
            levels = [[str(l.name), l.weight, []] for l in f.levels]
        factors.append([str(f.name.name) if isinstance(f.name, HiddenName) else str(f.name), isinstance(f.name, HiddenName),
                        levels, win, bool(f.has_complex_window)])

    def wb_of(g):
        if g is None:
            return None
        return [g[0], g[1], sorted([gpos[a], n] for a, n in g[2] if a in gpos)]
    cons = []
    for obj, ci in zip(r["constraint_objs"], r["constraints"]):
        n = type(obj).__name__
        if n in KROW:
            if isinstance(obj.level, Factor):
                cons.append([_A("factor"), _A(n), ci[2], fi(obj.level), wb_of(ci[3])])
            else:
                cons.append([_A(n), ci[2], fi(obj.level.factor), li(obj.level.factor, obj.level), wb_of(ci[3])])
        elif n == "Exclude":
            cons.append([_A(n), fi(obj.factor), li(obj.factor, obj.level)])
        elif n == "Pin":
            cons.append([_A(n), obj.index, fi(obj.factor), li(obj.factor, obj.level), wb_of(ci[3])])
        elif n == "Reify":
            cons.append([_A(n), fi(obj.factor)])
        elif n == "MinimumTrials":
            cons.append([_A(n), ci[2]])
        elif n == "LatinSquare":
            cons.append([_A(n), [fi(f) for f in obj.factors]])
        elif n == "Sequential":
            cons.append([_A(n), fi(obj.factor)])
        else:
            cons.append([_A(n)])
    frec = flat.flat_of_block(blk)
    same_design = len(blk.design) == len(design) and all(a is b for a, b in zip(blk.design, design))
    with ir.quiet():
        excl = [blk.crossing_size_without_exclusions(c) - blk.crossing_sizes[i] // max(1, blk.crossing_sustain_count(c))
                for i, c in enumerate(blk.crossings)]
    derivs = [c for c in frec[14] if c[0].s == "Derivation"]
    al = {"post preamble": "post", "parallel start": "parallel", "equal preamble": "equal"}[r["alignment"]]
    inp = [factors, [[fi(rec.factors[i]) for i in c] for c in r["crossings"]], list(r["sustains"]), list(r["weights"]), cons,
           r["rcc"], _A(r["mode"]), _A(al), excl, derivs, frec[13], frec[15]]
    expected = "(ok %s)" % to_wire(_sorted_geoms(frec)) if same_design else "(error unsupported)"
    return "(createflat %s)" % to_wire(inp), expected


def created_observation(rec, st, blk):
    """(model line, expected, handed objects unchanged): Front/Create.v `created_constraints` on the constraints as they were when
    they were handed to `_create` (the recorder's snapshot) and the real block's `get_geometry(0)`, vs the real block's
    `orig_constraints` after construction.  `_create` works on private copies: the objects handed over must read afterwards as
    they did at the call (third component)."""
    r = st["recorded"]
    with ir.quiet():
        g = blk.get_geometry(0)
    line = "(created %s %s)" % (to_wire(rec.geom(g)), to_wire(r["constraints"]))
    real = [rec.cinfo(c) for c in blk.orig_constraints]
    expected = " ".join(canon_cinfo(ci) for ci in real)
    unchanged = all(canon_cinfo(rec.cinfo(obj)) == canon_cinfo(ci) for obj, ci in zip(r["constraint_objs"], r["constraints"]))
    return line, expected, unchanged


def canon_cinfo(ci):
    return "(%d %s %d %s)" % (ci[0], ci[1].s if ci[1].s in KINDS else "Other", ci[2], canon_geom(ci[3]))


def model_created_view(out):
    """the model's answer to `created` in the rendering of `created_observation`"""
    from common import parse_sexp
    r = parse_sexp(out)[0]
    return " ".join("(%d %s %d %s)" % (cid, kind, param, canon_geom(wb)) for cid, kind, param, wb in r)


def inputok_line(createflat_line):
    """the same recorded _create arguments for the driver command `inputok` (Front/CreateOk.v `input_ok`: the condition under which
    Front/CreateWf.v proves the guards wf_layout / wf_trials of the created record)"""
    assert createflat_line.startswith("(createflat ")
    return "(inputok " + createflat_line[len("(createflat "):]


INPUTOK_PARTS = ("windows", "exclusions", "sustains", "strides", "sustains-consistent")


def inputok_count(stats, expected_createflat, mod):
    """statistics only: on how many real blocks' recorded _create arguments `input_ok` holds (and which condition fails otherwise)"""
    toks = mod.replace("(", " ").replace(")", " ").split()
    if len(toks) != 1 + len(INPUTOK_PARTS) or any(t not in ("true", "false") for t in toks):
        stats["input_ok:unreadable"] = stats.get("input_ok:unreadable", 0) + 1
        return
    supported = expected_createflat.startswith("(ok")
    key = "input_ok" if toks[0] == "true" else "not-input_ok"
    stats[key] = stats.get(key, 0) + 1
    if supported:
        stats[key + ":createflat-ok"] = stats.get(key + ":createflat-ok", 0) + 1
    for name, t in zip(INPUTOK_PARTS, toks[1:]):
        if t == "false":
            stats["not-input_ok:" + name] = stats.get("not-input_ok:" + name, 0) + 1


# --------------------------------------------------------------------------- real-side observations of the trial arithmetic

def real_trials_view(block):
    with ir.quiet():
        T = block.trials_per_sample()
        g = block.get_geometry(0)
        parts = [str(block.min_trials), "(" + " ".join(str(x) for x in block.preamble_sizes) + ")", str(T),
                 "(" + " ".join(str(x) for x in block.crossing_weights) + ")", str(block.common_preamble_size()),
                 "(%d %d)" % (g.num_trials, g.preamble_size),
                 "(" + " ".join(str(block.crossing_size_without_exclusions(c)) for c in block.crossings) + ")"]
    return " ".join(parts)


def model_trials_view(out):
    """min_raw min_rounded (preambles) for_crossings trials weights common geometry (sizes) ->
    the same rendering as real_trials_view (without min_raw / for_crossings)."""
    from common import parse_sexp
    r = parse_sexp(out)
    if len(r) != 11:
        return "!" + out
    raw, rounded, pre, fc, T, ws, common, geo, sizes, wf, need = r

    def sh(x):
        if isinstance(x, list):
            return "(" + " ".join(sh(y) for y in x) + ")"
        return str(x)
    return " ".join([sh(rounded), sh(pre), sh(T), sh(ws), sh(common), sh(geo), sh(sizes)])


def first_diff(a, b):
    i = 0
    while i < min(len(a), len(b)) and a[i] == b[i]:
        i += 1
    return "differ at char %d: real ...%s  model ...%s" % (i, a[max(0, i - 60):i + 80], b[max(0, i - 60):i + 80])


def trreq_cases(block):
    """[(factor index in design, size, real value)]"""
    out = []
    fn = getattr(block, "_MultiCrossBlockRepeat__trials_required_for_crossing")
    seen = set()
    with ir.quiet():
        for c, S in zip(block.crossings, block.crossing_sizes):
            for f in c:
                fi = block.design.index(f)
                for size in sorted(set([0, 1, 2, 3, S, S + 1, S + 2])):
                    if (fi, size) in seen or size < 0:
                        continue
                    seen.add((fi, size))
                    out.append((fi, size, fn(f, size)))
    return out


# --------------------------------------------------------------------------- programs

def F(fid, name, levels, weights=None):
    weights = weights or [1] * len(levels)
    return {"id": fid, "name": name, "kind": "simple", "levels": [[l, w] for l, w in zip(levels, weights)]}


def transition(fid, name, dep_fid, dep_levels):
    same = [[[a, a]] for a in dep_levels]
    return {"id": fid, "name": name, "kind": "derived", "window": {"type": "transition", "deps": [dep_fid]},
            "levels": [{"name": "same", "table": same, "weight": 1}, {"name": "diff", "else": True, "weight": 1}]}


def extra_programs(rng):
    """One structural variant the generator of gen_design never produces: Nest in Nest,
    Merge with alignments and 1-3 blocks, Repeat of MultiCrossBlock / Merge / Repeat,
    MinimumTrials at every level together with Pin / AtLeastKInARow, empty crossings,
    crossed transition factors under Nest / Repeat."""
    nl = lambda: rng.choice([2, 2, 3])  # noqa
    names = "abc"
    A = F(0, "A", ["a%d" % i for i in range(nl())], [rng.choice([1, 1, 1, 2]) for _ in range(3)])
    B = F(1, "B", ["b%d" % i for i in range(nl())])
    C = F(2, "C", ["c%d" % i for i in range(2)])
    tA = transition(3, "tA", 0, [l for l, _ in A["levels"]])
    tB = transition(4, "tB", 1, [l for l, _ in B["levels"]])
    factors = [A, B, C, tA, tB]
    cons = []

    def mint(n):
        cons.append({"id": len(cons), "kind": "MinimumTrials", "trials": n})
        return cons[-1]["id"]

    def pin(fid, lev, idx):
        cons.append({"id": len(cons), "kind": "Pin", "index": idx, "level": [fid, lev]})
        return cons[-1]["id"]

    def krow(kind, fid, lev, k):
        cons.append({"id": len(cons), "kind": kind, "k": k, "level": [fid, lev]})
        return cons[-1]["id"]

    def maybe(cs_pool):
        return [c() for c in cs_pool if rng.random() < 0.3]
    blocks = []

    def cross(design, crossing, cs, rcc=True):
        blocks.append({"id": len(blocks), "kind": "CrossBlock", "design": design, "crossing": crossing, "constraints": cs, "rcc": rcc})
        return blocks[-1]["id"]

    def multi(design, crossings, cs, mode, al):
        blocks.append({"id": len(blocks), "kind": "MultiCrossBlock", "design": design, "crossings": crossings, "constraints": cs,
                       "rcc": True, "mode": mode, "alignment": al})
        return blocks[-1]["id"]
    shape = rng.choice(["nest3l", "nest3r", "merge-al", "repeat-multi", "repeat-merge", "repeat-repeat", "nest-min", "empty-outer",
                        "nest-trans", "repeat-trans", "merge1", "merge3", "nest-multi", "cross-min", "multi-min", "nest-inpre", "nest-inpre"])
    al = rng.choice(["equal preamble", "parallel start", "post preamble"])
    mode = rng.choice(["weight", "repeat", "equal"])
    inner_cs = lambda fid, lev: maybe([lambda: krow("AtMostKInARow", fid, lev, rng.choice([1, 2])),  # noqa
                                       lambda: pin(fid, lev, rng.choice([0, -1, 1])),
                                       lambda: krow("ExactlyK", fid, lev, 1),
                                       lambda: krow("AtLeastKInARow", fid, lev, rng.choice([1, 2])),
                                       lambda: mint(rng.choice([3, 5]))])
    if shape in ("nest3l", "nest3r"):
        a = cross([0], [0], inner_cs(0, "a0"))
        b = cross([1], [1], inner_cs(1, "b0"))
        c = cross([2], [2], inner_cs(2, "c0"))
        if shape == "nest3l":
            blocks.append({"id": 3, "kind": "Nest", "outer": a, "inner": b, "constraints": []})
            blocks.append({"id": 4, "kind": "Nest", "outer": 3, "inner": c, "constraints": maybe([lambda: mint(rng.choice([5, 13, 25]))])})
        else:
            blocks.append({"id": 3, "kind": "Nest", "outer": b, "inner": c, "constraints": []})
            blocks.append({"id": 4, "kind": "Nest", "outer": a, "inner": 3, "constraints": maybe([lambda: mint(rng.choice([5, 13, 25]))])})
    elif shape in ("merge-al", "merge1", "merge3"):
        n = {"merge-al": 2, "merge1": 1, "merge3": 3}[shape]
        ids = []
        pools = [([0, 1, 2, 3], [0, 3] if rng.random() < 0.4 else [0]), ([0, 1, 2, 4], [1, 4] if rng.random() < 0.4 else [1]),
                 ([0, 1, 2], [2])]
        for i in range(n):
            d, cr = pools[i]
            if rng.random() < 0.5:
                ids.append(multi(d, [cr], inner_cs(cr[0], factors[cr[0]]["levels"][0][0]), rng.choice(["weight", "equal"]), al))
            else:
                ids.append(cross(d, cr, inner_cs(cr[0], factors[cr[0]]["levels"][0][0])))
        blocks.append({"id": len(blocks), "kind": "Merge", "blocks": ids, "constraints": maybe([lambda: mint(rng.choice([5, 7, 9]))]),
                       "mode": rng.choice(["repeat", "weight", "equal"]), "alignment": rng.choice([None, None, al, "parallel start"])})
    elif shape == "repeat-multi":
        m = multi([0, 1, 2], [[0], [1, 2]] if rng.random() < 0.5 else [[0, 1], [2]], inner_cs(0, "a0"), rng.choice(["weight", "repeat"]), al)
        blocks.append({"id": 1, "kind": "Repeat", "block": m, "constraints": [mint(rng.choice([5, 9, 13]))]})
    elif shape == "repeat-merge":
        a = cross([0, 1], [0], inner_cs(0, "a0"))
        b = cross([0, 1], [1], inner_cs(1, "b0"))
        blocks.append({"id": 2, "kind": "Merge", "blocks": [a, b], "constraints": [], "mode": rng.choice(["repeat", "weight"])})
        blocks.append({"id": 3, "kind": "Repeat", "block": 2, "constraints": [mint(rng.choice([5, 7, 12]))]})
    elif shape == "repeat-repeat":
        a = cross([0, 1], [0], [])
        blocks.append({"id": 1, "kind": "Repeat", "block": a, "constraints": [mint(5)]})
        blocks.append({"id": 2, "kind": "Repeat", "block": 1, "constraints": [mint(11)]})
    elif shape == "nest-min":
        a = cross([0], [0], maybe([lambda: mint(rng.choice([3, 4, 5]))]))
        b = cross([1], [1], maybe([lambda: mint(rng.choice([3, 4, 5]))]))
        top = [mint(rng.choice([5, 7, 9, 11]))] + maybe([lambda: pin(1, "b0", 0), lambda: krow("AtLeastKInARow", 1, "b0", 1),
                                                         lambda: krow("AtMostKInARow", 0, "a0", 4)])
        blocks.append({"id": 2, "kind": "Nest", "outer": a, "inner": b, "constraints": top})
    elif shape == "empty-outer":
        a = cross([0], [], [mint(rng.choice([2, 3]))])
        b = cross([1], [1], [])
        if rng.random() < 0.5:
            blocks.append({"id": 2, "kind": "Nest", "outer": a, "inner": b, "constraints": []})
        else:
            blocks.append({"id": 2, "kind": "Merge", "blocks": [a, b], "constraints": [], "mode": "repeat"})
    elif shape == "nest-trans":
        oc = rng.choice([[0], [0, 3], [3]])
        ic = rng.choice([[1], [1, 4], [4]])
        if rng.random() < 0.5:
            a = cross([0, 3], oc, inner_cs(0, "a0"))
            b = cross([1, 4], ic, inner_cs(1, "b0"))
        else:
            a = multi([0, 3], [oc], inner_cs(0, "a0"), "weight", al)
            b = multi([1, 4], [ic], inner_cs(1, "b0"), "weight", al)
        blocks.append({"id": 2, "kind": "Nest", "outer": a, "inner": b, "constraints": [],
                       "alignment": rng.choice([None, None, al])})
    elif shape == "nest-inpre":
        # the inner block has preamble trials: inner_len = trials - preamble
        ic = rng.choice([[1, 4], [4]])
        r = rng.random()
        if r < 0.4:       # both blocks with a crossed transition: equal preambles
            a = cross([0, 3], rng.choice([[0, 3], [3]]), [])
            b = cross([1, 4], ic, inner_cs(1, "b0"))
            nal = None
        else:
            al2 = rng.choice(["parallel start", "post preamble"])
            a = multi([0, 3], [rng.choice([[0], [0, 3]])], [], "weight", al2)
            b = multi([1, 4], [ic], inner_cs(1, "b0"), "weight", al2)
            nal = rng.choice([None, al2])
        blocks.append({"id": 2, "kind": "Nest", "outer": a, "inner": b, "constraints": maybe([lambda: mint(rng.choice([7, 12]))]),
                       "alignment": nal})
    elif shape == "repeat-trans":
        a = cross([0, 1, 3], rng.choice([[0, 3], [3], [1, 3]]), inner_cs(0, "a0"))
        blocks.append({"id": 1, "kind": "Repeat", "block": a, "constraints": [mint(rng.choice([6, 9, 11, 14]))]})
    elif shape == "nest-multi":
        a = multi([0, 2], [[0], [2]], [], mode, al)
        b = cross([1], [1], inner_cs(1, "b0"))
        if rng.random() < 0.5:
            a, b = b, a
        blocks.append({"id": 2, "kind": "Nest", "outer": a, "inner": b, "constraints": []})
    elif shape == "cross-min":
        cross([0, 1, 3], rng.choice([[0], [0, 1], [0, 3], [3]]), [mint(rng.choice([1, 5, 7, 8, 13]))] + inner_cs(0, "a0"),
              rcc=rng.random() < 0.7)
    else:
        multi([0, 1, 2, 3], rng.choice([[[0], [1]], [[0, 3], [1]], [[0, 1], [2]], [[3], [1, 2]]]),
              [mint(rng.choice([1, 5, 7, 8]))] + inner_cs(0, "a0"), mode, al)
    used = set()
    for b in blocks:
        used.update(b.get("design", []))
    # derived factors need their dependencies in the design: keep every factor (unused ones are harmless in `factors`)
    return {"factors": factors, "constraints": cons, "blocks": blocks, "main": blocks[-1]["id"], "shape": shape}


def hand_programs():
    """Minimal programs for the findings this check has made."""
    f = F(0, "f", ["a", "b"])
    o = F(0, "o", ["a", "b"])
    i = F(1, "i", ["x", "y"])
    out = []
    out.append(("repeat-4-of-2", {
        "factors": [f], "constraints": [{"id": 0, "kind": "MinimumTrials", "trials": 4}],
        "blocks": [{"id": 0, "kind": "CrossBlock", "design": [0], "crossing": [0], "constraints": [], "rcc": True},
                   {"id": 1, "kind": "Repeat", "block": 0, "constraints": [0]}], "main": 1}))
    for extra in ([], [{"id": 1, "kind": "Pin", "index": 0, "level": [1, "x"]}],
                  [{"id": 1, "kind": "AtLeastKInARow", "k": 1, "level": [1, "x"]}]):
        cons = [{"id": 0, "kind": "MinimumTrials", "trials": 5}] + extra
        out.append(("nest-min5" + ("-" + extra[0]["kind"] if extra else ""), {
            "factors": [o, i], "constraints": cons,
            "blocks": [{"id": 0, "kind": "CrossBlock", "design": [0], "crossing": [0], "constraints": [], "rcc": True},
                       {"id": 1, "kind": "CrossBlock", "design": [1], "crossing": [1], "constraints": [], "rcc": True},
                       {"id": 2, "kind": "Nest", "outer": 0, "inner": 1, "constraints": [c["id"] for c in cons]}], "main": 2}))
    # Nest whose outer block has excluded crossing combinations: the crossing size is
    # (combinations - excluded) x sustain (seed C16-crossing-size-sustain-before-exclusions)
    c3 = F(0, "color", ["red", "green", "blue"])
    sh = F(1, "shape", ["o", "x"])
    se = F(2, "sess", ["s1", "s2"])
    out.append(("nest-outer-exclude", {
        "factors": [c3, sh, se], "constraints": [{"id": 0, "kind": "Exclude", "level": [0, "red"]}],
        "blocks": [{"id": 0, "kind": "CrossBlock", "design": [0, 1], "crossing": [0, 1], "constraints": [0], "rcc": False},
                   {"id": 1, "kind": "CrossBlock", "design": [2], "crossing": [2], "constraints": [], "rcc": True},
                   {"id": 2, "kind": "Nest", "outer": 0, "inner": 1, "constraints": []}], "main": 2}))
    return out


def window_factor(fid, name, dep_fid, dep_levels, width, start):
    """Window(width, stride 1, start) over one factor: level 'same' accepts the windows whose first and last
    elements agree, an else level the rest."""
    import itertools
    same = [[list(w)] for w in itertools.product(dep_levels, repeat=width) if w[0] == w[-1]]
    return {"id": fid, "name": name, "kind": "derived",
            "window": {"type": "window", "deps": [dep_fid], "width": width, "stride": 1, "start": start},
            "levels": [{"name": "same", "table": same, "weight": 1}, {"name": "diff", "else": True, "weight": 1}]}


def alignment_family():
    """Deterministic family (runs in every tier): MultiCrossBlock / Merge / Nest with two or three crossings of
    different sizes under POST_PREAMBLE and, for contrast, PARALLEL_START, where the latest-starting derived
    factor (Transition; Window of width 2 / 3; Window with explicit start 2) sits in a *smaller* crossing, in
    both crossing orders, modes repeat and weight.  Under POST_PREAMBLE every crossing starts after the longest
    preamble and is stretched to the largest crossing size: trials = max preamble + max size."""
    A = F(0, "A", ["a0", "a1"])
    B = F(1, "B", ["b0", "b1", "b2"])
    C = F(2, "C", ["c0", "c1"])
    al_levels = ["a0", "a1"]
    deriveds = [("transition", transition(3, "dA", 0, al_levels)),
                ("window2", window_factor(3, "dA", 0, al_levels, 2, 1)),
                ("window3", window_factor(3, "dA", 0, al_levels, 3, 2)),
                ("window2-start2", window_factor(3, "dA", 0, al_levels, 2, 2))]
    out = []
    for dname, d in deriveds:
        factors = [A, B, C, d]
        design = [0, 1, 2, 3]
        structures = [("big-first", [[1, 2], [3]]), ("small-first", [[3], [1, 2]]), ("small-first-AB", [[3, 2], [0, 1]]),
                      ("three", [[0, 1], [3], [2]])]
        for sname, crossings in structures:
            for mode in ("repeat", "weight"):
                for al in ("post preamble", "parallel start"):
                    tag = "al-%s-%s" % (dname, al.split()[0])
                    out.append((tag + "-multi", {
                        "factors": factors, "constraints": [],
                        "blocks": [{"id": 0, "kind": "MultiCrossBlock", "design": design, "crossings": crossings, "constraints": [],
                                    "rcc": True, "mode": mode, "alignment": al}], "main": 0}))
                    leaves = [{"id": i, "kind": "MultiCrossBlock", "design": design, "crossings": [c], "constraints": [], "rcc": True,
                               "mode": "weight", "alignment": al} for i, c in enumerate(crossings)]
                    out.append((tag + "-merge", {
                        "factors": factors, "constraints": [],
                        "blocks": leaves + [{"id": len(leaves), "kind": "Merge", "blocks": [b["id"] for b in leaves], "constraints": [],
                                             "mode": mode, "alignment": al}], "main": len(leaves)}))
        for al in ("post preamble", "parallel start"):
            for crossings in ([[0, 1], [3]], [[3], [0, 1]]):
                out.append(("al-%s-nest-%s" % (dname, al.split()[0]), {
                    "factors": factors, "constraints": [],
                    "blocks": [{"id": 0, "kind": "MultiCrossBlock", "design": [2], "crossings": [[2]], "constraints": [], "rcc": True,
                                "mode": "weight", "alignment": al},
                               {"id": 1, "kind": "MultiCrossBlock", "design": [0, 1, 3], "crossings": crossings, "constraints": [],
                                "rcc": True, "mode": "repeat", "alignment": al},
                               {"id": 2, "kind": "Nest", "outer": 0, "inner": 1, "constraints": [], "alignment": al}], "main": 2}))
    return out


def gen_programs(ctx, n):
    from props.c14 import nest_complex
    rng = ctx.rng
    out = hand_programs() + alignment_family() + [(tag, p) for tag, p in gen_design.corpus()]
    n += len(out)              # n generated programs on top of the fixed ones
    shapes = ["cross", "multi", "repeat", "merge", "nest", "cross", "repeat", "multi"]
    i = 0
    while len(out) < n:
        i += 1
        r = i % 10
        if r in (3, 6, 9):
            p = extra_programs(rng)
            tag = "x-" + p["shape"]
        elif r == 7:
            p, tag = nest_complex(rng), "nest-complex"
        else:
            shape = shapes[i % len(shapes)]
            feats = {"weighted_p": 0.25}
            if i % 3 == 1:
                feats["wtype"] = rng.choice(["transition", "window", "within"])
            p = gen_design.gen_program(rng, max_space=60000, shape=shape, features=feats)
            tag = shape
        if p is not None:
            out.append((tag, p))
    return out


# --------------------------------------------------------------------------- search

def main_kind(program):
    return {b["id"]: b for b in program["blocks"]}[program["main"]]["kind"]


def doc_trials(program):
    try:
        ds = docsem.doc_sem(program)
        if getattr(ds, "unsat", False):
            # require_complete_crossing with combinations that cannot occur: the design has no
            # valid sequence and the library reports an error at synthesis; the documentation
            # gives no trial count for it
            return ("unsupported", "complete crossing unsatisfiable")
        return ds.T
    except docsem.Unsupported as e:
        return ("unsupported", str(e))
    except Exception as e:  # noqa
        return ("unsupported", "docsem: %s" % type(e).__name__)


def length_check(program, strategies, n=2, timeout=6):
    """[(strategy, status, detail)]: status in ok | refused | timeout | empty | wrong-length | missing-factor.
    Every strategy but IterateSATGen runs in a forked child with a timeout: the C
    libraries of the uniform samplers may terminate the process, RandomGen and SMGen
    may search without bound."""
    names = ir.user_factor_names(program)
    out = []
    b = ir.build(program)
    blk = ir.main_block(b, program)
    if blk is None:
        return out
    with ir.quiet():
        T = blk.trials_per_sample()
    for s in strategies:
        if s == "IterateSATGen":
            b2 = ir.build(program)
            r = ir.synthesize(ir.main_block(b2, program), n, s)
        else:
            r = ir.synthesize_isolated(program, n, s, timeout=timeout)
        if r[0] == "crash":
            out.append((s, "timeout" if r[1] in (9, -9) else "refused", "process status %s" % (r[1],)))
            continue
        if r[0] != "ok":
            out.append((s, "refused", str(r[1])))
            continue
        status, detail = "ok", None
        for smp in r[1]:
            for nm in names:
                if nm not in smp:
                    status, detail = "missing-factor", nm
                elif len(smp[nm]) != T:
                    status, detail = "wrong-length", {"factor": nm, "entries": len(smp[nm]), "trials_per_sample": T,
                                                      "sample": {k: list(v) for k, v in smp.items() if isinstance(k, str)}}
                    break
            if status != "ok":
                break
        if status == "ok" and not r[1]:
            status = "empty"
        out.append((s, status, detail))
    return out


# --------------------------------------------------------------------------- run / replay

def run(ctx, res):
    n = 120 if ctx.quick else 650
    nlen = 36 if ctx.quick else 140
    progs = gen_programs(ctx, n)
    lstep = max(1, len(progs) // nlen)
    res.rule = ("%d generated programs (+ a deterministic family of 144 MultiCrossBlock / Merge / Nest programs with crossings of "
                "different sizes and preambles under POST_PREAMBLE / PARALLEL_START): gen_design.gen_program (cross/multi/repeat/merge/nest, derived factors within/transition/window, all "
                "constraint kinds, weights), c14.nest_complex, a structural family (Nest in Nest, Merge of 1-3 blocks with alignments, "
                "Repeat of MultiCrossBlock/Merge/Repeat, MinimumTrials at every level with Pin/AtLeastKInARow, empty crossings, crossed "
                "transitions under Nest/Repeat) and the corpus; every block of every program; non-trivial = a block whose trial count "
                "is not the plain product of level counts of one crossing; lengths on about %d of the programs (evenly spread) with every offline strategy"
                % (n, nlen))
    lines = []
    expect = []
    stats = {"blocks": 0, "rejected-blocks": 0, "doc-compared": 0, "doc-unsupported": 0, "length-runs": 0, "length-refused": 0, "wf_trials": 0, "not-wf_trials": 0,
             "sustain>1": 0, "preamble>0": 0, "min_trials>0": 0, "weights>1": 0}
    shapes = {}
    found = []
    for idx, (tag, p) in enumerate(progs):
        shapes[tag] = shapes.get(tag, 0) + 1
        key = json.dumps(p, sort_keys=True)
        try:
            built, rec, steps = instrumented_build(p)
        except Exception as e:  # noqa
            found.append(("harness", "harness error in instrumented_build: %s %s" % (type(e).__name__, str(e)[:200]), {}, p, False))
            continue
        nontrivial = False
        for st in steps:
            stats["blocks"] += 1
            lines.append("(create %s)" % st["exp"])
            expect.append(("create", (rec, st, built.blocks.get(st["bid"])), p))
            blk = built.blocks.get(st["bid"])
            if blk is None:
                stats["rejected-blocks"] += 1
                continue
            r = st["recorded"]
            try:
                w = flat.flat_wire(blk)
                real = real_trials_view(blk)
            except Exception as e:  # noqa
                found.append(("harness", "harness error reading block: %s %s" % (type(e).__name__, str(e)[:200]), {}, p, False))
                continue
            lines.append("(trials %s %s %s)" % (w, r["mode"], to_wire(list(r["weights"]))))
            expect.append(("trials", real, p))
            try:
                cl, ce = createflat_observation(rec, st, blk)
                lines.append(cl)
                expect.append(("createflat", ce, p))
                lines.append(inputok_line(cl))
                expect.append(("inputok", ce, p))
            except Exception as e:  # noqa
                found.append(("harness", "harness error in createflat_observation: %s %s" % (type(e).__name__, str(e)[:200]), {}, p, False))
            for fi, size, val in trreq_cases(blk):
                lines.append("(trreq %s %d %d)" % (w, fi, size))
                expect.append(("trreq", str(val), p))
            stats["sustain>1"] += any(x != 1 for x in blk.crossing_sustain_counts)
            stats["preamble>0"] += any(x != 0 for x in blk.preamble_sizes)
            stats["min_trials>0"] += blk.min_trials > 0
            stats["weights>1"] += any(x != 1 for x in blk.crossing_weights)
            if any(x != 1 for x in blk.crossing_sustain_counts) or any(blk.preamble_sizes) or blk.min_trials or \
                    len(blk.crossings) != 1:
                nontrivial = True
        res.count(key, nontrivial=nontrivial)
        blk = ir.main_block(built, p)
        if blk is None:
            continue
        # ---- search 1: documented arithmetic vs reported trial count
        with ir.quiet():
            T = blk.trials_per_sample()
        dT = doc_trials(p)
        if isinstance(dT, tuple):
            stats["doc-unsupported"] += 1
        elif any("WARNING" not in e for e in blk.errors):
            # the block itself reports an error (e.g. "Complete crossing unsatisfiable"): synthesis refuses it,
            # and the documentation does not say what its trial count is
            stats["doc-skipped-block-reports-error"] = stats.get("doc-skipped-block-reports-error", 0) + 1
        else:
            stats["doc-compared"] += 1
            if dT != T:
                sig, what = explain_trials(p, blk, dT, T)
                found.append((sig, what, {"documented": dT, "reported": T}, p, True))
        if len(res.samples) < 6 and nontrivial:
            res.sample({"shape": tag, "trials_per_sample": T, "documented": dT if not isinstance(dT, tuple) else "unsupported",
                        "preamble_sizes": list(blk.preamble_sizes), "crossing_weights": list(blk.crossing_weights),
                        "sustain": list(blk.crossing_sustain_counts), "min_trials": blk.min_trials})
        # ---- search 2: lengths of returned sequences
        if (idx < 4 or idx % lstep == 0) and T <= 40:
            for s, status, detail in length_check(p, STRATEGIES, n=2, timeout=(5 if ctx.quick else 8)):
                stats["length-runs"] += 1
                res.count(None, nontrivial=False)
                if status in ("refused", "timeout", "empty"):
                    stats["length-" + status] = stats.get("length-" + status, 0) + 1
                elif status == "wrong-length":
                    # Repeat, Merge and Nest all repeat crossings through _create's REPEAT machinery: one signature
                    found.append(("length:%s:%s" % (s, "Repeat" if main_kind(p) in ("Repeat", "Merge", "Nest") else main_kind(p)),
                                  "%s returns a sequence with %d entries for factor %s of a %s block whose trials_per_sample() is %d"
                                  % (s, detail["entries"], detail["factor"], main_kind(p), detail["trials_per_sample"]),
                                  dict(detail, strategy=s), p, True))
                elif status == "missing-factor":
                    found.append(("length:%s:missing-factor" % s, "%s returns a sequence without user factor %s" % (s, detail),
                                  {"strategy": s, "factor": detail}, p, True))
    outs = ctx.model(lines) if lines else []
    corr_bad = []
    for (kind, real, p), mod in zip(expect, outs):
        if kind == "create":
            rec, st, blk = real
            rv = real_create_view(rec, st)
            try:
                mv = model_create_view(mod)
            except Exception:  # noqa
                mv = ("!" + mod, [])
            ok = (rv == mv[0])
            if ok and st["recorded"] is not None:
                for obj, o in zip(st["recorded"]["constraint_objs"], mv[1]):
                    if o not in possible_origins(st, obj):
                        ok = False
                        rv += " origins differ"
                if ok and blk is not None:
                    # what _create keeps: filtered crossings, Sustain() iff some count != 1, factor_to_sustain_count
                    if blk.design == blk.orig_design:
                        oc = [[rec.fid(f) for f in c] for c in blk.orig_crossings]
                        if oc != mv[2]:
                            ok, rv = False, rv + " normcrossings %r vs %r" % (oc, mv[2])
                        fsc = {rec.fid(f): n for f, n in blk.factor_to_sustain_count.items()}
                        if fsc != {a: b for a, b in mv[4]}:
                            ok, rv = False, rv + " sustain map %r vs %r" % (fsc, mv[4])
                    has = any(type(c).__name__ == "Sustain" for c in blk.constraints)
                    if has != mv[3]:
                        ok, rv = False, rv + " Sustain() %r vs %r" % (has, mv[3])
            res.layer("L1-create", ok)
            if not ok:
                corr_bad.append(("create", p, rv, mv[0]))
        elif kind == "createflat":
            ok = (real == mod)
            res.layer("L1-createflat", ok)
            if ok:
                stats["createflat:" + ("unsupported-desugar" if mod.startswith("(error") else "ok")] = \
                    stats.get("createflat:" + ("unsupported-desugar" if mod.startswith("(error") else "ok"), 0) + 1
            else:
                corr_bad.append(("createflat", p, first_diff(real, mod), ""))
        elif kind == "inputok":
            inputok_count(stats, real, mod)
        elif kind == "trials":
            mv = model_trials_view(mod)
            ok = (real == mv)
            res.layer("L1-trials", ok)
            # hypothesis of the C16 theorems on the real flat record (wf_trials_b, proved sound in Coq)
            stats["wf_trials" if mod.split()[-2] == "true" else "not-wf_trials"] += 1
            if not ok:
                corr_bad.append(("trials", p, real, mv))
        else:
            ok = (real == mod)
            res.layer("L1-trreq", ok)
            if not ok:
                corr_bad.append(("trreq", p, real, mod))
        res.count(None, nontrivial=False)
    res.extra["input_distribution"] = {"shapes": shapes, "stats": stats}
    seen = set()
    for sig, what, detail, p, concrete in found:
        if sig in seen:
            continue
        seen.add(sig)
        res.violations.append(Violation(sig, what + "  program=" + json.dumps(p, sort_keys=True)[:900],
                                        {"program": p, "detail": detail, "sig": sig}, failing_input=concrete))
    if corr_bad:
        kind, p, real, mod = corr_bad[0]
        res.violations.append(Violation(
            "corr:L1-" + kind, "model Front/%s.v and the real constructors disagree on %d observations, first: real=%s model=%s"
            % ({"create": "Create", "createflat": "CreateFlat"}.get(kind, "Trials"), len(corr_bad), real[:300], mod[:300]),
            {"layer": "L1-" + kind, "program": p, "real": real[:2000], "model": mod[:2000], "theorems": ["C16_*"]}, failing_input=False))
        res.notes.append("model/code disagreements: %d (first layer L1-%s: real=%s model=%s)" % (
            len(corr_bad), corr_bad[0][0], corr_bad[0][2][:200], corr_bad[0][3][:200]))
    res.notes.append("L1: _create arguments per constructor (Front/Create.v), trial arithmetic on the flat record (Front/Trials.v); "
                     "search: documented trial count (docsem) vs trials_per_sample(), lengths of sequences from %s" % (", ".join(STRATEGIES),))


def explain_trials(p, blk, dT, T):
    kind = main_kind(p)
    cs = {c["id"]: c for c in p.get("constraints", [])}
    mainb = {b["id"]: b for b in p["blocks"]}[p["main"]]
    kinds = sorted(set(type(c).__name__ for c in blk.constraints))
    early = [k for k in kinds if k in ("Pin", "AtLeastKInARow")]
    with ir.quiet():
        sus = list(blk.crossing_sustain_counts)
    if early and blk.min_trials > T and any(s > 1 for s in sus):
        return ("trials:min-rounding-skipped",
                "%s block reports %d trials although its own min_trials (MinimumTrials rounded up to the sustain counts %r) is %d "
                "and the documented count is %d: trials_per_sample() was cached during validation of %s before min_trials was "
                "rounded" % (kind, T, sus, blk.min_trials, dT, "/".join(early)))
    import causes
    cause = "crossed-derived-reads-derived" if causes.crossed_derived_reads_derived(p) and T > dT else None
    if cause is None and causes.alignment_preamble(p):
        # POST_PREAMBLE: the code delays every crossing by the start of an UNCROSSED complex factor
        # (_alignment_preamble), the documentation only by the crossings' own preambles
        # (root cause of the open findings of C17 / C05 / C24 / C26)
        cause = "alignment-preamble"
    if cause:
        # a crossed within-trial derived factor that reads another derived factor: combinations that are
        # impossible only through the chain are not recognised (root cause of open findings of C02/C08/C09),
        # so the code's crossing size exceeds the documented one
        kind = "cause=" + cause
    return ("trials:differs:%s" % kind,
            "%s block reports trials_per_sample() = %d, the documented arithmetic gives %d (crossing sizes %r, preambles %r, "
            "sustain %r, weights %r, min_trials %r)" % (kind, T, dT, list(blk.crossing_sizes), list(blk.preamble_sizes), sus,
                                                        list(blk.crossing_weights), blk.min_trials))


def replay(ctx, data):
    if "program" not in data:
        # a broken-tie replay (no failing input): re-run the audit of the theorem file
        import common
        return bool(common.property_audit(ctx.prop)[4])
    p = data["program"]
    sig = data.get("sig", "")
    if sig.startswith("length:"):
        s = sig.split(":")[1]
        for st, status, detail in length_check(p, (s,), n=2):
            if status in ("wrong-length", "missing-factor"):
                return True
        return False
    b = ir.build(p)
    blk = ir.main_block(b, p)
    if blk is None:
        return False
    with ir.quiet():
        T = blk.trials_per_sample()
    dT = doc_trials(p)
    return (not isinstance(dT, tuple)) and dT != T and not any("WARNING" not in e for e in blk.errors)
