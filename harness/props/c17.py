"""C17 - The mismatch checker accepts exactly the valid sequences.

Theorems: coq/theories/Properties/C17.v (about Check/Mismatch.v, Design/Sem.v).
Correspondence L7: `sample_mismatch_experiment(block, sample)` of the real block
vs. the extracted `Check.Mismatch.mismatch` on the flat record extracted from
the *same* real block, on every valid sequence the reference oracle enumerates
(cap per program) and on systematic single-site perturbations of them; compared
are the exception class, the trial-count verdict, and the three mismatch lists
literally (factor names, constraint pretty-names, crossing strings).
Search (the property itself): on every candidate of the property's domain (one
level name per trial for every user-visible factor, '' exactly where a derived
factor does not apply) "the real checker reports no mismatch" must equal
`Sem.valid_b (doc_sem program) candidate`; the oracle never reads the real block.
"""
import collections
import json
import signal

import common
import designrun
import docsem
import flat
import gen_design
import ir
from common import Violation

TITLE = "mismatch checker accepts exactly the valid sequences"
LEVEL = "proof"
DOMAINS = ['Check', 'Design']

CAP_VALID = 300

# the conjuncts of DerivedFrag.efrag_why, in order
EFRAG_WHY = ["hidden-factor", "factor-without-level", "derived-from-factor-absent-in-some-trial", "sustain-not-dividing-trials",
             "sustain-constraint-missing", "LatinSquare-or-ExactlyKMultipleInARow",
             "constraint-guard(ranges/pin/sequential-preamble)", "crossing-size-is-not-the-weight-of-the-unexcluded-combinations",
             "crossing-geometry-or-crossed-factor-absent-after-preamble"]
# the conjuncts of DerivedFrag.dfrag_why, in order
DFRAG_WHY = ["hidden-factor", "factor-without-level", "derived-from-factor-absent-in-some-trial", "sustain-not-dividing-trials",
             "sustain-constraint-missing", "LatinSquare-or-ExactlyKMultipleInARow", "Exclude-of-crossed-factor",
             "constraint-guard(ranges/pin/sequential-preamble)", "crossing-with-excluded-or-impossible-combination",
             "crossing-geometry", "crossed-factor-absent-after-preamble"]


# --------------------------------------------------------------------------- programs

def own_corpus():
    out = []
    s = {"id": 0, "name": "s", "kind": "simple", "levels": [["s0", 1], ["s1", 1]]}
    a = {"id": 1, "name": "A", "kind": "simple", "levels": [["a0", 1], ["a1", 1]]}
    # known finding: Sequential under Nest (sustain > 1)
    out.append(("nest-sequential", {
        "factors": [s, a], "constraints": [{"id": 0, "kind": "Sequential", "factor": 0}],
        "blocks": [{"id": 0, "kind": "CrossBlock", "design": [0], "crossing": [0], "constraints": [0], "rcc": True},
                   {"id": 1, "kind": "CrossBlock", "design": [1], "crossing": [1], "constraints": [], "rcc": True},
                   {"id": 2, "kind": "Nest", "outer": 0, "inner": 1, "constraints": []}], "main": 2}))
    s3 = {"id": 0, "name": "s", "kind": "simple", "levels": [["s0", 1], ["s1", 1], ["s2", 1]]}
    out.append(("nest-sequential-3", {
        "factors": [s3, a], "constraints": [{"id": 0, "kind": "Sequential", "factor": 0}],
        "blocks": [{"id": 0, "kind": "CrossBlock", "design": [0], "crossing": [0], "constraints": [0], "rcc": True},
                   {"id": 1, "kind": "CrossBlock", "design": [1], "crossing": [1], "constraints": [], "rcc": True},
                   {"id": 2, "kind": "Nest", "outer": 0, "inner": 1, "constraints": []}], "main": 2}))
    # Sequential without sustain
    out.append(("sequential-plain", {
        "factors": [s3, a], "constraints": [{"id": 0, "kind": "Sequential", "factor": 0}],
        "blocks": [{"id": 0, "kind": "CrossBlock", "design": [0, 1], "crossing": [0, 1], "constraints": [0], "rcc": True}],
        "main": 0}))
    # weighted crossing with MinimumTrials: full chunk + partial chunk
    w = {"id": 0, "name": "w", "kind": "simple", "levels": [["x", 2], ["y", 1]]}
    out.append(("weighted-crossing-partial-chunk", {
        "factors": [w, a], "constraints": [{"id": 0, "kind": "MinimumTrials", "trials": 8}],
        "blocks": [{"id": 0, "kind": "CrossBlock", "design": [0, 1], "crossing": [0, 1], "constraints": [0], "rcc": True}],
        "main": 0}))
    # weighted factor outside the crossing (desugared: hidden factor) with a constraint on it
    out.append(("weighted-uncrossed-constrained", {
        "factors": [w, a], "constraints": [{"id": 0, "kind": "AtMostKInARow", "k": 2, "level": [0, "x"]}],
        "blocks": [{"id": 0, "kind": "CrossBlock", "design": [0, 1], "crossing": [1], "constraints": [0], "rcc": True}],
        "main": 0}))
    out.append(("weighted-uncrossed-plain", {
        "factors": [w, a], "constraints": [],
        "blocks": [{"id": 0, "kind": "CrossBlock", "design": [0, 1], "crossing": [1], "constraints": [], "rcc": True}],
        "main": 0}))
    d = {"id": 2, "name": "d", "kind": "derived", "window": {"type": "within", "deps": [0]},
         "levels": [{"name": "isx", "table": [[["x"]]]}, {"name": "noty", "else": True}]}
    out.append(("weighted-uncrossed-derived", {
        "factors": [w, a, d], "constraints": [],
        "blocks": [{"id": 0, "kind": "CrossBlock", "design": [0, 1, 2], "crossing": [1], "constraints": [], "rcc": True}],
        "main": 0}))
    # excluded combination, incomplete crossing
    b3 = {"id": 0, "name": "b", "kind": "simple", "levels": [["p", 1], ["q", 1], ["r", 1]]}
    out.append(("exclude-incomplete", {
        "factors": [b3, a], "constraints": [{"id": 0, "kind": "Exclude", "level": [0, "r"]},
                                            {"id": 1, "kind": "MinimumTrials", "trials": 6}],
        "blocks": [{"id": 0, "kind": "CrossBlock", "design": [0, 1], "crossing": [0, 1], "constraints": [0, 1], "rcc": False}],
        "main": 0}))
    # excluded combinations + several rounds of the crossing (Repeat, Merge in REPEAT mode): where a round ends
    # depends on the crossing size WITH exclusions (seeded change C17-round-length-ignores-exclusions)
    out.append(("exclude-incomplete-repeat", {
        "factors": [b3, a], "constraints": [{"id": 0, "kind": "Exclude", "level": [0, "r"]},
                                            {"id": 1, "kind": "MinimumTrials", "trials": 8}],
        "blocks": [{"id": 0, "kind": "CrossBlock", "design": [0], "crossing": [0], "constraints": [0], "rcc": False},
                   {"id": 1, "kind": "Repeat", "block": 0, "constraints": [1]}],
        "main": 1}))
    out.append(("exclude-incomplete-multi-repeat", {
        "factors": [b3, a], "constraints": [{"id": 0, "kind": "Exclude", "level": [0, "r"]}],
        "blocks": [{"id": 0, "kind": "MultiCrossBlock", "design": [0, 1], "crossings": [[0, 1], [0]], "constraints": [0], "rcc": False,
                    "mode": "repeat", "alignment": "equal preamble"}], "main": 0}))
    # numeric level names, including the falsy ones 0 and 0.0 (a level named 0 is not the empty cell;
    # seed C17-falsy-level-name-blank)
    for tag, names in (("int", [0, 1]), ("float", [0.0, 0.5])):
        num = {"id": 0, "name": "n", "kind": "simple", "levels": [[names[0], 1], [names[1], 1]]}
        out.append(("numeric-level-names-" + tag, {
            "factors": [num, a], "constraints": [{"id": 0, "kind": "AtMostKInARow", "k": 1, "level": [0, names[0]]}],
            "blocks": [{"id": 0, "kind": "CrossBlock", "design": [0, 1], "crossing": [0, 1], "constraints": [0], "rcc": True}],
            "main": 0}))
    # pins
    for idx in (0, -1, 3, 4, -4, -5):
        out.append(("pin-%d" % idx, {
            "factors": [s, a], "constraints": [{"id": 0, "kind": "Pin", "index": idx, "level": [0, "s1"]}],
            "blocks": [{"id": 0, "kind": "CrossBlock", "design": [0, 1], "crossing": [0, 1], "constraints": [0], "rcc": True}],
            "main": 0}))
    # a factor in two crossings + Sequential (factor_preamble_size)
    f3 = {"id": 0, "name": "f0", "kind": "simple", "levels": [["a0", 1], ["b0", 1], ["c0", 1]]}
    out.append(("sequential-factor-in-two-crossings", {
        "factors": [f3], "constraints": [{"id": 0, "kind": "Sequential", "factor": 0}],
        "blocks": [{"id": 0, "kind": "MultiCrossBlock", "design": [0], "crossings": [[0], [0]], "constraints": [0], "rcc": True,
                    "mode": "weight", "alignment": "post preamble"}], "main": 0}))
    tr = {"id": 1, "name": "tr", "kind": "derived", "window": {"type": "transition", "deps": [0]},
          "levels": [{"name": "same", "table": [[["a0", "a0"]], [["b0", "b0"]], [["c0", "c0"]]], "weight": 1},
                     {"name": "diff", "else": True, "weight": 1}]}
    out.append(("sequential-two-crossings-different-preambles", {
        "factors": [f3, tr], "constraints": [{"id": 0, "kind": "Sequential", "factor": 0}],
        "blocks": [{"id": 0, "kind": "MultiCrossBlock", "design": [0, 1], "crossings": [[0], [0, 1]], "constraints": [0], "rcc": False,
                    "mode": "weight", "alignment": "parallel start"}], "main": 0}))
    # POST_PREAMBLE with an uncrossed window factor that starts late
    g0 = {"id": 0, "name": "f0", "kind": "simple", "levels": [["a0", 1], ["b0", 1]]}
    g1 = {"id": 1, "name": "f1", "kind": "simple", "levels": [["a1", 1], ["b1", 1]]}
    d4 = {"id": 2, "name": "d4", "kind": "derived", "window": {"type": "window", "deps": [0], "width": 2, "stride": 1, "start": 1},
          "levels": [{"name": "L4_0", "table": [[["a0", "a0"]], [["a0", "b0"]]], "weight": 1}, {"name": "L4_1", "else": True, "weight": 1}]}
    out.append(("post-preamble-uncrossed-window", {
        "factors": [g0, g1, d4], "constraints": [],
        "blocks": [{"id": 0, "kind": "MultiCrossBlock", "design": [0, 1, 2], "crossings": [[0], [1]], "constraints": [], "rcc": True,
                    "mode": "equal", "alignment": "post preamble"}], "main": 0}))
    # Exclude of an uncrossed basic level makes a crossed derived level impossible
    e1 = {"id": 1, "name": "d1", "kind": "derived", "window": {"type": "within", "deps": [0]},
          "levels": [{"name": "L1_0", "table": [[["b0"]]], "weight": 1}, {"name": "L1_1", "else": True, "weight": 1}]}
    out.append(("exclude-basic-under-crossed-derived", {
        "factors": [g0, e1], "constraints": [{"id": 0, "kind": "Exclude", "level": [0, "a0"]},
                                             {"id": 1, "kind": "MinimumTrials", "trials": 3}],
        "blocks": [{"id": 0, "kind": "CrossBlock", "design": [0, 1], "crossing": [1], "constraints": [0, 1], "rcc": False}],
        "main": 0}))
    # latin square
    out.append(("latin-2x3", {
        "factors": [s, {"id": 1, "name": "t", "kind": "simple", "levels": [["t0", 1], ["t1", 1], ["t2", 1]]}],
        "constraints": [{"id": 0, "kind": "LatinSquare", "factors": [0, 1]}],
        "blocks": [{"id": 0, "kind": "CrossBlock", "design": [0, 1], "crossing": [0, 1], "constraints": [0], "rcc": True}],
        "main": 0}))
    return out


def programs(ctx):
    out = []
    for name, p in gen_design.corpus():
        out.append(("corpus:" + name, p))
    for name, p in own_corpus():
        out.append(("corpus17:" + name, p))
    shapes = ["cross", "cross", "cross", "multi", "repeat", "merge", "nest"]
    n = 210 if ctx.quick else 2100
    for i in range(n):
        sh = shapes[i % len(shapes)]
        feats = {}
        if i % 5 == 0:
            feats["weighted_p"] = 0.4
        p = gen_design.gen_program(ctx.rng, 20000, shape=sh, features=feats)
        if p is not None:
            out.append((sh, p))
    return out


# --------------------------------------------------------------------------- candidates

def applies_table(ds):
    """per factor (Sem order) the list of booleans 'applies at trial t' (documentation side)."""
    Tn = ds.T
    out = []
    for spec in ds.sem[1]:
        nl, su, win = spec
        if win is None:
            out.append([True] * Tn)
        else:
            _, width, stride, start, _ = win
            row = []
            for t in range(Tn):
                g = t // su
                row.append(g >= start and (g - start) % stride == 0)
            out.append(row)
    return out


def in_domain(ds, app, seq):
    """One level name per trial for every user-visible factor, '' exactly where a derived factor does not apply."""
    if len(seq) != len(ds.forder):
        return False
    for row, ap, spec in zip(seq, app, ds.sem[1]):
        if len(row) != ds.T:
            return False
        for v, a in zip(row, ap):
            if a != (v >= 0) or v >= spec[0]:
                return False
    return True


def random_complete(ctx, ds, app):
    """A random candidate of the domain whose derived cells follow the documented tables (Sem.derive_row):
    basic factors random per sustain group, derived factors the first accepting level ('' where none accepts,
    which leaves the domain)."""
    rng = ctx.rng
    Tn = ds.T
    rows = []
    for fi, spec in enumerate(ds.sem[1]):
        nl, su, win = spec
        if win is None:
            groups = [rng.randrange(nl) for _ in range(-(-Tn // su))]
            rows.append([groups[t // su] for t in range(Tn)])
            continue
        deps, width, stride, start, table = win
        row = []
        for t in range(Tn):
            if not app[fi][t]:
                row.append(-1)
                continue
            t0 = (t // su) * su
            args = []
            for d in deps:
                col = []
                for j in range(width):
                    back = (width - 1 - j) * su
                    col.append(rows[d][t0 - back] if back <= t0 and d < len(rows) else -1)
                args.append(col)
            hit = [l for l in range(nl) if args in table[l]]
            row.append(hit[0] if hit else -1)
        rows.append(row)
    return rows


def perturbations(ctx, ds, app, seq, budget):
    """Single-site perturbations of one sequence: (kind, new sequence)."""
    rng = ctx.rng
    out = []
    nf = len(seq)
    Tn = ds.T
    # change one cell to another level (every site)
    for f in range(nf):
        nl = ds.sem[1][f][0]
        for t in range(Tn):
            if seq[f][t] >= 0:
                for l in range(nl):
                    if l != seq[f][t]:
                        q = [list(r) for r in seq]
                        q[f][t] = l
                        out.append(("change", q))
                if ds.sem[1][f][2] is not None:
                    q = [list(r) for r in seq]
                    q[f][t] = -1
                    out.append(("blank-derived", q))
                else:
                    if rng.random() < 0.15:
                        q = [list(r) for r in seq]
                        q[f][t] = -1
                        out.append(("blank-basic", q))
            else:
                for l in range(nl):
                    q = [list(r) for r in seq]
                    q[f][t] = l
                    out.append(("fill-blank", q))
    # swap two trials (all factors)
    for t1 in range(Tn):
        for t2 in range(t1 + 1, Tn):
            if t2 == t1 + 1 or rng.random() < 0.3:
                q = [list(r) for r in seq]
                for f in range(nf):
                    q[f][t1], q[f][t2] = q[f][t2], q[f][t1]
                if q != seq:
                    out.append(("swap-trials", q))
    # swap two cells of one factor
    for f in range(nf):
        for t1 in range(Tn - 1):
            if seq[f][t1] != seq[f][t1 + 1] and rng.random() < 0.5:
                q = [list(r) for r in seq]
                q[f][t1], q[f][t1 + 1] = q[f][t1 + 1], q[f][t1]
                out.append(("swap-cells", q))
    # truncate / extend one factor's list by one
    for f in range(nf):
        q = [list(r) for r in seq]
        q[f] = q[f][:-1]
        out.append(("truncate", q))
        q = [list(r) for r in seq]
        q[f] = q[f] + [q[f][-1] if q[f] else 0]
        out.append(("extend", q))
    if len(out) > budget:
        keep = [x for x in out if x[0] in ("truncate", "extend")][:2]
        rest = [x for x in out if x[0] not in ("truncate", "extend")]
        rng.shuffle(rest)
        out = keep + rest[:max(0, budget - len(keep))]
    return out


# --------------------------------------------------------------------------- real side

class _Timeout(Exception):
    pass


def _alarm(signum, frame):
    raise _Timeout()


def real_verdict(block, sample):
    """Canonical verdict of the real checker."""
    from sweetpea import sample_mismatch_experiment
    old = signal.signal(signal.SIGALRM, _alarm)
    signal.alarm(10)
    try:
        with ir.quiet():
            r = sample_mismatch_experiment(block, sample)
    except _Timeout:
        return ("error", "timeout")
    except Exception as e:  # noqa
        return ("error", type(e).__name__)
    finally:
        signal.alarm(0)
        signal.signal(signal.SIGALRM, old)
    if "trial_count" in r:
        return ("trialcount",)
    return ("lists", [str(x) for x in r.get("factors", [])], [str(x) for x in r.get("constraints", [])],
            [str(x) for x in r.get("crossings", [])])


def pretty_constraint(c):
    n = c.__class__.__name__
    if hasattr(c, "k"):
        n += ", %s" % (c.k,)
    if hasattr(c, "level"):
        n += ", %s" % (c.level,)
    return n


def cand_wire(block, sample):
    """The converted dictionary the way convert_sample_from_names_to_objects resolves names:
    first factor of the design with the key's name, first level with the cell's name."""
    design = list(block.design)
    ents = []
    for key, cells in sample.items():
        fi = None
        for i, f in enumerate(design):
            if key == f.name:
                fi = i
                break
        if fi is None:
            return None
        levels = list(design[fi].levels)
        row = []
        for v in cells:
            if v == "":
                row.append(-1)
                continue
            li = len(levels)
            for j, l in enumerate(levels):
                if v == l.name:
                    li = j
                    break
            row.append(li)
        # the same factor object can sit at several positions of block.design (weight desugaring lists a
        # rebuilt derived factor twice): the dictionary answers for every position holding that object
        for i, f in enumerate(design):
            if f is design[fi]:
                ents.append([i, row])
    return ents


def model_verdict(block, r):
    """One parsed model verdict in the canonical form of real_verdict."""
    if r == "trialcount":
        return ("trialcount",)
    if r[0] == "error":
        return ("error", r[1])
    design = list(block.design)
    return ("lists", [str(design[i].name) for i in r[1]], [pretty_constraint(block.constraints[i]) for i in r[2]],
            [str(block.crossings[i]) for i in r[3]])


UNDETERMINED = ("pred-domain", "layout", "loop")


def rows_wire(block, sample):
    """The candidate as rows in the order of block.design (input of theorem C17_mismatch_iff_valid), or None
    when the design has hidden / repeated factors or the sample lacks one."""
    from sweetpea._internal.primitive import HiddenName
    design = list(block.design)
    rows = []
    seen = set()
    for f in design:
        if isinstance(f.name, HiddenName) or f.name in seen or f.name not in sample:
            return None
        seen.add(f.name)
        levels = list(f.levels)
        row = []
        for v in sample[f.name]:
            if v == "":
                row.append(-1)
                continue
            li = len(levels)
            for j, l in enumerate(levels):
                if v == l.name:
                    li = j
                    break
            row.append(li)
        rows.append(row)
    return rows


# --------------------------------------------------------------------------- classification of failures

def classify(program, block, ds, seq, valid, real):
    """Stable signature of a disagreement between the real checker and the oracle."""
    from sweetpea._internal.primitive import HiddenName
    if real[0] == "error":
        names = [str(f.name.name) if isinstance(f.name, HiddenName) else str(f.name) for f in block.design]
        feat = ""
        if real[1] == "KeyError":
            visible = [n for f, n in zip(block.design, names) if not isinstance(f.name, HiddenName)]
            if len(visible) != len(names):
                feat = ":hidden-factor"
            elif len(set(visible)) != len(visible):
                feat = ":duplicate-factor"
        if real[1] == "IndexError":
            feat = ":window-overrun"
        if real[1] == "ValueError":
            flat_cr = [f for c in block.crossings for f in c]
            if any(flat_cr.count(f) > 1 for f in flat_cr):
                feat = ":factor-in-two-crossings"
        return "mismatch:raises:%s%s" % (real[1], feat)
    if valid:
        if real[0] == "trialcount":
            return "mismatch:valid-flagged:trial_count"
        _, fs, cs, xs = real
        if cs:
            cls = cs[0].split(",")[0]
            su = ""
            if cls in ("Sequential", "LatinSquare") and any(n != 1 for n in block.crossing_sustain_counts):
                su = ":sustain"
            return "mismatch:%s%s" % (cls, su or ":valid-flagged")
        if fs:
            return "mismatch:factors:valid-flagged"
        from sweetpea._internal.cross_block import AlignmentMode
        if block.alignment == AlignmentMode.POST_PREAMBLE and block._alignment_preamble > max(block.preamble_sizes + [0]):
            # same root cause as the accepts-invalid direction: an uncrossed complex factor delays every crossing
            return "mismatch:crossing:valid-flagged:alignment-preamble"
        if code_chunks(block) != doc_chunks(block, ds):
            # the crossing geometry itself (chunk length / multiplicities: properties C16, C23) differs from the documentation
            return "mismatch:crossing:valid-flagged:chunk-differs"
        return "mismatch:crossing:valid-flagged"
    # invalid but accepted: which part of the reference semantics rejects
    why = designrun.oracle_why(ds, seq)
    try:
        parts = common.parse_sexp(why)
        from sweetpea._internal.cross_block import AlignmentMode
        feat = ""
        if block.alignment == AlignmentMode.POST_PREAMBLE and block._alignment_preamble > max(block.preamble_sizes + [0]):
            # an uncrossed derived factor with a start delays every crossing in the code, not in the documentation
            feat = ":alignment-preamble"
        if not all(x == "true" for x in parts[0]):
            return "mismatch:accepts-invalid:factor"
        if not all(x == "true" for x in parts[1]):
            return "mismatch:accepts-invalid:crossing" + feat
        for ok, c in zip(parts[2], ds.sem[3]):
            if ok != "true":
                return "mismatch:accepts-invalid:%s%s" % (c[0][0].s, feat)
    except Exception:  # noqa
        pass
    return "mismatch:accepts-invalid"


def delayed_by_uncrossed(block):
    """POST_PREAMBLE with an uncrossed complex factor that starts later than every crossing (known finding
    mismatch:accepts-invalid:crossing:alignment-preamble: the code reading differs from the documentation)."""
    from sweetpea._internal.cross_block import AlignmentMode
    return block.alignment == AlignmentMode.POST_PREAMBLE and block._alignment_preamble > max(block.preamble_sizes + [0])


def code_chunks(block):
    """(first trial, chunk length, sustain x weight) per crossing as the checker uses them."""
    from sweetpea._internal.cross_block import AlignmentMode
    out = []
    for i, c in enumerate(block.crossings):
        start = block.preamble_size() if block.alignment is AlignmentMode.POST_PREAMBLE else block.preamble_sizes[i]
        w = block.crossing_weight(c)
        out.append((start, block.crossing_sizes[i] * w, w * block.crossing_sustain_count(c)))
    return out


def doc_chunks(block, ds):
    """The same triple from the documentation side (mult of a combination of weight-1 levels = cw x sustain)."""
    out = []
    for c, cd in zip(ds.sem[2], ds.block.crossings):
        out.append((c[1], c[2], cd["cw"] * cd["su"]))
    return out


# --------------------------------------------------------------------------- one program

def prepare(ctx, res, stats, name, program):
    try:
        ds = docsem.doc_sem(program)
    except docsem.Unsupported:
        stats["programs:doc-unsupported"] += 1
        return None
    built = ir.build(program)
    blk = ir.main_block(built, program)
    if blk is None:
        stats["programs:constructor-rejects"] += 1
        return None
    with ir.quiet():
        try:
            w = flat.flat_wire(blk)
        except Exception as e:  # noqa
            stats["programs:flat-failed:" + type(e).__name__] += 1
            return None
    with ir.quiet():
        T_real = blk.trials_per_sample()
    accepted = not any("WARNING" not in e for e in blk.errors)   # show_errors() would make every sampler refuse
    stats["programs:accepted" if accepted else "programs:show_errors-refuses"] += 1
    return {"name": name, "program": program, "ds": ds, "block": blk, "flat": w, "accepted": accepted, "T_real": T_real}


def run(ctx, res):
    res.rule = ("programs: hand-written corpus + gen_design.gen_program(max_space 20000) over all block shapes; candidates: every "
                "valid sequence of the reference oracle (cap %d per program) and single-site perturbations (change a cell, blank/fill "
                "a cell, swap trials/cells, truncate/extend a list) of a sample of them; non-trivial = candidate of a program with "
                "at least one constraint, derived factor or crossing; distinct by (program, candidate)" % CAP_VALID)
    stats = collections.Counter()
    progs = []
    for name, p in programs(ctx):
        pr = prepare(ctx, res, stats, name, p)
        if pr is not None:
            progs.append(pr)
    # oracle: all valid sequences per program (one model call)
    outs = ctx.model(["(allvalid %s)" % docsem.to_wire(pr["ds"].sem) for pr in progs])
    budget_base = 8 if ctx.quick else 14
    budget_pert = 60 if ctx.quick else 90
    for pr, line in zip(progs, outs):
        ds = pr["ds"]
        if line.startswith("!"):
            stats["programs:oracle-failed"] += 1
            pr["cands"] = []
            continue
        r = common.parse_sexp(line)
        valid = r[1]
        pr["n_valid"] = len(valid)
        stats["programs:with-valid" if valid else "programs:no-valid-sequence"] += 1
        app = applies_table(ds)
        pr["app"] = app
        cands = []
        order = list(range(len(valid)))
        if len(order) > CAP_VALID:
            ctx.rng.shuffle(order)
            order = sorted(order[:CAP_VALID])
        for i in order:
            cands.append(("valid", valid[i]))
        base = list(order)
        ctx.rng.shuffle(base)
        seen = set(json.dumps(q) for _, q in cands)
        for i in base[:budget_base]:
            for kind, q in perturbations(ctx, ds, app, valid[i], budget_pert):
                key = json.dumps(q)
                if key not in seen:
                    seen.add(key)
                    cands.append((kind, q))
        # random candidates whose derived cells are right (mostly invalid through crossings / constraints)
        nrand = (40 if ctx.quick else 80) if valid else (80 if ctx.quick else 160)
        rbase = []
        for _ in range(nrand):
            q = random_complete(ctx, ds, app)
            key = json.dumps(q)
            if key not in seen:
                seen.add(key)
                cands.append(("random-complete", q))
                rbase.append(q)
        if not valid:
            for q in rbase[:3]:
                for kind, q2 in perturbations(ctx, ds, app, q, budget_pert // 2):
                    key = json.dumps(q2)
                    if key not in seen:
                        seen.add(key)
                        cands.append((kind, q2))
        pr["cands"] = cands
    # one model call: oracle verdicts and model verdicts
    lines = []
    for pr in progs:
        ds = pr["ds"]
        blk = pr["block"]
        qs = [q for _, q in pr["cands"]]
        pr["samples"] = [docsem.sample_of_seq(ds, q) for q in qs]
        wires = [cand_wire(blk, smp) for smp in pr["samples"]]
        pr["wires"] = wires
        lines.append("(valid %s %s)" % (docsem.to_wire(ds.sem), docsem.to_wire(qs)) if qs else "")
        lines.append("(mismatches %s %s)" % (pr["flat"], docsem.to_wire([w for w in wires if w is not None])) if qs else "")
        rws = [rows_wire(blk, smp) for smp in pr["samples"]]
        pr["rows"] = rws
        lines.append("(fragcheck %s %s)" % (pr["flat"], docsem.to_wire([r for r in rws if r is not None])) if qs else "")
    outs = ctx.model(lines)
    corr_bad = []
    found = {}
    for k, pr in enumerate(progs):
        if not pr["cands"]:
            continue
        ds, blk, program = pr["ds"], pr["block"], pr["program"]
        ov, mv, fv = outs[3 * k], outs[3 * k + 1], outs[3 * k + 2]
        if ov.startswith("!") or mv.startswith("!"):
            stats["programs:model-failed"] += 1
            corr_bad.append((pr["name"], program, None, "model/oracle command failed: %s %s" % (ov[:80], mv[:80])))
            res.layer("L7:mismatch-verdict", False)
            continue
        ovalid = [x == "true" for x in common.parse_sexp(ov)[0]]
        mlines = common.parse_sexp(mv)[0]
        mit = iter(mlines)
        # the fragment of theorem C17_mismatch_iff_valid, evaluated by the extracted definitions
        in_frag = False
        fit = iter(())
        if not fv.startswith("!"):
            fr = common.parse_sexp(fv)
            in_frag = (fr[0] == "true")
            fit = iter(fr[1])
        stats["theorem-fragment:programs:" + ("in" if in_frag else "out")] += 1
        frag_list = [(next(fit, None) if r is not None else None) for r in pr["rows"]]
        # the fragment of theorem C17_mismatch_iff_valid_derived (dfrag: nfrag + derived factors), same evaluation
        in_dfrag = False
        dit = iter(())
        if not fv.startswith("!") and len(fr) >= 5:
            in_dfrag = (fr[2] == "true")
            dit = iter(fr[4])
            if in_dfrag:
                has_derived = any(f["kind"] == "derived" for f in program["factors"])
                stats["theorem-fragment-derived:programs:in:" +
                      ("no-derived-factor" if in_frag else "within-trial-only" if fr[3] == "true" else "transition-or-window")] += 1
                if in_dfrag and not in_frag and not has_derived:
                    stats["theorem-fragment-derived:programs:in-without-derived-but-outside-nfrag"] += 1
            if in_frag and not in_dfrag:
                stats["theorem-fragment-derived:programs:nfrag-but-not-dfrag"] += 1
        stats["theorem-fragment-derived:programs:" + ("in" if in_dfrag else "out")] += 1
        if not in_dfrag and not fv.startswith("!") and len(fr) >= 6:
            # first failing conjunct of dfrag (DerivedFrag.dfrag_why)
            why = [x == "true" for x in fr[5]]
            first = why.index(False) if False in why else len(why)
            stats["theorem-fragment-derived:programs:out:" + (DFRAG_WHY[first] if first < len(DFRAG_WHY) else "?")] += 1
        dfrag_list = [(next(dit, None) if r is not None else None) for r in pr["rows"]]
        # the fragment of theorem C17_mismatch_iff_valid_excluded (efrag: dfrag + Exclude of crossed levels)
        in_efrag = False
        eit = iter(())
        if not fv.startswith("!") and len(fr) >= 9:
            in_efrag = (fr[6] == "true")
            eit = iter(fr[7])
            if in_dfrag and not in_efrag:
                stats["theorem-fragment-excluded:programs:dfrag-but-not-efrag"] += 1
            if in_efrag and not in_dfrag:
                stats["theorem-fragment-excluded:programs:in:beyond-dfrag"] += 1
            if not in_efrag:
                why = [x == "true" for x in fr[8]]
                first = why.index(False) if False in why else len(why)
                stats["theorem-fragment-excluded:programs:out:" + (EFRAG_WHY[first] if first < len(EFRAG_WHY) else "?")] += 1
        stats["theorem-fragment-excluded:programs:" + ("in" if in_efrag else "out")] += 1
        efrag_list = [(next(eit, None) if r is not None else None) for r in pr["rows"]]
        nontrivial = bool(program["constraints"]) or any(f["kind"] == "derived" for f in program["factors"]) or bool(blk.crossings)
        for (kind, q), smp, wv, valid, fragv, dfragv, efragv in zip(pr["cands"], pr["samples"], pr["wires"], ovalid, frag_list,
                                                                    dfrag_list, efrag_list):
            if wv is None:
                stats["cands:unresolvable-key"] += 1
                continue
            model = model_verdict(blk, next(mit))
            if model[0] == "error" and model[1] == "loop":
                stats["cands:model-says-nonterminating"] += 1
                continue
            real = real_verdict(blk, smp)
            res.count((pr["name"], json.dumps(program, sort_keys=True), json.dumps(q)), nontrivial=nontrivial)
            stats["kind:" + kind] += 1
            stats["real:" + (real[0] if real[0] != "error" else "error:" + real[1]) +
                  (":clean" if real == ("lists", [], [], []) else "")] += 1
            # --- correspondence L7
            if model[0] == "error" and model[1] in UNDETERMINED:
                stats["L7:undetermined:" + model[1]] += 1
            else:
                ok = (real == model)
                res.layer("L7:mismatch-verdict", ok)
                if not ok:
                    corr_bad.append((pr["name"], program, smp, "real %r model %r" % (real, model)))
            # --- the theorem instance: inside nfrag and wf_rowsb, no_mismatch = valid_b (code_sem_n fb), both extracted
            if in_frag and fragv is not None and fragv[0] == "true":
                ok_t = (fragv[1] == fragv[2])
                res.layer("theorem-instance:no_mismatch=valid_b(code_sem_n)", ok_t)
                if not ok_t:
                    corr_bad.append((pr["name"], program, smp, "extracted theorem instance fails: %r" % (fragv,)))
                stats["theorem-fragment:candidates"] += 1
                # code_sem_n fb vs doc_sem program on this candidate (T2: chunk geometry, windows, trial count)
                if (fragv[2] == "true") != valid:
                    stats["theorem-fragment:code_sem-vs-doc_sem-differ"] += 1
            # --- the same for C17_mismatch_iff_valid_derived: inside dfrag and wf_rowsb_d, no_mismatch = valid_b (code_sem_d fb)
            if in_dfrag and dfragv is not None and dfragv[0] == "true":
                ok_t = (dfragv[1] == dfragv[2])
                res.layer("theorem-instance:no_mismatch=valid_b(code_sem_d)", ok_t)
                if not ok_t:
                    corr_bad.append((pr["name"], program, smp, "extracted theorem instance (derived) fails: %r" % (dfragv,)))
                stats["theorem-fragment-derived:candidates"] += 1
                if not in_frag:
                    stats["theorem-fragment-derived:candidates:beyond-nfrag"] += 1
                if (dfragv[2] == "true") != valid:
                    stats["theorem-fragment-derived:code_sem-vs-doc_sem-differ"] += 1
                    stats["theorem-fragment-derived:code_sem-vs-doc_sem-differ:%s:%s" % (
                        pr["name"], "alignment-preamble" if delayed_by_uncrossed(blk) else "other")] += 1
            # --- the same for C17_mismatch_iff_valid_excluded: inside efrag and wf_rowsb_d, no_mismatch = valid_b (code_sem_x fb)
            if in_efrag and efragv is not None and efragv[0] == "true":
                ok_t = (efragv[1] == efragv[2])
                res.layer("theorem-instance:no_mismatch=valid_b(code_sem_x)", ok_t)
                if not ok_t:
                    corr_bad.append((pr["name"], program, smp, "extracted theorem instance (excluded) fails: %r" % (efragv,)))
                stats["theorem-fragment-excluded:candidates"] += 1
                if not in_dfrag:
                    stats["theorem-fragment-excluded:candidates:beyond-dfrag"] += 1
                if (efragv[2] == "true") != valid:
                    stats["theorem-fragment-excluded:code_sem-vs-doc_sem-differ"] += 1
                    if not in_dfrag:
                        stats["theorem-fragment-excluded:code_sem-vs-doc_sem-differ:%s:%s" % (
                            pr["name"], "trial-count-differs(C16)" if pr["T_real"] != ds.T else "other")] += 1
            # --- search: the property itself, on candidates of its domain
            dom = in_domain(ds, pr["app"], q)
            stats["domain:" + ("in" if dom else "out")] += 1
            real_clean = (real == ("lists", [], [], []))
            if dom and not pr["accepted"]:
                stats["search:skipped-design-not-accepted"] += 1
            elif dom and pr["T_real"] != ds.T:
                # the trial count itself is property C16; a documented-valid sequence of another length is
                # necessarily flagged 'trial_count'
                stats["search:skipped-trial-count-differs(C16)"] += 1
            elif dom:
                stats["oracle:" + ("valid" if valid else "invalid")] += 1
                bad = (real_clean != valid) and not (real[0] == "error" and not valid)
                if real[0] == "error" and not valid:
                    stats["search:raises-on-invalid:" + real[1]] += 1
                if bad:
                    sig = classify(program, blk, ds, q, valid, real)
                    stats["search:violation:" + sig] += 1
                    if sig not in found:
                        found[sig] = (pr["name"], program, smp, q, valid, real)
            else:
                if real_clean != valid and real[0] != "error":
                    stats["out-of-domain:" + ("accepted-invalid:" if real_clean else "flagged-valid:") + kind] += 1
                    if len(res.notes) < 3 and real_clean:
                        res.notes.append("outside the property's candidate domain (%s): checker reports no mismatch for %s of %s"
                                         % (kind, json.dumps(smp), pr["name"]))
        if len(res.samples) < 6 and pr["cands"]:
            res.sample({"program": pr["name"], "trials": ds.T, "valid_sequences": pr.get("n_valid"),
                        "candidates": len(pr["cands"])})
    for sig, (name, program, smp, q, valid, real) in sorted(found.items()):
        what = ("%s: candidate %s is %s by the reference semantics but sample_mismatch_experiment returns %s (program %s)"
                % (name, json.dumps(smp), "valid" if valid else "INVALID", _show_real(real), json.dumps(program)))
        res.violations.append(Violation(sig, what, {"program": program, "sample": smp, "seq": q, "oracle_valid": valid,
                                                    "real": list(real)}))
    if corr_bad:
        name, program, smp, why = corr_bad[0]
        res.violations.append(Violation(
            "corr:L7", "model Check/Mismatch.v and sample_mismatch_experiment disagree on %d candidates, e.g. %s sample %s: %s"
            % (len(corr_bad), name, json.dumps(smp), why),
            {"layer": "L7:mismatch-verdict", "theorems": ["C17_*"], "program": program, "sample": smp, "why": why},
            failing_input=False))
    res.extra["corr_mismatch_examples"] = [{"program_name": n, "program": p, "sample": smp, "why": why}
                                           for n, p, smp, why in corr_bad[:5]]
    res.extra["distribution"] = dict(sorted(stats.items()))
    res.extra["programs_used"] = len(progs)
    res.notes.append("search judged by Sem.valid_b on doc_sem(program); exceptions on invalid candidates are counted, not violations")


def _show_real(real):
    if real[0] == "error":
        return "raises " + real[1]
    if real[0] == "trialcount":
        return "{'trial_count': ...}"
    d = {}
    for k, v in zip(("factors", "constraints", "crossings"), real[1:]):
        if v:
            d[k] = v
    return repr(d)


def replay(ctx, data):
    program = data["program"]
    ds = docsem.doc_sem(program)
    built = ir.build(program)
    blk = ir.main_block(built, program)
    if blk is None:
        return False
    with ir.quiet():
        if any("WARNING" not in e for e in blk.errors) or blk.trials_per_sample() != ds.T:
            return False   # not an accepted design / trial count differs (C16): outside this check's judgement
    real = real_verdict(blk, data["sample"])
    q = docsem.seq_of_sample(ds, data["sample"])
    valid = designrun.oracle_valid(ds, [q])[0] if q is not None else False
    clean = (real == ("lists", [], [], []))
    if real[0] == "error":
        return bool(valid)
    return clean != valid
