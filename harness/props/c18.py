"""C18 - Reusing factor and constraint objects across blocks does not change meaning.

Theorems: coq/theories/Properties/C18.v about Hist/Reuse.v (store of constraint
objects with the mutable fields the code has; `build` = what constructing a block
does to the store - since /repo commit 88b3d0f: private copies as new entries, the
argument objects are never written - and which geometry each constraint ends up using).

Correspondence
  * write-set: harness/writeset.py on the five block constructors; every attribute
    store it finds must be one the model declares (`(writes18)`: within_block,
    max_trials_required, k, trials of constraint objects - which the code writes on the
    copies it makes; the static analyser cannot tell a shallow copy from its original,
    the dynamic layers below can), a store into the block under construction, or a
    listed analyser over-approximation; unrecognised constructs are a broken tie.
  * stores: generated families of 2-3 block constructions that share factor and
    constraint objects, built with the real constructors one block at a time in
    every dependency-respecting order; after every construction (a) the fields
    (within_block, k / index, trials, max_trials_required) of every user constraint
    object are compared with the model's store and their attribute dictionaries with a
    snapshot taken at creation (never written), (b) the new block's orig_constraints -
    which must be new objects - with the model's new store entries and summary, (c) at
    the end, the orig_constraints of every earlier block with what they were right after
    its construction; the twin summary of the model is compared with the real block
    built from fresh objects.
Search (the property itself, on the real code): per block, shared-objects build vs
fresh-objects build (ir.build(program, only_blocks=[block] + dependencies)): flat
record, exhausted IterateSATGen name-level solution set, sample_mismatch_experiment
verdicts on the union of both solution sets.  A difference in solution set or verdict
is a violation (replay: program in build order + block id).
"""
import collections
import itertools
import json
import signal

import common
import docsem
import flat
import ir
import writeset
from common import Violation

TITLE = "reusing factor and constraint objects across blocks does not change meaning"
LEVEL = "proof"

CAP = 800
DOMAINS = ["Hist", "Design"]

OVERAPPROX = {
    ("Level", "factor"): "Factor.__post_init__ sets level.factor on the levels of a factor being created: "
                         "SimpleFactor.desugar_weights builds the replacement factors from new Level objects "
                         "(a Level that already belongs to a factor is rejected with ValueError)",
}

KIND = {"AtMostKInARow": "atmost", "AtLeastKInARow": "atleast", "ExactlyK": "exactlyk", "ExactlyKInARow": "exactlyrow",
        "Pin": "pin", "MinimumTrials": "mintrials"}


# --------------------------------------------------------------------------- program families

def pool_factors():
    return [
        {"id": 0, "name": "f", "kind": "simple", "levels": [["a", 1], ["b", 1]]},
        {"id": 1, "name": "g", "kind": "simple", "levels": [["x", 1], ["y", 1]]},
        {"id": 2, "name": "h", "kind": "simple", "levels": [["p", 1], ["q", 1], ["r", 1]]},
        {"id": 3, "name": "d", "kind": "derived", "window": {"type": "within", "deps": [0, 1]},
         "levels": [{"name": "same", "table": [[["a"], ["x"]], [["b"], ["y"]]]}, {"name": "diff", "else": True}]},
        {"id": 4, "name": "w", "kind": "simple", "levels": [["u", 2], ["v", 1]]},
        {"id": 5, "name": "t", "kind": "derived", "window": {"type": "transition", "deps": [0]},
         "levels": [{"name": "rep", "table": [[["a", "a"]], [["b", "b"]]]}, {"name": "sw", "else": True}]},
    ]


LEVELS = {0: ["a", "b"], 1: ["x", "y"], 2: ["p", "q", "r"], 3: ["same", "diff"], 4: ["u", "v"], 5: ["rep", "sw"]}


def rand_shared_constraint(rng, cid, fid):
    kind = rng.choice(["AtMostKInARow", "AtMostKInARow", "AtMostKInARow-factor", "AtLeastKInARow", "ExactlyK",
                       "ExactlyKInARow", "Pin", "AtLeastKInARow-factor", "MinimumTrials", "ExactlyK"])
    if kind == "MinimumTrials":
        return {"id": cid, "kind": "MinimumTrials", "trials": rng.choice([3, 4, 5])}
    lvl = [fid, rng.choice(LEVELS[fid])]
    if kind.endswith("-factor"):
        return {"id": cid, "kind": kind[:-7], "k": rng.choice([1, 2]), "factor": fid}
    if kind == "Pin":
        return {"id": cid, "kind": "Pin", "index": rng.choice([0, 1, -1, 2, 3]), "level": lvl}
    return {"id": cid, "kind": kind, "k": rng.choice([1, 1, 2, 2, 3]), "level": lvl}


def gen_family(rng):
    """A program with 2-3 leaf blocks (+ possibly one combinator) that share factor and constraint objects."""
    factors = pool_factors()
    constraints = []
    blocks = []

    def new_c(c):
        c["id"] = len(constraints)
        constraints.append(c)
        return c["id"]

    def leaf(design, crossing, cs):
        b = {"id": len(blocks), "kind": "CrossBlock", "design": design, "crossing": crossing, "constraints": cs, "rcc": True}
        blocks.append(b)
        return b["id"]
    shape = rng.choice(["two-leaves", "two-leaves", "leaf-repeat-leaf", "nest+leaf", "merge+leaf", "same-geometry",
                        "three-leaves", "combinator-constraint", "repeat-of-shared", "shared-mintrials"])
    target = rng.choice([0, 0, 0, 1, 1, 2])
    shared = [new_c(rand_shared_constraint(rng, 0, target))]
    if rng.random() < 0.4:
        shared.append(new_c(rand_shared_constraint(rng, 0, target)))
    others = [x for x in (0, 1, 2) if x != target]
    small = [target]
    big = [target, rng.choice([x for x in others if x != 2] if rng.random() < 0.75 else others)]
    size = {0: 2, 1: 2, 2: 3}

    def maybe_extra(design):
        d = list(design)
        n = 1
        for x in d:
            n *= size[x]
        if n > 4:
            return d        # keep the solution sets enumerable
        if 0 in d and 1 in d and rng.random() < 0.3:
            d.append(3)
        if 0 in d and rng.random() < 0.15:
            d.append(5)
        if n <= 2 and rng.random() < 0.2:
            d.append(4)
        return d

    def mt(n):
        return new_c({"id": 0, "kind": "MinimumTrials", "trials": n})
    if shape == "shared-mintrials":
        m = mt(rng.choice([3, 4]))
        leaf(small, small, list(shared) + [mt(rng.choice([5, 6])), m])
        leaf(small, small, list(shared) + [m])
    elif shape == "two-leaves":
        leaf(maybe_extra(small), small, list(shared) + ([mt(rng.choice([3, 4, 5]))] if rng.random() < 0.4 else []))
        leaf(maybe_extra(big), big, list(shared))
    elif shape == "three-leaves":
        leaf(maybe_extra(small), small, list(shared))
        leaf(maybe_extra(big), big, shared[:1])
        leaf(maybe_extra(small), small, list(shared) + [mt(rng.choice([3, 4, 6]))])
    elif shape == "same-geometry":
        leaf(small, small, list(shared))
        leaf(small, small, list(shared))
    elif shape == "leaf-repeat-leaf":
        a = leaf(maybe_extra(small), small, list(shared))
        blocks.append({"id": len(blocks), "kind": "Repeat", "block": a, "constraints": [mt(rng.choice([3, 4, 5, 6]))]})
        leaf(maybe_extra(big), big, list(shared))
    elif shape == "repeat-of-shared":
        a = leaf(maybe_extra(big), big, [])
        leaf(small, small, list(shared))
        blocks.append({"id": len(blocks), "kind": "Repeat", "block": a, "constraints": list(shared) + [mt(rng.choice([5, 6, 8]))]})
    elif shape == "nest+leaf":
        if rng.random() < 0.3:
            shared.append(mt(rng.choice([3, 4, 5])))
        o = leaf(small, small, list(shared))
        inner_f = rng.choice(others)
        inner_cs = [new_c(rand_shared_constraint(rng, 0, inner_f))] if rng.random() < 0.5 else []
        i = leaf([inner_f], [inner_f], inner_cs)
        blocks.append({"id": len(blocks), "kind": "Nest", "outer": o, "inner": i, "constraints": []})
        leaf(maybe_extra(big), big, list(shared) + (inner_cs if inner_f in big and rng.random() < 0.5 else []))
    elif shape == "merge+leaf":
        a = leaf(big, small, list(shared))
        b = leaf(big, [x for x in big if x not in small][:1], shared[:1] if rng.random() < 0.5 else [])
        blocks.append({"id": len(blocks), "kind": "Merge", "blocks": [a, b], "constraints": [], "mode": rng.choice(["repeat", "weight"])})
        leaf(small, small, list(shared))
    else:   # combinator-constraint: the shared object is handed to a combinator and to a leaf
        a = leaf(big, big, [])
        leaf(small, small, list(shared))
        blocks.append({"id": len(blocks), "kind": "Repeat", "block": a, "constraints": list(shared) + [mt(rng.choice([6, 8]))]})
    used = set()
    for b in blocks:
        used.update(b.get("design", []))
    for f in factors:
        if f["id"] in used and f["kind"] == "derived":
            used.update(f["window"]["deps"])
    program = {"factors": [f for f in factors if f["id"] in used], "constraints": constraints, "blocks": blocks,
               "main": blocks[-1]["id"], "family": shape}
    return program


def corpus():
    f, g = pool_factors()[0], pool_factors()[1]
    c = {"id": 0, "kind": "AtMostKInARow", "k": 1, "level": [0, "a"]}
    out = []
    out.append(("two-crossblocks-different-length", {
        "factors": [f, g], "constraints": [c],
        "blocks": [{"id": 0, "kind": "CrossBlock", "design": [0], "crossing": [0], "constraints": [0], "rcc": True},
                   {"id": 1, "kind": "CrossBlock", "design": [0, 1], "crossing": [0, 1], "constraints": [0], "rcc": True}],
        "main": 1}))
    out.append(("repeated-and-direct", {
        "factors": [f, g], "constraints": [c, {"id": 1, "kind": "MinimumTrials", "trials": 4}],
        "blocks": [{"id": 0, "kind": "CrossBlock", "design": [0], "crossing": [0], "constraints": [0], "rcc": True},
                   {"id": 1, "kind": "Repeat", "block": 0, "constraints": [1]},
                   {"id": 2, "kind": "CrossBlock", "design": [0, 1], "crossing": [0, 1], "constraints": [0], "rcc": True}],
        "main": 2}))
    out.append(("same-geometry-twice", {
        "factors": [f, g], "constraints": [c],
        "blocks": [{"id": 0, "kind": "CrossBlock", "design": [0, 1], "crossing": [0, 1], "constraints": [0], "rcc": True},
                   {"id": 1, "kind": "CrossBlock", "design": [0, 1], "crossing": [0, 1], "constraints": [0], "rcc": True}],
        "main": 1}))
    out.append(("shared-minimumtrials", {
        "factors": [f], "constraints": [{"id": 0, "kind": "MinimumTrials", "trials": 3}, {"id": 1, "kind": "MinimumTrials", "trials": 6}],
        "blocks": [{"id": 0, "kind": "CrossBlock", "design": [0], "crossing": [0], "constraints": [1, 0], "rcc": True},
                   {"id": 1, "kind": "CrossBlock", "design": [0], "crossing": [0], "constraints": [0], "rcc": True}],
        "main": 1}))
    out.append(("nest-outer-exactlyk", {
        "factors": [f, g], "constraints": [{"id": 0, "kind": "ExactlyK", "k": 1, "level": [0, "a"]}],
        "blocks": [{"id": 0, "kind": "CrossBlock", "design": [0], "crossing": [0], "constraints": [0], "rcc": True},
                   {"id": 1, "kind": "CrossBlock", "design": [1], "crossing": [1], "constraints": [], "rcc": True},
                   {"id": 2, "kind": "Nest", "outer": 0, "inner": 1, "constraints": []},
                   {"id": 3, "kind": "CrossBlock", "design": [0, 1], "crossing": [0, 1], "constraints": [0], "rcc": True}],
        "main": 3}))
    # one MinimumTrials object on the outer block of a Nest and on a block built afterwards:
    # Nest rescales (its copy of) the outer block's constraints by the inner length
    # (seeded change C18-nest-copies-only-geometry-constraints)
    m = {"id": 0, "kind": "MinimumTrials", "trials": 4}
    out.append(("nest-outer-shared-minimumtrials", {
        "factors": [f, g], "constraints": [m],
        "blocks": [{"id": 0, "kind": "CrossBlock", "design": [0], "crossing": [0], "constraints": [0], "rcc": True},
                   {"id": 1, "kind": "CrossBlock", "design": [1], "crossing": [1], "constraints": [], "rcc": True},
                   {"id": 2, "kind": "Nest", "outer": 0, "inner": 1, "constraints": []},
                   {"id": 3, "kind": "CrossBlock", "design": [0, 1], "crossing": [0], "constraints": [0], "rcc": True}],
        "main": 3}))
    out.append(("nest-inner-shared-minimumtrials", {
        "factors": [f, g], "constraints": [m],
        "blocks": [{"id": 0, "kind": "CrossBlock", "design": [0], "crossing": [0], "constraints": [], "rcc": True},
                   {"id": 1, "kind": "CrossBlock", "design": [1], "crossing": [1], "constraints": [0], "rcc": True},
                   {"id": 2, "kind": "Nest", "outer": 0, "inner": 1, "constraints": []},
                   {"id": 3, "kind": "CrossBlock", "design": [1], "crossing": [1], "constraints": [0], "rcc": True}],
        "main": 3}))
    out.append(("repeat-and-merge-shared-minimumtrials", {
        "factors": [f, g], "constraints": [m],
        "blocks": [{"id": 0, "kind": "CrossBlock", "design": [0, 1], "crossing": [0], "constraints": [0], "rcc": True},
                   {"id": 1, "kind": "CrossBlock", "design": [0, 1], "crossing": [1], "constraints": [], "rcc": True},
                   {"id": 2, "kind": "Merge", "blocks": [0, 1], "constraints": [0], "mode": "repeat"},
                   {"id": 3, "kind": "Repeat", "block": 0, "constraints": [0]},
                   {"id": 4, "kind": "CrossBlock", "design": [0], "crossing": [0], "constraints": [0], "rcc": True}],
        "main": 4}))
    return out


def block_deps(program, bid):
    b = {x["id"]: x for x in program["blocks"]}[bid]
    out = []
    for k in ("block", "outer", "inner"):
        if k in b:
            out.append(b[k])
    out += b.get("blocks", [])
    return out


def dep_closure(program, bid):
    out = []

    def rec(x):
        for d in block_deps(program, x):
            rec(d)
        if x not in out:
            out.append(x)
    rec(bid)
    return out


def orders(program, limit=6):
    """Permutations of the block list in which every block comes after its dependencies."""
    blocks = program["blocks"]
    out = []
    for perm in itertools.permutations(range(len(blocks))):
        pos = {blocks[i]["id"]: n for n, i in enumerate(perm)}
        if all(pos[d] < pos[b["id"]] for b in blocks for d in block_deps(program, b["id"])):
            out.append([blocks[i] for i in perm])
            if len(out) >= limit:
                break
    return out


# --------------------------------------------------------------------------- real side

class _Timeout(BaseException):
    pass


def _alarm(signum, frame):
    raise _Timeout()


def with_timeout(fn, seconds=30):
    old = signal.signal(signal.SIGALRM, _alarm)
    signal.alarm(seconds)
    try:
        return fn()
    except _Timeout:
        return ("error", "timeout", "")
    finally:
        signal.alarm(0)
        signal.signal(signal.SIGALRM, old)


def build_stepwise(program, observe=None):
    """ir.build, one block at a time (shared objects), calling observe(built, blockdesc) after each construction."""
    built = ir.Built()
    with ir.quiet():
        for f in program["factors"]:
            built.factors[f["id"]] = ir.build_factor(built, program, f)
        for c in program.get("constraints", []):
            built.constraints[c["id"]] = ir.build_constraint(built, program, c)
        built.c18_snapshot = [{k: id(v) for k, v in vars(built.constraints[c["id"]]).items()}
                              for c in program.get("constraints", [])]
        for b in program["blocks"]:
            try:
                built.blocks[b["id"]] = ir.build_block(built, program, b)
            except Exception as e:  # noqa
                built.errors[("block", b["id"])] = ("error", type(e).__name__, str(e)[:200])
            if observe is not None:
                observe(built, b)
    return built


def solutions(block):
    r = with_timeout(lambda: ir.synthesize(block, CAP, "IterateSATGen"))
    if r[0] != "ok":
        return ("error", r[1])
    keys = set()
    for e in r[1]:
        keys.add(tuple((str(k), tuple(v)) for k, v in sorted(e.items(), key=lambda kv: str(kv[0]))))
    return ("ok", keys, len(r[1]) >= CAP)


def verdict(block, key):
    from sweetpea import sample_mismatch_experiment
    sample = {k: list(v) for k, v in key}
    try:
        with ir.quiet():
            r = sample_mismatch_experiment(block, sample)
    except Exception as e:  # noqa
        return ("error", type(e).__name__)
    return json.dumps({k: [str(x) for x in v] for k, v in r.items()}, sort_keys=True)


def compare_block(shared_blk, fresh_blk, cache=None, skip_equal_flat=False):
    """Differences between a block built from shared objects and its fresh twin.  The exhausted solution sets are
    memoised per flat record of the shared block (the flat record is everything the samplers read; blocks whose flat
    record equals the twin's are still exhausted, except in the quick tier where two out of three are skipped)."""
    out = {}
    cache = {} if cache is None else cache
    with ir.quiet():
        try:
            fs, ff = flat.flat_wire(shared_blk), flat.flat_wire(fresh_blk)
        except Exception as e:  # noqa
            fs, ff = "flat-failed:" + type(e).__name__, "flat-failed"
    if fs != ff:
        out["flat"] = True
    if fs == ff and skip_equal_flat:
        out["skipped"] = True
        return out
    if "fresh" not in cache:
        cache["fresh"] = solutions(fresh_blk)
    if ("shared", fs) not in cache:
        cache[("shared", fs)] = solutions(shared_blk)
    ss, sf = cache[("shared", fs)], cache["fresh"]
    if ("error", "timeout") in (ss[:2], sf[:2]):
        # no answer within the time limit on one side: inconclusive (load-dependent), not a difference
        out["timeout"] = True
        return out
    if ss[0] != sf[0] or (ss[0] == "error" and ss != sf):
        out["solutions"] = {"shared": ss[:2] if ss[0] == "error" else "ok", "fresh": sf[:2] if sf[0] == "error" else "ok"}
        return out
    if ss[0] == "ok":
        if ss[2] or sf[2]:
            out["capped"] = True
        elif ss[1] != sf[1]:
            extra = sorted(ss[1] - sf[1])[:2]
            missing = sorted(sf[1] - ss[1])[:2]
            out["solutions"] = {"shared_count": len(ss[1]), "fresh_count": len(sf[1]),
                                "only_shared": [dict(k) for k in extra], "only_fresh": [dict(k) for k in missing]}
        cands = sorted(ss[1] | sf[1])
        if len(cands) > 60:
            cands = cands[:30] + cands[-30:]
        for key in cands:
            vs, vf = verdict(shared_blk, key), verdict(fresh_blk, key)
            if vs != vf:
                out["verdict"] = {"sample": dict(key), "shared": vs, "fresh": vf}
                break
    return out


def signature(program, bid, diff, shared_blk, fresh_blk):
    """Stable signature of a reuse failure."""
    stale = False
    try:
        def params(b):
            return sorted((type(c).__name__, getattr(c, "k", None), getattr(c, "index", None), getattr(c, "trials", None))
                          for c in b.constraints if type(c).__name__ in KIND)
        if json.dumps(params(shared_blk)) != json.dumps(params(fresh_blk)) or shared_blk.min_trials != fresh_blk.min_trials:
            return "reuse:constraint-parameter-changed"
    except Exception:  # noqa
        pass
    try:
        gs = sorted(repr(flat._geom(shared_blk, c.within_block)) for c in shared_blk.constraints if hasattr(c, "within_block"))
        gf = sorted(repr(flat._geom(fresh_blk, c.within_block)) for c in fresh_blk.constraints if hasattr(c, "within_block"))
        stale = gs != gf
    except Exception:  # noqa
        pass
    if stale:
        return "reuse:within_block:stale-geometry"
    if "solutions" in diff:
        return "reuse:solutions-differ"
    return "reuse:verdicts-differ"


def reuse_failure(program, bid):
    """Builds the program in its list order with shared objects and block `bid` from fresh objects; the observable
    difference (solution set / mismatch verdict) or None."""
    shared = ir.build(program)
    keep = dep_closure(program, bid)
    fresh = ir.build(program, only_blocks=keep)
    bs, bf = shared.blocks.get(bid), fresh.blocks.get(bid)
    if bs is None or bf is None:
        if (bs is None) != (bf is None):
            return {"constructor": {"shared": shared.errors.get(("block", bid)), "fresh": fresh.errors.get(("block", bid))}}, bs, bf
        return None, bs, bf
    d = compare_block(bs, bf)
    if "solutions" in d or "verdict" in d:
        return d, bs, bf
    return None, bs, bf


# --------------------------------------------------------------------------- model side

def geom_wire(block, g, fmap):
    if g is None:
        return common.Atom("none")
    return [int(g.num_trials), int(g.preamble_size),
            sorted([fmap(f), int(n)] for f, n in g.factor_to_sustain_count.items())]


def obj_fields(c, fmap):
    """The mutable fields of a real constraint object in the model's terms."""
    n = type(c).__name__
    kind = KIND.get(n, "nogeom")
    k = 0
    if kind in ("atmost", "atleast", "exactlyk", "exactlyrow"):
        k = int(c.k)
    elif kind == "pin":
        k = int(c.index)
    trials = int(c.trials) if kind == "mintrials" else 0
    wb = getattr(c, "within_block", None) if kind != "nogeom" else None
    mtr = getattr(c, "max_trials_required", None)
    return [common.Atom(kind), geom_wire(None, wb, fmap), k, trials, common.Atom("none") if mtr is None else int(mtr)]


class FactorNames:
    """Factors are identified by name key -> small integer (replacement factors of weight desugaring are new
    objects in every build, their names are not)."""

    def __init__(self):
        self.ids = {}

    def __call__(self, f):
        from sweetpea._internal.primitive import HiddenName
        key = ("~" + str(f.name.name)) if isinstance(f.name, HiddenName) else str(f.name)
        return self.ids.setdefault(key, len(self.ids))


def user_objects(program):
    out = []
    for c in program["constraints"]:
        kind = KIND.get(c["kind"], "nogeom")
        k = c.get("k", c.get("index", 0)) if kind not in ("mintrials", "nogeom") else 0
        out.append([common.Atom(kind), common.Atom("none"), k, c.get("trials", 0) if kind == "mintrials" else 0,
                    common.Atom("none")])
    return out


def canon(x):
    """parsed model output -> plain lists comparable with common.sexp-able python values"""
    if isinstance(x, list):
        return [canon(y) for y in x]
    if isinstance(x, common.Atom):
        return x.s
    return str(x) if isinstance(x, common.StrTok) else x


def run_order(program, order, stats):
    """Builds one order step by step with shared objects; returns the model line, the real observations."""
    p = dict(program, blocks=order)
    cpos = {c["id"]: i for i, c in enumerate(p["constraints"])}
    bpos = {b["id"]: i for i, b in enumerate(order)}
    fmap = FactorNames()
    steps = []
    users = []           # the user's constraint objects, in program order
    snapshot = []        # their attribute dictionaries right after creation (attribute -> identity of the value)
    descs = []
    at_build = {}        # block id -> fields of its orig_constraints right after its construction

    def observe(built, b):
        if not users:
            users.extend(built.constraints[c["id"]] for c in p["constraints"])
            snapshot.extend(built.__dict__.setdefault("c18_snapshot", []))
        blk = built.blocks.get(b["id"])
        if blk is None:
            steps.append(None)
            descs.append([common.Atom("skip"), [1, 0, []], [], []])
            return
        with ir.quiet():
            g = blk.get_geometry(0)
        cs = [cpos[c] for c in b.get("constraints", [])]
        k = b["kind"]
        if k in ("CrossBlock", "MultiCrossBlock"):
            kind = common.Atom("leaf")
        elif k == "Repeat":
            kind = [common.Atom("repeat"), bpos[b["block"]]]
        elif k == "Merge":
            kind = [common.Atom("merge"), [bpos[x] for x in b["blocks"]]]
        else:
            outer = built.blocks[b["outer"]]
            inner = built.blocks[b["inner"]]
            with ir.quiet():
                inner_len = inner.trials_per_sample() - inner.common_preamble_size()
            kind = [common.Atom("nest"), bpos[b["outer"]], bpos[b["inner"]], int(inner_len)]
        copied = [not any(c is x for x in blk.constraints) for c in blk.orig_constraints]
        descs.append([kind, geom_wire(blk, g, fmap), cs, copied])
        at_build[b["id"]] = [canon(obj_fields(c, fmap)) for c in blk.orig_constraints]
        steps.append({"users": [canon(obj_fields(c, fmap)) for c in users],
                      "users_untouched": [{k: id(v) for k, v in vars(c).items()} for c in users] == snapshot,
                      "entries": at_build[b["id"]],
                      "copies_are_new": not any(c is u for c in blk.orig_constraints for u in users),
                      "summary": [canon(obj_fields(c, fmap)[:4]) for c in blk.orig_constraints],
                      "desugared": sorted(set(json.dumps(canon(obj_fields(c, fmap)[:3])) for c in blk.constraints
                                              if KIND.get(type(c).__name__) in ("atmost", "atleast", "exactlyk", "exactlyrow", "pin")))})
    built = build_stepwise(p, observe)
    # nothing built later may have touched the constraints of an earlier block
    final = {bid: [canon(obj_fields(c, fmap)) for c in built.blocks[bid].orig_constraints] for bid in at_build}
    for st, b in zip(steps, order):
        if st is not None:
            st["unchanged_later"] = final[b["id"]] == at_build[b["id"]]
    line = "(hist18 %s %s)" % (common.sexp(user_objects(p)), common.sexp(descs))
    return p, built, steps, descs, line, fmap


def copy_barrier(root):
    """Static side of 'the argument objects are never written': _create rebinds its `constraints` parameter to
    shallow copies before anything else reads it, and Nest copies the outer block's orig_constraints before
    sustain_within_block.  Returns the list of missing barriers."""
    import ast
    import os
    tree = ast.parse(open(os.path.join(root, "sweetpea", "_internal", "cross_block.py")).read())
    missing = []

    def is_copy_comp(v, src):
        return (isinstance(v, ast.ListComp) and isinstance(v.elt, ast.Call) and ast.unparse(v.elt.func) in ("copy.copy", "copy")
                and len(v.generators) == 1 and ast.unparse(v.generators[0].iter) == src
                and isinstance(v.elt.args[0], ast.Name) and ast.unparse(v.generators[0].target) == v.elt.args[0].id)
    for cls in [n for n in tree.body if isinstance(n, ast.ClassDef)]:
        for fn in [n for n in cls.body if isinstance(n, ast.FunctionDef)]:
            if cls.name == "MultiCrossBlockRepeat" and fn.name == "_create":
                ok = False
                for st in fn.body:
                    if isinstance(st, ast.Assign) and len(st.targets) == 1 and ast.unparse(st.targets[0]) == "constraints" \
                            and is_copy_comp(st.value, "constraints"):
                        ok = True
                        break
                    if any(isinstance(x, ast.Name) and x.id == "constraints" for x in ast.walk(st)):
                        break      # used before being copied
                if not ok:
                    missing.append("_create: constraints = [copy.copy(ct) for ct in constraints]")
            if cls.name == "Nest" and fn.name == "__init__":
                src = ast.unparse(fn)
                if not any(isinstance(st, ast.Assign) and is_copy_comp(st.value, "outer_block.orig_constraints")
                           for st in ast.walk(fn)) or "sustain_within_block" not in src:
                    missing.append("Nest.__init__: copies of outer_block.orig_constraints before sustain_within_block")
    return missing


def check_writeset(ctx, res):
    from props import c19 as _c19  # shares sweetpea_root
    root = _c19.sweetpea_root()
    rep = writeset.analyse(writeset.C18_ENTRIES, root)
    out = ctx.model(["(writes18)"])[0]
    declared = set((str(o), str(a)) for o, a in common.parse_sexp(out)[0])
    found = set(rep.pairs())
    on_new_block = set(p for p in found if p[0] == "Block")
    undeclared = sorted(found - declared - set(OVERAPPROX) - on_new_block)
    res.extra["writeset"] = {"source": root, "functions_reached": len(rep.reached),
                            "writes_on_argument_objects": sorted(map(list, found - on_new_block)),
                            "writes_on_block_under_construction": sorted(a for _, a in on_new_block),
                            "declared_by_model": sorted(map(list, declared)),
                            "analyser_overapproximations": {"%s.%s" % k: v for k, v in OVERAPPROX.items()},
                            "unrecognised": rep.unrecognised[:20]}
    res.layer("writeset:recognised", not rep.unrecognised)
    res.layer("writeset:declared", not undeclared)
    missing = copy_barrier(root)
    res.extra["writeset"]["copy_barriers_missing"] = missing
    res.layer("writeset:copy-barrier", not missing)
    problems = []
    if missing:
        problems.append(Violation("corr:writeset-copy-barrier", "the constructors no longer copy the constraint objects they are "
                                  "given before writing them: %s" % missing, {"layer": "writeset", "missing": missing},
                                  failing_input=False))
    if rep.unrecognised:
        problems.append(Violation(
            "corr:writeset-unrecognised",
            "the write-set analyser met %d constructs it does not understand in the code reachable from the block "
            "constructors (fail-closed), e.g. %s" % (len(rep.unrecognised), rep.unrecognised[0]),
            {"layer": "writeset", "unrecognised": rep.unrecognised[:40]}, failing_input=False))
    if undeclared:
        where = {"%s.%s" % k: rep.writes[k][:3] for k in undeclared}
        problems.append(Violation(
            "corr:writeset", "the block constructors can write attributes of argument objects that the model Hist/Reuse.v "
            "does not declare: %s" % json.dumps(where), {"layer": "writeset", "undeclared": where}, failing_input=False))
    return problems


# --------------------------------------------------------------------------- the check

def shrink(program, bid, sig):
    """Drops blocks that are not needed for the failure, then unused constraints and factors."""
    p = json.loads(json.dumps(program))

    def still(q):
        try:
            d, bs, bf = reuse_failure(q, bid)
            return d is not None and signature(q, bid, d, bs, bf) == sig
        except Exception:  # noqa
            return False
    need = set(dep_closure(p, bid))
    changed = True
    while changed:
        changed = False
        for b in list(p["blocks"]):
            if b["id"] in need:
                continue
            # a block can be dropped if nothing that stays depends on it
            if any(b["id"] in block_deps(p, x["id"]) for x in p["blocks"] if x["id"] != b["id"]):
                continue
            q = dict(p, blocks=[x for x in p["blocks"] if x["id"] != b["id"]])
            if still(q):
                p = q
                changed = True
                break
    # drop constraints one at a time from the remaining blocks
    changed = True
    while changed:
        changed = False
        for b in p["blocks"]:
            for c in list(b.get("constraints", [])):
                q = json.loads(json.dumps(p))
                for x in q["blocks"]:
                    if x["id"] == b["id"]:
                        x["constraints"] = [y for y in x["constraints"] if y != c]
                if still(q):
                    p = q
                    changed = True
                    break
            if changed:
                break
    used_c = set(c for b in p["blocks"] for c in b.get("constraints", []))
    p["constraints"] = [c for c in p["constraints"] if c["id"] in used_c]
    used_f = set()
    for b in p["blocks"]:
        used_f.update(b.get("design", []))
    for f in p["factors"]:
        if f["id"] in used_f and f["kind"] == "derived":
            used_f.update(f["window"]["deps"])
    for c in p["constraints"]:
        if "level" in c:
            used_f.add(c["level"][0])
        if "factor" in c:
            used_f.add(c["factor"])
    q = dict(p, factors=[f for f in p["factors"] if f["id"] in used_f])
    if still(q):
        p = q
    p["main"] = bid
    return p


def run(ctx, res):
    res.rule = ("programs: hand-written corpus + seeded families of 2-3 leaf blocks (CrossBlock over 1-3 of the factors f,g,h, "
                "optionally with a within-trial derived, a transition-derived and a weighted uncrossed factor) plus possibly a "
                "Repeat / Merge / Nest over them, sharing 1-2 constraint objects (AtMostKInARow on a level or a whole factor, "
                "AtLeastKInARow, ExactlyK, ExactlyKInARow, Pin, MinimumTrials) between blocks and combinators; every "
                "dependency-respecting order of the block list (<= 6 per program); non-trivial = (program, order, block) in "
                "which the block uses at least one constraint object that another construction of the program also uses; "
                "distinct by (program, order, block)")
    stats = collections.Counter()
    tie = check_writeset(ctx, res)
    progs = [("corpus18:" + n, p) for n, p in corpus()]
    n = 14 if ctx.quick else 110
    for _ in range(n):
        p = gen_family(ctx.rng)
        progs.append(("family:" + p.pop("family"), p))
    lines = []
    runs = []
    found = {}
    for name, program in progs:
        fresh_cache = collections.defaultdict(dict)
        for order in orders(program, 4 if ctx.quick else 12):
            p, built, steps, descs, line, fmap = run_order(program, order, stats)
            stats["orders"] += 1
            if built.errors:
                stats["orders:with-constructor-errors"] += 1
            lines.append(line)
            twins = {}
            for i, b in enumerate(order):
                bid = b["id"]
                keep = dep_closure(p, bid)
                fresh = ir.build(p, only_blocks=keep)
                twins[bid] = fresh
                lines.append("(twin18 %s %s %d)" % (common.sexp(user_objects(p)), common.sexp(descs), i))
            runs.append((name, p, built, steps, twins, fmap))
            # ---- search: shared vs fresh, per block
            uses = collections.Counter(c for b in order for c in b.get("constraints", []))
            for b in order:
                bid = b["id"]
                shared_users = [c for c in uses if uses[c] > 1]
                inherited = set(c for d in dep_closure(p, bid) for x in order if x["id"] == d for c in x.get("constraints", []))
                nontrivial = any(c in inherited for c in shared_users)
                res.count((json.dumps(p, sort_keys=True), bid), nontrivial=nontrivial)
                bs, bf = built.blocks.get(bid), twins[bid].blocks.get(bid)
                if bs is None or bf is None:
                    stats["blocks:constructor-rejects" if bs is None and bf is None else "blocks:constructor-differs"] += 1
                    if (bs is None) != (bf is None):
                        sig = "reuse:constructor-outcome-differs"
                        found.setdefault(sig, (name, p, bid, {"constructor": {
                            "shared": built.errors.get(("block", bid)), "fresh": twins[bid].errors.get(("block", bid))}}))
                    continue
                d = compare_block(bs, bf, fresh_cache[bid], skip_equal_flat=ctx.quick and ctx.rng.random() < 0.66)
                stats["blocks:compared"] += 1
                if d.get("skipped"):
                    stats["blocks:equal-flat-record-not-exhausted(quick tier)"] += 1
                if d.get("capped"):
                    stats["blocks:solution-cap-reached"] += 1
                if d.get("timeout"):
                    stats["blocks:timeout-inconclusive"] += 1
                if "flat" in d:
                    stats["blocks:flat-record-differs"] += 1
                if "solutions" in d or "verdict" in d:
                    sig = signature(p, bid, d, bs, bf)
                    stats["search:" + sig] += 1
                    if sig not in found or len(p["blocks"]) < len(found[sig][1]["blocks"]):
                        found[sig] = (name, p, bid, d)
                elif "flat" in d:
                    stats["blocks:flat-differs-without-observable-effect"] += 1
                if len(res.samples) < 5 and nontrivial:
                    res.sample({"program": name, "order": [x["id"] for x in order], "block": bid,
                                "difference": sorted(d.keys())})
    # ---- model
    outs = ctx.model(lines)
    corr_bad = []
    it = iter(outs)
    model_says_differs = 0
    for name, p, built, steps, twins, fmap in runs:
        line = next(it)
        twin_lines = [next(it) for _ in p["blocks"]]
        if line.startswith("!"):
            res.layer("store:user-objects-after-build", False)
            corr_bad.append((name, p, "model failed: " + line[:100]))
            continue
        parsed = common.parse_sexp(line)
        for i, (b, real, m) in enumerate(zip(p["blocks"], steps, parsed)):
            msum, mstore, mentries = m
            if real is None:
                continue       # constructor rejected (design reasons outside this model); the model skipped too
            musers = canon(mstore)[:len(real["users"])]
            ok = musers == real["users"] and real["users_untouched"]
            res.layer("store:user-objects-after-build", ok)
            if not ok:
                corr_bad.append((name, p, "user constraint objects after building block %d: real %s (attribute dictionaries "
                                 "untouched: %s) model %s" % (b["id"], json.dumps(real["users"])[:300], real["users_untouched"],
                                                             json.dumps(musers)[:300])))
                break
            ok = canon(mentries) == real["entries"] and real["copies_are_new"]
            res.layer("store:new-block-copies", ok)
            if not ok:
                corr_bad.append((name, p, "orig_constraints of block %d right after its construction: real %s (new objects: %s) "
                                 "model %s" % (b["id"], json.dumps(real["entries"])[:300], real["copies_are_new"],
                                               json.dumps(canon(mentries))[:300])))
                break
            ok = real["unchanged_later"]
            res.layer("store:earlier-blocks-unchanged", ok)
            if not ok:
                corr_bad.append((name, p, "the constraints of block %d were changed by a later construction" % b["id"]))
                break
            ms = None if msum == "none" else canon(msum)
            ok = ms == real["summary"]
            res.layer("summary:shared-build", ok)
            if not ok:
                corr_bad.append((name, p, "summary of block %d: real %s model %s" % (
                    b["id"], json.dumps(real["summary"])[:300], json.dumps(ms)[:300])))
                break
            allowed = set(json.dumps(x[:3]) for x in (ms or []))
            ok = all(x in allowed for x in real["desugared"])
            res.layer("summary:desugared-constraints", ok)
            if not ok:
                corr_bad.append((name, p, "block %d: a desugared constraint uses a geometry the model does not predict: %s vs %s"
                                 % (b["id"], real["desugared"], sorted(allowed))))
                break
            # twin
            tl = twin_lines[i]
            fresh_blk = twins[b["id"]].blocks.get(b["id"])
            if fresh_blk is not None and not tl.startswith("!"):
                fm2 = FactorNames()
                fm2.ids = fmap.ids
                real_twin = [canon(obj_fields(c, fm2)[:4]) for c in fresh_blk.orig_constraints]
                mt = common.parse_sexp(tl)[0]
                mt = None if mt == "none" else canon(mt)
                ok = mt == real_twin
                res.layer("summary:fresh-twin", ok)
                if not ok:
                    corr_bad.append((name, p, "twin summary of block %d: real %s model %s" % (
                        b["id"], json.dumps(real_twin)[:300], json.dumps(mt)[:300])))
                    break
                if mt != ms:
                    model_says_differs += 1
    stats["model:shared-summary-differs-from-twin"] = model_says_differs
    known = set(k["sig"] for k in common.load_known() if k.get("property") == "C18" and k.get("status") == "open")
    for sig, (name, p, bid, d) in sorted(found.items()):
        try:
            # a listed finding is reported by its signature only: the smallest program met is kept as it is
            small = p if sig in known else shrink(p, bid, sig)
            d2, _, _ = reuse_failure(small, bid)
            d = d2 or d
        except Exception:  # noqa
            small = p
        extra = ""
        try:
            ds = docsem.doc_sem(small, bid)
            if "solutions" in d and d["solutions"].get("only_shared"):
                from props import c19 as _c19
                e = d["solutions"]["only_shared"][0]
                v = _c19.oracle_judge(ds, [{k: list(v) for k, v in e.items()}])
                extra = "; the reference semantics %s the sequence only the shared build returns" % (
                    "accepts" if v and v[0] else "rejects")
        except Exception:  # noqa
            pass
        res.violations.append(Violation(
            sig, "%s: building %s in list order with shared objects, block %d differs from its twin built from fresh "
                 "objects: %s%s" % (name, json.dumps(small), bid, json.dumps(d, default=str)[:700], extra),
            {"program": small, "block": bid, "difference": json.loads(json.dumps(d, default=str)), "sig": sig}))
    if corr_bad:
        name, p, why = corr_bad[0]
        tie.append(Violation("corr:store", "model Hist/Reuse.v and the real constructors disagree on %d build sequences, e.g. "
                             "%s: %s" % (len(corr_bad), name, why),
                             {"layer": "store", "program": p, "why": why,
                              "theorems": ["C18_build_history_independent", "C18_shared_equals_fresh",
                                           "C18_user_objects_never_written"]}, failing_input=False))
    res.violations.extend(tie)
    res.extra["distribution"] = dict(sorted(stats.items()))
    res.notes.append("a flat-record difference without a difference in the exhausted solution set or in a mismatch verdict "
                     "is counted, not reported (the property is about valid sequences and verdicts)")


def replay(ctx, data):
    if "program" not in data or "block" not in data:
        return False
    d, bs, bf = reuse_failure(data["program"], data["block"])
    if d is None:
        return False
    want = data.get("sig")
    if want and bs is not None and bf is not None:
        return signature(data["program"], data["block"], d, bs, bf) == want
    return True
