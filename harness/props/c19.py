"""C19 - A block stays usable and unchanged across library calls.

Theorems: coq/theories/Properties/C19.v about Hist/BlockState.v (abstract block
state: design lists + the caches; `step` for the seven public calls x strategies).

Correspondence
  * write-set: harness/writeset.py computes, from the source of the imported
    sweetpea tree, every attribute store the seven public calls can reach; it must
    be contained in the writes the model declares (`(writes19)` printed by the
    driver from Hist/BlockState.declared_writes) plus two analyser
    over-approximations that the dynamic comparison below covers.  Unrecognised
    constructs are a broken tie.
  * histories: random op sequences (length <= 8) on real blocks built from generated
    programs (all block shapes, continuous factors with recording distributions,
    continuous constraints); after every op the abstraction of the real block
    (design / orig_design / continuous factor names, crossings, constraint list by
    identity, min_trials, the four caches with their values, continuous_factor_samples
    keys, errors) is compared with the model state; the facts of the run the model is
    parametric in (strategy class, raised?, number of experiments returned, which of
    the idempotent caches went from empty to filled, the (factor, trial) requests to
    _get_previous_trials_variable_count) are observed on the real run.
Search (the property itself, on the real code): every synthesize_trials of a
history is compared with the same call on a freshly built twin block: if the twin's
call succeeds with valid sequences then the call in the history must succeed, with
the same set of columns, a non-empty result, and sequences the reference oracle
(Design/Sem.v on doc_sem(program); never the library's checker) accepts.
"""
import collections
import hashlib
import json
import os
import shutil
import signal
import tempfile

import common
import docsem
import gen_design
import ir
import writeset
from common import Violation

TITLE = "a block stays usable and unchanged across library calls"
LEVEL = "proof"
DOMAINS = ["Hist", "Design"]

STRATEGIES = ["IterateSATGen", "RandomGen", "CMSGen", "UniGen", "IterateGen", "UniformGen", "SMGen"]
PLAIN_OPS = ["print", "tabulate", "savecsv", "totuples", "todicts"]

# analyser over-approximations (reported by writeset.py, not written by the model), each covered dynamically
OVERAPPROX = {
    ("Block", "min_trials"): "MinimumTrials.apply is reached only through name-based resolution of c.apply(); "
                             "build_backend_request skips MinimumTrials; min_trials is part of the compared abstraction",
    ("Level", "factor"): "Factor.__post_init__ sets level.factor on the levels of the two temporary factors "
                         "tabulate_experiments creates from fresh strings (a Level that already has a factor is rejected)",
}


# --------------------------------------------------------------------------- programs

def add_continuous(rng, program):
    """Adds 1-2 continuous factors (and sometimes a ContinuousConstraint) to the leaf blocks of a program."""
    p = json.loads(json.dumps(program))
    nid = max(f["id"] for f in p["factors"]) + 1
    simple = [f["id"] for f in p["factors"] if f["kind"] == "simple"]
    new = [{"id": nid, "name": "rt", "kind": "continuous", "dist": {"base": 100, "step": 1}}]
    if rng.random() < 0.5:
        dep = rng.choice([[nid], [rng.choice(simple)] if simple else [nid]])
        new.append({"id": nid + 1, "name": "rt2", "kind": "continuous", "dist": {"base": 5000, "step": 3, "deps": dep}})
    cons = []
    if rng.random() < 0.4:
        cid = max([c["id"] for c in p["constraints"]] + [-1]) + 1
        cons.append({"id": cid, "kind": "ContinuousConstraint", "factors": [nid]})
    leaves = [b for b in p["blocks"] if b["kind"] in ("CrossBlock", "MultiCrossBlock")]
    for b in leaves:
        # a depended-on discrete factor has to be in the design
        ok = all(d in b["design"] or d >= nid for f in new for d in f["dist"].get("deps", []))
        if not ok:
            continue
        pos = rng.choice([0, len(b["design"])])
        b["design"] = b["design"][:pos] + [f["id"] for f in new] + b["design"][pos:]
        b["constraints"] = b["constraints"] + [c["id"] for c in cons]
    p["factors"] += new
    p["constraints"] += cons
    return p


def own_corpus():
    f = {"id": 0, "name": "f", "kind": "simple", "levels": [["a", 1], ["b", 1]]}
    g = {"id": 1, "name": "g", "kind": "simple", "levels": [["x", 1], ["y", 1]]}
    rt = {"id": 2, "name": "rt", "kind": "continuous", "dist": {"base": 100, "step": 1}}
    w = {"id": 3, "name": "w", "kind": "simple", "levels": [["p", 2], ["q", 1]]}
    d = {"id": 4, "name": "d", "kind": "derived", "window": {"type": "transition", "deps": [0]},
         "levels": [{"name": "same", "table": [[["a", "a"]], [["b", "b"]]]}, {"name": "diff", "else": True}]}
    out = []
    out.append(("continuous-plain", {
        "factors": [f, g, rt], "constraints": [{"id": 0, "kind": "AtMostKInARow", "k": 1, "level": [0, "a"]}],
        "blocks": [{"id": 0, "kind": "CrossBlock", "design": [0, 1, 2], "crossing": [0, 1], "constraints": [0], "rcc": True}],
        "main": 0}))
    out.append(("continuous-first-in-design", {
        "factors": [f, g, rt], "constraints": [],
        "blocks": [{"id": 0, "kind": "CrossBlock", "design": [2, 0, 1], "crossing": [0], "constraints": [], "rcc": True}],
        "main": 0}))
    out.append(("continuous-implied-derived", {
        "factors": [f, g, rt, d], "constraints": [{"id": 0, "kind": "ContinuousConstraint", "factors": [2]}],
        "blocks": [{"id": 0, "kind": "CrossBlock", "design": [0, 1, 4, 2], "crossing": [0, 1], "constraints": [0], "rcc": True}],
        "main": 0}))
    out.append(("continuous-weighted-uncrossed", {
        "factors": [f, w, rt], "constraints": [],
        "blocks": [{"id": 0, "kind": "CrossBlock", "design": [0, 3, 2], "crossing": [0], "constraints": [], "rcc": True}],
        "main": 0}))
    out.append(("continuous-repeat", {
        "factors": [f, rt], "constraints": [{"id": 0, "kind": "MinimumTrials", "trials": 4}],
        "blocks": [{"id": 0, "kind": "CrossBlock", "design": [0, 2], "crossing": [0], "constraints": [], "rcc": True},
                   {"id": 1, "kind": "Repeat", "block": 0, "constraints": [0]}], "main": 1}))
    out.append(("exclude-warning", {
        "factors": [{"id": 0, "name": "b", "kind": "simple", "levels": [["p", 1], ["q", 1], ["r", 1]]}, g],
        "constraints": [{"id": 0, "kind": "Exclude", "level": [0, "r"]}],
        "blocks": [{"id": 0, "kind": "CrossBlock", "design": [0, 1], "crossing": [0, 1], "constraints": [0], "rcc": False}],
        "main": 0}))
    return out


def programs(ctx):
    out = [("corpus19:" + n, p) for n, p in own_corpus()]
    for n, p in gen_design.corpus():
        out.append(("corpus:" + n, p))
    shapes = ["cross", "cross", "cross", "multi", "repeat", "merge", "nest"]
    n = 70 if ctx.quick else 700
    for i in range(n):
        sh = shapes[i % len(shapes)]
        feats = {"weighted_p": 0.4} if i % 5 == 0 else {}
        p = gen_design.gen_program(ctx.rng, 4000, shape=sh, features=feats)
        if p is None:
            continue
        if ctx.rng.random() < 0.6:
            p = add_continuous(ctx.rng, p)
            out.append((sh + "+continuous", p))
        else:
            out.append((sh, p))
    return out


# a fixed history for the hand-written programs: the without-replacement samplers are asked for more
# sequences than exist, several times on the same block (seed C19-enumerator-cached-on-block)
EXHAUST_OPS = [{"op": "synth", "strategy": "RandomGen", "n": 30}, {"op": "print"},
               {"op": "synth", "strategy": "RandomGen", "n": 30}, {"op": "synth", "strategy": "IterateSATGen", "n": 30},
               {"op": "synth", "strategy": "RandomGen", "n": 30}, {"op": "synth", "strategy": "IterateSATGen", "n": 30}]


def gen_ops(rng):
    n = rng.randint(2, 8)
    ops = []
    for _ in range(n):
        r = rng.random()
        if r < 0.45:
            ops.append({"op": "synth", "strategy": rng.choice(STRATEGIES[:6] * 3 + ["SMGen"]), "n": rng.choice([1, 2, 3])})
        elif r < 0.55:
            ops.append({"op": "mismatch", "restrict": rng.random() < 0.7, "perturb": rng.random() < 0.3})
        else:
            ops.append({"op": rng.choice(PLAIN_OPS + ["print", "print"])})
    if not any(o["op"] == "synth" for o in ops[1:]):
        ops.append({"op": "synth", "strategy": rng.choice(["IterateSATGen", "RandomGen", "IterateGen"]), "n": 2})
    return ops[:8]


# --------------------------------------------------------------------------- abstraction of a real block

def fkey(f):
    from sweetpea._internal.primitive import HiddenName
    return ("~" + str(f.name.name)) if isinstance(f.name, HiddenName) else str(f.name)


def err_token(e):
    lines = str(e).split("\n")
    canon = lines[0] + "|" + "|".join(sorted(lines[1:]))
    return ("WARNING#" if "WARNING" in e else "ERROR#") + hashlib.sha1(canon.encode()).hexdigest()[:10]


class Abstraction:
    """Reads attributes only."""

    def __init__(self, block):
        self.cons_ids = [id(c) for c in block.constraints]
        self.keep = list(block.constraints)     # keep the objects alive: ids stay unique

    def state(self, block, built):
        from sweetpea._internal.primitive import DerivedFactor, HiddenName
        design = []
        for f in block.design:
            derived = isinstance(f, DerivedFactor)
            levels = list(f.levels)
            if derived:
                w = f.first_level.window
                start, stride = int(w.start), int(w.stride)
                cx = bool(f.has_complex_window)
            else:
                start, stride, cx = 0, 1, False
            design.append([fkey(f), isinstance(f.name, HiddenName), len(levels), cx, start, stride,
                           int(block.factor_to_sustain_count.get(f, 1)), any(f is g for g in block.act_design)])
        orig = [[fkey(f), isinstance(f.name, HiddenName)] for f in block.orig_design]
        cont = [str(f.name) for f in block.continuous_factors]
        crossings = [[fkey(f) for f in c] for c in block.crossings]
        cons = []
        for i, c in enumerate(block.constraints):
            cons.append(self.cons_ids.index(id(c)) if id(c) in self.cons_ids else 1000 + i)
        simple = None
        if block._simple_tuples is not None:
            simple = [[fkey(f), list(f.levels).index(l)] for f, l in block._simple_tuples]
        prev = sorted([fkey(f), t, n] for (f, t), n in block._cached_previous_count.items())
        cfs = sorted([int(i), sorted(map(str, d.keys()))] for i, d in block.continuous_factor_samples.items())
        errors = sorted(err_token(e) for e in block.errors)
        used = sorted(set(str(x[0]) for x in getattr(built, "dist_log", [])))
        return {"design": design, "orig": orig, "cont": cont, "crossings": crossings, "constraints": cons,
                "min_trials": int(block.min_trials), "tps": block._trials_per_sample, "vpt": block._variables_per_trial,
                "simple": simple, "prev": prev, "cfs": cfs, "errors": errors, "dist": used,
                "n_errors_raw": len(block.errors)}


def state_wire(a):
    def opt(x):
        return common.Atom("none") if x is None else x
    return common.sexp([a["design"], a["orig"], a["cont"], a["crossings"], a["constraints"], a["min_trials"],
                        opt(a["tps"]), opt(a["vpt"]), opt(a["simple"]), a["prev"], a["cfs"], a["errors"], a["dist"]])


def parse_state(x):
    """model state (parsed S-expression) -> comparable dict"""
    def b(v):
        return v == "true"
    d, od, ct, cr, cs, mn, tps, vpt, sm, pv, cfs, er, du = x
    return {"design": [[str(f[0]), b(f[1]), f[2], b(f[3]), f[4], f[5], f[6], b(f[7])] for f in d],
            "orig": [[str(n), b(h)] for n, h in od], "cont": [str(n) for n in ct],
            "crossings": [[str(n) for n in c] for c in cr], "constraints": list(cs), "min_trials": mn,
            "tps": None if tps == "none" else tps, "vpt": None if vpt == "none" else vpt,
            "simple": None if sm == "none" else [[str(f), l] for f, l in sm],
            "prev": sorted([str(f), t, n] for f, t, n in pv), "cfs": sorted([i, sorted(map(str, ns))] for i, ns in cfs),
            "errors": sorted(map(str, er)), "dist": sorted(map(str, du))}


COMPARED = ["design", "orig", "cont", "crossings", "constraints", "min_trials", "tps", "vpt", "simple", "prev", "cfs",
            "errors", "dist"]


# --------------------------------------------------------------------------- running ops on the real block

class _Timeout(BaseException):
    """not an Exception: ir.synthesize must not swallow it"""


def _alarm(signum, frame):
    raise _Timeout()


class Recorder:
    """Observes the calls of Block._get_previous_trials_variable_count on one block (class-level patch,
    restored on exit; nothing is stored on the block)."""

    def __init__(self, block):
        self.block = block
        self.reqs = []

    def __enter__(self):
        from sweetpea._internal.block import Block
        self.cls = Block
        self.orig = Block._get_previous_trials_variable_count
        rec = self

        def wrapper(blk, f, trial):
            if blk is rec.block:
                rec.reqs.append([fkey(f), int(trial)])
            return rec.orig(blk, f, trial)
        Block._get_previous_trials_variable_count = wrapper
        return self

    def __exit__(self, *a):
        self.cls._get_previous_trials_variable_count = self.orig


def strategy_class(block, name):
    if name in ("IterateSATGen", "CMSGen", "UniGen"):
        return "sat"
    if name == "RandomGen":
        return "random"
    if name == "SMGen":
        return "sm"
    return "sat" if block.complex_factors_or_constraints else "random"


_CSV = [0]


def run_real_op(block, built, op, hist, tmpdir, timeout=8):
    """Executes one op; returns the record of what was observed."""
    import sweetpea as sp
    rec = {"op": op}
    before_vpt, before_simple = block._variables_per_trial, block._simple_tuples
    exps = hist["last"]
    old = signal.signal(signal.SIGALRM, _alarm)
    signal.alarm(timeout)
    try:
        with Recorder(block) as r, ir.quiet():
            try:
                if op["op"] == "synth":
                    rec["class"] = strategy_class(block, op["strategy"])
                    res = ir.synthesize(block, op["n"], op["strategy"])
                    rec["result"] = res
                    if res[0] == "ok":
                        if res[1]:
                            hist["last"] = res[1]
                    else:
                        rec["raised"] = res[1]
                elif op["op"] == "print":
                    sp.print_experiments(block, exps)
                elif op["op"] == "tabulate":
                    sp.tabulate_experiments(block, exps)
                elif op["op"] == "savecsv":
                    _CSV[0] += 1
                    prefix = os.path.join(tmpdir, "e%d" % _CSV[0])
                    sp.save_experiments_csv(block, exps, prefix)
                    fn = prefix + "_0.csv"
                    if os.path.exists(fn):
                        rec["keys"] = open(fn).readline().rstrip("\r\n").split(",")
                    for k in range(len(exps)):
                        if os.path.exists("%s_%d.csv" % (prefix, k)):
                            os.remove("%s_%d.csv" % (prefix, k))
                elif op["op"] == "totuples":
                    t = sp.experiments_to_tuples(block, exps)
                    if t and t[0]:
                        rec["width"] = len(t[0][0])
                elif op["op"] == "todicts":
                    t = sp.experiments_to_dicts(block, exps)
                    if t and t[0]:
                        rec["keys"] = list(t[0][0].keys())
                elif op["op"] == "mismatch":
                    smp = exps[0] if exps else {}
                    if op.get("restrict"):
                        cont = set(str(f.name) for f in block.continuous_factors)
                        smp = {k: v for k, v in smp.items() if k not in cont}
                    if op.get("perturb") and smp:
                        k0 = sorted(smp)[0]
                        smp = dict(smp)
                        smp[k0] = list(reversed(smp[k0]))
                    sp.sample_mismatch_experiment(block, smp)
            except _Timeout:
                rec["raised"] = "timeout"
            except Exception as e:  # noqa
                rec["raised"] = type(e).__name__
        rec["reqs"] = r.reqs
    except _Timeout:
        rec["raised"] = "timeout"
        rec["reqs"] = []
    finally:
        signal.alarm(0)
        signal.signal(signal.SIGALRM, old)
    hist["n"] += 1
    rec["touch_vpt"] = (not before_vpt) and bool(block._variables_per_trial)
    rec["touch_simple"] = (not before_simple) and bool(block._simple_tuples)
    return rec


def op_wire(rec):
    op = rec["op"]
    A = common.Atom
    raised = "raised" in rec
    if op["op"] == "synth":
        k = len(rec["result"][1]) if rec.get("result", ("x",))[0] == "ok" else 0
        return [A("synth"), A(rec["class"]), raised, k, rec["touch_vpt"], rec["touch_simple"], rec["reqs"]]
    if op["op"] == "mismatch":
        return [A("mismatch"), raised, rec["touch_vpt"], rec["reqs"]]
    return A(op["op"])


# --------------------------------------------------------------------------- one history

def baseline(cache, program, strategy, n):
    """The same synthesize_trials call on a freshly built block."""
    key = (strategy, n)
    if key not in cache:
        b = ir.build(program)
        blk = ir.main_block(b, program)
        old = signal.signal(signal.SIGALRM, _alarm)
        signal.alarm(8)
        try:
            r = ir.synthesize(blk, n, strategy)
        except _Timeout:
            r = ("error", "timeout", "")
        finally:
            signal.alarm(0)
            signal.signal(signal.SIGALRM, old)
        cache[key] = r
    return cache[key]


def run_history(program, ops, tmpdir, base_cache=None, with_model_inputs=True):
    """Runs the ops on one freshly built block.  Returns None if the constructor rejects the program."""
    built = ir.build(program)
    block = ir.main_block(built, program)
    if block is None:
        return None
    base_cache = {} if base_cache is None else base_cache
    ab = Abstraction(block)
    with ir.quiet():
        s0 = ab.state(block, built)
    hist = {"last": [], "n": 0}
    # conversions before any synthesis work on the experiments of a twin block
    first = baseline(base_cache, program, "IterateSATGen", 2)
    if first[0] == "ok":
        hist["last"] = first[1]
    recs = []
    states = []
    for op in ops:
        rec = run_real_op(block, built, op, hist, tmpdir)
        with ir.quiet():
            try:
                states.append(ab.state(block, built))
            except Exception as e:  # noqa
                rec["abstraction_failed"] = type(e).__name__
                states.append(None)
        recs.append(rec)
    return {"s0": s0, "recs": recs, "states": states, "base": base_cache, "block": block}


def judge_history(program, ops, h, ds):
    """The property itself on the real run: list of (sig, what, op index, seqs to be judged by the oracle)."""
    found = []
    pending = []       # (op index, sample) to be judged by the oracle
    first_cols = None
    for i, (op, rec) in enumerate(zip(ops, h["recs"])):
        if op["op"] != "synth":
            continue
        base = baseline(h["base"], program, op["strategy"], op["n"])
        if base[0] != "ok" or not base[1]:
            continue       # the call fails (or returns nothing) on a fresh block as well: not a history effect
        res = rec["result"] if "result" in rec else ("error", rec.get("raised", "?"), "")
        bcols = sorted(map(str, base[1][0].keys()))
        if res[0] != "ok":
            if res[1] == "timeout":
                continue
            found.append(("history:synthesis-raises:" + str(res[1]),
                          "op %d %s raises %s: %s, while the same call on a fresh block returns %d sequences"
                          % (i, json.dumps(op), res[1], res[2][:120], len(base[1])), i))
            continue
        if not res[1]:
            found.append(("history:synthesis-empty",
                          "op %d %s returns no sequence, while the same call on a fresh block returns %d" %
                          (i, json.dumps(op), len(base[1])), i))
            continue
        if len(res[1]) < len(base[1]) and op["strategy"] in ("IterateSATGen", "RandomGen", "IterateGen"):
            # without replacement: min(requested, available) sequences, whatever was drawn before
            found.append(("history:synthesis-fewer",
                          "op %d %s returns %d sequences, while the same call on a fresh block returns %d" %
                          (i, json.dumps(op), len(res[1]), len(base[1])), i))
            continue
        for e in res[1]:
            cols = sorted(map(str, e.keys()))
            if cols != bcols:
                found.append(("history:columns-changed",
                              "op %d %s returns columns %s; on a fresh block %s" % (i, json.dumps(op), cols, bcols), i))
                break
        if first_cols is None:
            first_cols = (i, sorted(map(str, res[1][0].keys())))
        elif sorted(map(str, res[1][0].keys())) != first_cols[1]:
            found.append(("history:columns-changed",
                          "op %d returns columns %s, the first synthesis (op %d) returned %s"
                          % (i, sorted(map(str, res[1][0].keys())), first_cols[0], first_cols[1]), i))
        if ds is not None:
            for e in res[1]:
                pending.append((i, e, True))
            for e in base[1]:
                pending.append((i, e, False))
    return found, pending


def oracle_lines(lines):
    """The reference semantics is served by the Design driver binary."""
    if not lines:
        return []
    return common.run_model(lines, domain="Design")


def oracle_judge(ds, samples):
    seqs = []
    for e in samples:
        q = docsem.seq_of_sample(ds, e)
        seqs.append(q if q is not None else [[-1] * ds.T for _ in ds.forder])
    out = oracle_lines(["(valid %s %s)" % (docsem.to_wire(ds.sem), docsem.to_wire(seqs))])[0]
    if out.startswith("!"):
        return None
    return [x == "true" for x in common.parse_sexp(out)[0]]


def fresh_shows(program, op, kind, ds, tries=4):
    """Does the failure class `kind` of a synthesis call show on freshly built blocks too?  (Samplers are
    randomised: a call that sometimes fails on an untouched block is not a history effect.)"""
    for _ in range(tries):
        r = baseline({}, program, op["strategy"], op["n"])
        if kind == "raises" and r[0] != "ok":
            return True
        if kind == "empty" and r[0] == "ok" and not r[1]:
            return True
        if kind == "invalid" and r[0] == "ok" and r[1] and ds is not None:
            v = oracle_judge(ds, r[1])
            if v is not None and not all(v):
                return True
    return False


def kind_of(sig):
    if sig.startswith("history:synthesis-raises"):
        return "raises"
    if sig == "history:synthesis-empty":
        return "empty"
    if sig == "history:invalid-sequence":
        return "invalid"
    return "columns"


def fails_detailed(program, ops):
    """Replays a history; the confirmed failures of the property as (sig, what)."""
    tmpdir = tempfile.mkdtemp(prefix="verif_c19_", dir="/tmp")
    try:
        h = run_history(program, ops, tmpdir)
        if h is None:
            return []
        try:
            ds = docsem.doc_sem(program)
        except Exception:  # noqa
            ds = None
        found, pending = judge_history(program, ops, h, ds)
        out = [(sig, what, i) for sig, what, i in found]
        if ds is not None and pending:
            verdicts = oracle_judge(ds, [e for _, e, _ in pending])
            if verdicts is not None:
                base_ok = collections.defaultdict(lambda: True)
                for (i, e, mine), v in zip(pending, verdicts):
                    if not mine and not v:
                        base_ok[i] = False
                for (i, e, mine), v in zip(pending, verdicts):
                    if mine and not v and base_ok[i]:
                        out.append(("history:invalid-sequence", INVALID_WHAT % (i, json.dumps(ops[i]), json.dumps(e)[:300]), i))
        res = []
        for sig, what, i in out:
            if kind_of(sig) != "columns" and fresh_shows(program, ops[i], kind_of(sig), ds):
                continue
            res.append((sig, what))
        return res
    finally:
        shutil.rmtree(tmpdir, ignore_errors=True)


INVALID_WHAT = ("op %d %s returns %s, which the reference semantics rejects, while the same call on freshly built blocks "
                "returns only valid sequences")


def fails(program, ops):
    return [sig for sig, _ in fails_detailed(program, ops)]


def shrink_ops(program, ops, sig):
    ops = list(ops)
    changed = True
    while changed and len(ops) > 1:
        changed = False
        for i in range(len(ops)):
            cand = ops[:i] + ops[i + 1:]
            if not any(o["op"] == "synth" for o in cand):
                continue
            try:
                if sig in fails(program, cand):
                    ops = cand
                    changed = True
                    break
            except Exception:  # noqa
                pass
    return ops


# --------------------------------------------------------------------------- the check

def sweetpea_root():
    import sweetpea
    return os.path.dirname(os.path.dirname(os.path.abspath(sweetpea.__file__)))


SELFTEST = {   # seeded source edits the analyser must notice (as a write or as an unrecognised construct)
    "restore_continuous": "    block.restore_continuous()\n",
    "alias-append": "    d = block.design\n    d.append(block.continuous_factors[0])\n",
    "getattr-call": "    getattr(block, 'restore_' + 'continuous')()\n",
    "shallow-copy": "    import copy\n    copy.copy(block).design.append(1)\n",
}


def analyser_selftest(root, baseline_pairs):
    """The analyser is run on scratch copies of the source with print_experiments edited to write block.design in
    four ways; each edit has to show up.  Returns the names of the edits it missed."""
    anchor = "    ls_name = None\n    ls_dlen = 0\n"
    src = os.path.join(root, "sweetpea", "_internal", "main.py")
    base = open(src).read()
    if anchor not in base:
        return ["anchor-missing"]
    tmp = tempfile.mkdtemp(prefix="verif_c19_ws_", dir="/tmp")
    missed = []
    try:
        shutil.copytree(os.path.join(root, "sweetpea"), os.path.join(tmp, "sweetpea"),
                        ignore=shutil.ignore_patterns("__pycache__", "tests", "*.pyc"))
        for name, code in SELFTEST.items():
            open(os.path.join(tmp, "sweetpea", "_internal", "main.py"), "w").write(base.replace(anchor, code + anchor, 1))
            r = writeset.analyse(writeset.C19_ENTRIES, tmp)
            if not (set(r.pairs()) - baseline_pairs) and not r.unrecognised:
                missed.append(name)
    finally:
        shutil.rmtree(tmp, ignore_errors=True)
    return missed


def check_writeset(ctx, res):
    root = sweetpea_root()
    rep = writeset.analyse(writeset.C19_ENTRIES, root)
    out = ctx.model(["(writes19)"])[0]
    declared = set((str(o), str(a)) for o, a in common.parse_sexp(out)[0])
    found = set(rep.pairs())
    undeclared = sorted(found - declared - set(OVERAPPROX))
    res.extra["writeset"] = {"source": root, "functions_reached": len(rep.reached), "writes_found": sorted(map(list, found)),
                            "declared_by_model": sorted(map(list, declared)),
                            "analyser_overapproximations": {"%s.%s" % k: v for k, v in OVERAPPROX.items()},
                            "declared_not_found": sorted(map(list, declared - found)),
                            "unrecognised": rep.unrecognised[:20],
                            "writes_into_plain_parameters": sorted(map(list, rep.param_item_writes))}
    res.layer("writeset:recognised", not rep.unrecognised)
    res.layer("writeset:declared", not undeclared)
    missed = analyser_selftest(root, found)
    res.extra["writeset"]["selftest_edits_missed"] = missed
    res.layer("writeset:selftest", not missed)
    problems = []
    if missed:
        problems.append(Violation("corr:writeset-selftest", "the write-set analyser does not notice seeded writes of block.design: %s"
                                  % missed, {"layer": "writeset", "missed": missed}, failing_input=False))
    if rep.unrecognised:
        problems.append(Violation(
            "corr:writeset-unrecognised",
            "the write-set analyser met %d constructs it does not understand in the code reachable from the seven public "
            "calls (fail-closed), e.g. %s" % (len(rep.unrecognised), rep.unrecognised[0]),
            {"layer": "writeset", "unrecognised": rep.unrecognised[:40], "theorems": ["C19_ops_preserve_meaning"]},
            failing_input=False))
    if undeclared:
        where = {"%s.%s" % k: rep.writes[k][:3] for k in undeclared}
        problems.append(Violation(
            "corr:writeset",
            "the public calls can write attributes the model Hist/BlockState.v does not declare: %s" % json.dumps(where),
            {"layer": "writeset", "undeclared": where, "theorems": ["C19_ops_preserve_meaning"]}, failing_input=False))
    return problems


def run(ctx, res):
    res.rule = ("blocks: hand-written corpus + gen_design.gen_program(max_space 4000) over all block shapes, 60% with 1-2 "
                "continuous factors (recording CustomDistribution, possibly depending on another factor) and sometimes a "
                "ContinuousConstraint; histories: 2-8 ops drawn from synthesize_trials x {IterateSATGen, RandomGen, CMSGen, "
                "UniGen, IterateGen, UniformGen, SMGen} x n in 1..3, print_experiments, tabulate_experiments, "
                "save_experiments_csv, experiments_to_tuples, experiments_to_dicts, sample_mismatch_experiment; "
                "non-trivial = history with at least two synthesis calls or a synthesis after another call on a block the "
                "constructor accepts; distinct by (program, history)")
    stats = collections.Counter()
    tie = check_writeset(ctx, res)
    tmpdir = tempfile.mkdtemp(prefix="verif_c19_", dir="/tmp")
    runs = []
    try:
        per_prog = 2 if ctx.quick else 3
        for name, program in programs(ctx):
            try:
                ds = docsem.doc_sem(program)
            except Exception:  # noqa
                ds = None
                stats["programs:outside-docsem"] += 1
            base_cache = {}
            fixed = [EXHAUST_OPS] if name.startswith("corpus19:") or name in ("corpus:stroop", "corpus:repeat-partial-window") else []
            for k in range(per_prog + len(fixed)):
                ops = fixed[k - per_prog] if k >= per_prog else gen_ops(ctx.rng)
                h = run_history(program, ops, tmpdir, base_cache)
                if h is None:
                    stats["programs:constructor-rejects"] += 1
                    break
                runs.append((name, program, ops, h, ds))
    finally:
        shutil.rmtree(tmpdir, ignore_errors=True)

    # ---- model: one call
    lines = []
    for name, program, ops, h, ds in runs:
        s0 = h["s0"]
        T = s0["tps"] if s0["tps"] else 0
        lines.append("(hist19 %s %d %s %s)" % (state_wire(s0), T, common.sexp(s0["errors"]),
                                               common.sexp([op_wire(r) for r in h["recs"]])))
    outs = ctx.model(lines) if lines else []
    corr_bad = []
    for (name, program, ops, h, ds), line in zip(runs, outs):
        nontrivial = sum(1 for o in ops if o["op"] == "synth") >= 2 or any(
            o["op"] == "synth" for o in ops[1:])
        res.count((json.dumps(program, sort_keys=True), json.dumps(ops)), nontrivial=nontrivial)
        stats["histories"] += 1
        stats["blocks:with-continuous" if h["s0"]["cont"] else "blocks:discrete-only"] += 1
        if line.startswith("!"):
            res.layer("history:state", False)
            corr_bad.append((name, program, ops, 0, "model failed: " + line[:100]))
            continue
        steps = common.parse_sexp(line)
        for i, (rec, real, st) in enumerate(zip(h["recs"], h["states"], steps)):
            op = rec["op"]
            stats["op:" + op["op"] + (":" + op["strategy"] if op["op"] == "synth" else "")] += 1
            if "raised" in rec:
                stats["raised:%s:%s" % (op["op"], rec["raised"])] += 1
            if real is None:
                res.layer("history:state", False)
                corr_bad.append((name, program, ops, i, "abstraction of the real block failed: %s" % rec.get("abstraction_failed")))
                break
            model = parse_state(st[0])
            diff = [k for k in COMPARED if model[k] != real[k]]
            grew_real = real["n_errors_raw"] - h["s0"]["n_errors_raw"]
            grew_model = len(model["errors"]) - len(h["s0"]["errors"])
            if grew_real != grew_model:
                diff.append("errors-grew")
            res.layer("history:state", not diff)
            if diff:
                corr_bad.append((name, program, ops, i, "after op %d %s: fields %s differ; e.g. %s: real %s model %s" % (
                    i, json.dumps(op), diff, diff[0], json.dumps(real.get(diff[0]))[:200], json.dumps(model.get(diff[0]))[:200])))
                break
            # outputs
            mo = st[1]
            ok = True
            why = ""
            if op["op"] == "synth" and "raised" not in rec:
                r = rec["result"]
                if mo == "refused":
                    ok = (r[1] == [])
                    stats["synth:refused-by-show_errors"] += 1
                elif isinstance(mo, list) and mo[0] == "cols":
                    # a dict has one entry per name: the model's column list is compared as a set
                    mcols = sorted(set(map(str, mo[2])))
                    ok = (mo[1] == len(r[1])) and all(sorted(map(str, e.keys())) == mcols for e in r[1])
                    why = "model columns %s real %s" % (mcols, [sorted(map(str, e.keys())) for e in r[1]][:1])
                    stats["synth:returned-%d" % min(len(r[1]), 3)] += 1
                else:
                    ok = False
                    why = "model output %r" % (mo,)
                if rec["class"] == "sm" and not ok:
                    # SMGen works from orig_design and bypasses the block's desugared design: its column set is
                    # property C29's business; the state comparison above still applies
                    stats["synth:smgen-columns-differ(C29)"] += 1
                    ok = True
                res.layer("history:synthesis-columns", ok)
            elif op["op"] in ("todicts", "savecsv") and "raised" not in rec and "keys" in rec:
                mk = [str(x) for x in mo[1]] if isinstance(mo, list) and mo[0] == "keys" else None
                if mk is not None and op["op"] == "todicts":
                    mk = list(dict.fromkeys(mk))     # dict(zip(keys, values)) keeps one entry per name
                ok = mk == [str(x) for x in rec["keys"]]
                why = "model keys %s real %s" % (mo, rec["keys"])
                res.layer("history:conversion-keys", ok)
            elif op["op"] == "totuples" and "raised" not in rec and "width" in rec:
                ok = isinstance(mo, list) and mo[0] == "keys" and len(mo[1]) == rec["width"]
                why = "model keys %s real width %s" % (mo, rec["width"])
                res.layer("history:conversion-keys", ok)
            elif op["op"] == "tabulate":
                if mo == "raise":
                    ok = rec.get("raised") == "RuntimeError"
                    why = "model says tabulate raises (not exactly one crossing); real: %s" % rec.get("raised")
                    res.layer("history:tabulate", ok)
            if not ok:
                corr_bad.append((name, program, ops, i, "output of op %d %s: %s" % (i, json.dumps(op), why)))
                break
        if len(res.samples) < 5 and nontrivial:
            res.sample({"program": name, "ops": [o["op"] + (":" + o["strategy"] if o["op"] == "synth" else "") for o in ops],
                        "continuous": h["s0"]["cont"], "trials": h["s0"]["tps"]})

    # ---- search: the property itself
    cands = collections.defaultdict(list)
    pend_all = []
    for name, program, ops, h, ds in runs:
        fnd, pending = judge_history(program, ops, h, ds)
        for sig, what, i in fnd:
            stats["search:candidate:" + sig] += 1
            cands[sig].append((name, program, ops))
        if ds is not None and pending:
            pend_all.append((name, program, ops, ds, pending))
    lines = []
    for name, program, ops, ds, pending in pend_all:
        seqs = []
        for _, e, _ in pending:
            q = docsem.seq_of_sample(ds, e)
            seqs.append(q if q is not None else [[-1] * ds.T for _ in ds.forder])
        lines.append("(valid %s %s)" % (docsem.to_wire(ds.sem), docsem.to_wire(seqs)))
    outs = oracle_lines(lines)
    for (name, program, ops, ds, pending), line in zip(pend_all, outs):
        if line.startswith("!"):
            stats["search:oracle-failed"] += 1
            continue
        verdicts = [x == "true" for x in common.parse_sexp(line)[0]]
        base_ok = collections.defaultdict(lambda: True)
        for (i, e, mine), v in zip(pending, verdicts):
            if not mine and not v:
                base_ok[i] = False
        for (i, e, mine), v in zip(pending, verdicts):
            if not mine:
                continue
            stats["search:sequences-judged"] += 1
            if not base_ok[i]:
                stats["search:skipped-fresh-block-invalid-too"] += 1
                continue
            if not v:
                stats["search:candidate:history:invalid-sequence"] += 1
                cands["history:invalid-sequence"].append((name, program, ops))
    # a candidate counts only if it replays and the same failure never shows on freshly built blocks
    for sig, lst in sorted(cands.items()):
        for name, program, ops in lst[:6]:
            det = [d for d in fails_detailed(program, ops) if d[0] == sig]
            if not det:
                stats["search:not-confirmed(fresh blocks fail alike or not reproducible):" + sig] += 1
                continue
            small = shrink_ops(program, ops, sig)
            det2 = [d for d in fails_detailed(program, small) if d[0] == sig] or det
            res.violations.append(Violation(sig, "%s: history %s on program %s: %s" % (
                name, json.dumps(small), json.dumps(program), det2[0][1]),
                {"program": program, "ops": small, "original_ops": ops, "sig": sig}))
            stats["search:confirmed:" + sig] += 1
            break
    if corr_bad:
        name, program, ops, i, why = corr_bad[0]
        tie.append(Violation("corr:history", "model Hist/BlockState.v and the real block disagree on %d histories, e.g. %s: %s"
                             % (len(corr_bad), name, why),
                             {"layer": "history", "program": program, "ops": ops, "why": why,
                              "theorems": ["C19_ops_preserve_meaning", "C19_later_synthesis_same_columns"]}, failing_input=False))
    res.violations.extend(tie)
    res.extra["distribution"] = dict(sorted(stats.items()))
    res.notes.append("later synthesis calls are judged against the same call on a freshly built twin block and by Sem.valid_b "
                     "on doc_sem(program); calls that fail on the fresh block too belong to other properties and are skipped")


def replay(ctx, data):
    if "program" not in data or "ops" not in data:
        return False
    sigs = fails(data["program"], data["ops"])
    want = data.get("sig")
    return (want in sigs) if want else bool(sigs)
