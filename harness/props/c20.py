"""C20 - Output conversions preserve trials and hide internal factors.

Theorems: coq/theories/Properties/C20.v (about Out/Convert.v).
Correspondence: real blocks built with the public API from a seeded generator
(1-3 simple factors x 2-3 levels, weighted levels inside / outside the crossing,
a derived factor, sometimes a continuous factor), synthesized with RandomGen /
IterateSATGen; the extracted model is run on the same data:
  design      block.design names (with HiddenName marks)          vs Convert.block_design
  synth-post  what synthesize_trials returns, given the observed
              add_implied_levels / sample_continuous results      vs Convert.synth_post
  tuples/dicts/csv  experiments_to_tuples / _dicts / save_experiments_csv
              (CSV files written below /tmp, read back, removed)  vs Convert.experiments_to_* / save_experiments_csv
  raw-*       _experiments_to_tuples/_dicts/_csv on arbitrary (also ragged,
              key-missing, duplicate-key) dict lists                vs Convert.tuples_of/dicts_of/csv_of
Search (the property itself, oracle independent of the code and of the model):
every conversion output is compared cell by cell with the dict synthesize_trials
returned (and with arbitrary rectangular experiments) for exactly the
user-declared factor names in declaration order; no key of any output or of the
synthesize_trials result is anything but a user-declared name.
"""
import contextlib
import csv
import io
import os
import random
import shutil
import tempfile

from common import Violation, sexp, Atom, parse_sexp, StrTok

TITLE = "output conversions"
LEVEL = "proof"
DOMAINS = ['Out']

FNAMES = ["color", "word", "task", "resp", "dir", "size", "f 1", "Kind"]
LNAMES = ["red", "blue", "green", "x", "y", "z", "left", "right", "up", "a b", "1", "2", "café", "lo,hi",
          'q"t', "Red", "-"]
WEIRD = ["", " ", "a,b", 'say "hi"', "x;y", "αβ", "tab\tbed", "'", "0", "-3", "None", "a|b"]


# --------------------------------------------------------------------------- specs -> real objects

def gen_spec(rng):
    """A JSON-serialisable description of a block built with the public API
    (crossing size, weights included, at most 12, and at most 8 for RandomGen
    with weights in the crossing: RandomGen needs minutes on larger weighted
    crossings, which is not this property's business)."""
    while True:
        spec = gen_spec1(rng)
        size = 1
        for f in spec["simple"]:
            if f["name"] in spec["crossing"]:
                size *= sum(f["weights"])
        if spec["derived"] and spec["derived"]["name"] in spec["crossing"]:
            size *= 2
        if size > 12:
            continue
        weighted_crossing = any(w > 1 for f in spec["simple"] if f["name"] in spec["crossing"] for w in f["weights"])
        if weighted_crossing and size > 8:
            spec["gen"] = "IterateSATGen"
        return spec


def gen_spec1(rng):
    nsimple = rng.randint(1, 3)
    names = rng.sample(FNAMES, nsimple + 2)
    simple = []
    for i in range(nsimple):
        nl = rng.randint(2, 3)
        lv = rng.sample(LNAMES, nl)
        if rng.random() < 0.5:
            ws = [rng.choice([1, 1, 2, 3]) for _ in lv]
        else:
            ws = [1] * nl
        simple.append({"name": names[i], "levels": lv, "weights": ws})
    # crossing: non-empty subset of the simple factors
    k = rng.randint(1, nsimple)
    crossing = [f["name"] for f in rng.sample(simple, k)]
    spec = {"simple": simple, "derived": None, "cont": None}
    if rng.random() < 0.6:
        kind = "transition" if rng.random() < 0.25 else "within"
        deps = rng.sample(simple, 1 if kind == "transition" else rng.randint(1, min(2, nsimple)))
        dn = [f["name"] for f in deps]
        if kind == "within":
            combos = [[]]
            for f in deps:
                combos = [c + [l] for c in combos for l in f["levels"]]
            nt = rng.randint(1, len(combos) - 1)
            true = rng.sample(combos, nt)
        else:
            true = []
        spec["derived"] = {"name": names[nsimple], "kind": kind, "deps": dn, "true": true,
                           "levels": rng.sample(["same", "diff", "yes", "no", "T", "F"], 2)}
        # the derived factor joins the crossing sometimes, if it does not depend on it
        if kind == "within" and rng.random() < 0.3 and not (set(dn) & set(crossing)):
            crossing = crossing + [names[nsimple]]
    if rng.random() < 0.4:
        dep = rng.choice(simple)["name"] if rng.random() < 0.4 else None
        spec["cont"] = {"name": names[nsimple + 1], "dep": dep, "base": rng.randint(-5, 50)}
    order = [f["name"] for f in simple]
    if spec["derived"]:
        order.append(spec["derived"]["name"])
    if spec["cont"]:
        order.append(spec["cont"]["name"])
    if rng.random() < 0.5:
        rng.shuffle(order)
    spec["order"] = order
    spec["crossing"] = crossing
    spec["gen"] = rng.choice(["RandomGen", "IterateSATGen"])
    spec["samples"] = rng.randint(1, 3)
    spec["seed"] = rng.randint(0, 10 ** 6)
    spec["min_trials"] = rng.choice([None, None, None, rng.randint(2, 7)])
    return spec


def declared_names(spec):
    return list(spec["order"])


def build_block(spec):
    from sweetpea import (Factor, Level, DerivedLevel, ElseLevel, WithinTrial, Transition, CrossBlock,
                          ContinuousFactor, CustomDistribution, MinimumTrials)
    objs = {}
    for f in spec["simple"]:
        objs[f["name"]] = Factor(f["name"], [Level(l, w) if w != 1 else l for l, w in zip(f["levels"], f["weights"])])
    d = spec["derived"]
    if d:
        deps = [objs[n] for n in d["deps"]]
        if d["kind"] == "within":
            true = set(tuple(t) for t in d["true"])
            win = WithinTrial(lambda *vals: tuple(vals) in true, deps)
        else:
            win = Transition(lambda c: c[-1] == c[0], deps)
        objs[d["name"]] = Factor(d["name"], [DerivedLevel(d["levels"][0], win), ElseLevel(d["levels"][1])])
    c = spec["cont"]
    counter = [c["base"] if c else 0]
    if c:
        if c["dep"] is None:
            def draw():
                counter[0] += 3
                return counter[0]
            dist = CustomDistribution(draw)
        else:
            def draw(v):
                counter[0] += 1
                return len(v) * 100 + counter[0]
            dist = CustomDistribution(draw, [objs[c["dep"]]])
        objs[c["name"]] = ContinuousFactor(c["name"], distribution=dist)
    design = [objs[n] for n in spec["order"]]
    crossing = [objs[n] for n in spec["crossing"]]
    constraints = [MinimumTrials(spec["min_trials"])] if spec["min_trials"] else []
    return CrossBlock(design, crossing, constraints), objs


def quiet(f, *a, **k):
    buf = io.StringIO()
    with contextlib.redirect_stdout(buf):
        return f(*a, **k)


class CaseTimeout(Exception):
    pass


@contextlib.contextmanager
def time_limit(seconds):
    import signal

    def handler(*a):
        raise CaseTimeout()
    old = signal.signal(signal.SIGALRM, handler)
    signal.alarm(seconds)
    try:
        yield
    finally:
        signal.alarm(0)
        signal.signal(signal.SIGALRM, old)


def synthesize(spec):
    """Build the block and synthesize; observes add_implied_levels / sample_continuous."""
    import sweetpea
    from sweetpea import synthesize_trials
    block, objs = build_block(spec)
    rec = {"implied": [], "cont": []}
    orig_implied = block.add_implied_levels
    orig_cont = block.sample_continuous

    def implied(e):
        r = orig_implied(e)
        rec["implied"].append([(k, list(v)) for k, v in r.items()])
        return r

    def cont(num, trial):
        r = orig_cont(num, trial)
        rec["cont"].append([(k, list(v)) for k, v in r.items()])
        return r

    block.add_implied_levels = implied
    block.sample_continuous = cont
    random.seed(spec["seed"])
    gen = getattr(sweetpea, spec["gen"])
    with time_limit(8):
        ex = quiet(synthesize_trials, block, spec["samples"], gen)
    del block.add_implied_levels
    del block.sample_continuous
    return block, objs, ex, rec


# --------------------------------------------------------------------------- canonical forms / wire

class Unsupported(Exception):
    pass


def canon_value(v):
    if isinstance(v, bool) or not isinstance(v, (str, int)):
        raise Unsupported(repr(type(v)))
    return v


def w_value(v):
    v = canon_value(v)
    return [Atom("s"), v] if isinstance(v, str) else [Atom("n"), v]


def canon_key(k):
    from sweetpea._internal.primitive import HiddenName
    if isinstance(k, str):
        return ("p", k)
    if isinstance(k, HiddenName):
        return ("h", k.name)
    raise Unsupported(repr(type(k)))


def w_key(ck):
    return [Atom(ck[0]), ck[1]]


def w_exp(items):
    """items: list of (key, list of values)"""
    return [[w_key(canon_key(k)), [w_value(v) for v in vs]] for k, vs in items]


def w_design(spec):
    kinds = {}
    for f in spec["simple"]:
        kinds[f["name"]] = [Atom("simple"), f["name"], list(f["weights"])]
    if spec["derived"]:
        kinds[spec["derived"]["name"]] = [Atom("derived"), spec["derived"]["name"], list(spec["derived"]["deps"])]
    if spec["cont"]:
        kinds[spec["cont"]["name"]] = [Atom("cont"), spec["cont"]["name"]]
    return [kinds[n] for n in spec["order"]]


def w_cross(spec):
    return [list(spec["crossing"])]


def p_value(x):
    return str(x) if isinstance(x, StrTok) else x


def p_key(x):
    return (x[0], str(x[1]))


def p_res(line, f):
    if line.startswith("!"):
        return ("model-error", line)
    r = parse_sexp(line)[0]
    if r[0] == "err":
        return ("error", r[1])
    return ("ok", f(r[1]))


def p_tuples(x):
    return [[tuple(p_value(v) for v in row) for row in e] for e in x]


def p_dicts(x):
    return [[sorted((p_key(k), p_value(v)) for k, v in row) for row in e] for e in x]


def p_csv(x):
    return [([p_key(k) for k in hdr], [[p_value(v) for v in row] for row in rows]) for hdr, rows in x]


def real_tuples(f, *a):
    try:
        r = f(*a)
    except Exception as e:  # noqa
        return ("error", type(e).__name__)
    return ("ok", [[tuple(canon_value(v) for v in row) for row in e] for e in r])


def real_dicts(f, *a):
    try:
        r = f(*a)
    except Exception as e:  # noqa
        return ("error", type(e).__name__)
    return ("ok", [[sorted((canon_key(k), canon_value(v)) for k, v in row.items()) for row in e] for e in r])


def read_csv_files(prefix, n):
    out = []
    for i in range(n):
        p = "%s_%d.csv" % (prefix, i)
        with open(p, newline="") as fh:
            rows = list(csv.reader(fh))
        out.append((rows[0] if rows else None, rows[1:]))
    return out


def real_csv(tmp, tag, n, f, *args):
    """Runs a CSV writer of the real code (n experiments) into tmp; returns
    ("ok", [(header, rows of str)]) or an error."""
    prefix = os.path.join(tmp, tag)
    try:
        quiet(f, *args, prefix)
    except Exception as e:  # noqa
        return ("error", type(e).__name__)
    return ("ok", read_csv_files(prefix, n))


def csv_render(model_csv):
    """The model's CSV (fnames, values) as csv.reader gives it back: strings."""
    return [([k[1] for k in hdr], [[str(v) for v in row] for row in rows]) for hdr, rows in model_csv]


# --------------------------------------------------------------------------- arbitrary experiments

def gen_value(rng):
    r = rng.random()
    if r < 0.55:
        return rng.choice(LNAMES)
    if r < 0.8:
        return rng.choice(WEIRD)
    v = rng.randint(-20, 2000) if rng.random() < 0.9 else rng.choice([10 ** 20, -10 ** 19])
    # one numeric value in seven is 0: a falsy level value is a legitimate one (seeded change
    # C20-csv-falsy-level-blank wrote it as an empty cell); same number of PRNG draws as before
    return 0 if v % 7 == 0 else v


def gen_rect_exps(rng, names, hidden_ok=True):
    """Well-formed (rectangular) experiments over exactly the given names, plus
    sometimes HiddenName keys, which a caller could only get from the library."""
    from sweetpea._internal.primitive import HiddenName
    exps = []
    for _ in range(rng.randint(0, 3) if rng.random() < 0.2 else rng.randint(1, 3)):
        n = rng.choice([0, 1, 2, 3, 4, 6]) if rng.random() < 0.3 else rng.randint(1, 5)
        keys = list(names)
        if rng.random() < 0.5:
            rng.shuffle(keys)
        e = {}
        for k in keys:
            e[k] = [gen_value(rng) for _ in range(n)]
            if hidden_ok and rng.random() < 0.15:
                e[HiddenName(k)] = [gen_value(rng) for _ in range(n)]
        exps.append(e)
    return exps


def gen_raw_case(rng):
    """(keys, experiments) for the private helpers: also ragged, missing, duplicate keys."""
    names = rng.sample(FNAMES, rng.randint(1, 4))
    exps = gen_rect_exps(rng, names)
    r = rng.random()
    keys = list(names)
    if r < 0.3:
        keys = [rng.choice(names) for _ in range(rng.randint(0, 4))]       # sublists, duplicates, empty
    elif r < 0.4:
        keys = keys + [rng.choice(FNAMES)]                                 # maybe missing
    elif r < 0.5:
        rng.shuffle(keys)
    if rng.random() < 0.25 and exps:                                       # ragged
        e = rng.choice(exps)
        k = rng.choice(list(e.keys()))
        if rng.random() < 0.5:
            e[k] = e[k][:rng.randint(0, len(e[k]))]
        else:
            e[k] = e[k] + [gen_value(rng) for _ in range(rng.randint(1, 2))]
    if rng.random() < 0.1 and exps:
        e = rng.choice(exps)
        del e[rng.choice(list(e.keys()))]
    return keys, exps


# --------------------------------------------------------------------------- the property itself (oracle)

def ntrials(e, names):
    for n in names:
        if n in e:
            return len(e[n])
    return 0


def check_outputs(names, cont_names, exps, tuples, dicts, csvs):
    """Independent oracle.  names: user-declared factor names in declaration
    order; exps: list of dicts as synthesize_trials returns them (or arbitrary
    rectangular ones); tuples/dicts/csvs: ("ok", data) or ("error", cls) as
    produced by the real functions (data raw, uncanonicalised).
    Returns a list of (signature, description)."""
    bad = []

    def classify(got_names):
        """got_names: the factor names an output evidently uses, in order"""
        missing = [n for n in names if n not in got_names]
        dup = sorted(set(n for n in got_names if got_names.count(n) > 1))
        extra = [n for n in got_names if n not in names]
        if missing and all(m in cont_names for m in missing):
            return "continuous-dropped", "user-declared continuous factor(s) %r missing" % (missing,)
        if dup and not missing and not extra:
            return "derived-duplicated", "factor(s) %r occur more than once" % (dup,)
        return "other", "uses factors %r instead of the declared %r" % (got_names, names)

    # tuples
    if tuples[0] != "ok":
        bad.append(("other:tuples", "experiments_to_tuples raised %s" % tuples[1]))
    else:
        t = tuples[1]
        if len(t) != len(exps):
            bad.append(("other:tuples", "number of experiments %d != %d" % (len(t), len(exps))))
        else:
            for ei, (rows, e) in enumerate(zip(t, exps)):
                want = [tuple(e[n][i] for n in names) for i in range(ntrials(e, names))]
                if [tuple(r) for r in rows] != want:
                    # which columns does it use?  recover by width only when identifiable
                    width = len(rows[0]) if rows else None
                    if width is not None and width < len(names):
                        sig = "continuous-dropped" if cont_names else "other"
                    elif width is not None and width > len(names):
                        sig = "derived-duplicated"
                    else:
                        sig = "other"
                    bad.append((sig + ":tuples" if sig == "other" else sig,
                                "experiments_to_tuples: experiment %d is %r, expected %r" % (ei, rows[:3], want[:3])))
                    break
    # dicts
    if dicts[0] != "ok":
        bad.append(("other:dicts", "experiments_to_dicts raised %s" % dicts[1]))
    else:
        d = dicts[1]
        if len(d) != len(exps):
            bad.append(("other:dicts", "number of experiments %d != %d" % (len(d), len(exps))))
        else:
            for ei, (rows, e) in enumerate(zip(d, exps)):
                want = [{n: e[n][i] for n in names} for i in range(ntrials(e, names))]
                if any(not isinstance(k, str) for r in rows for k in r):
                    bad.append(("hidden-exposed", "experiments_to_dicts: non-str key in experiment %d" % ei))
                    break
                if list(rows) != want:
                    got = list(rows[0].keys()) if rows else []
                    sig, why = classify(got)
                    if sorted(got) == sorted(names):
                        sig, why = "other", "keys right, %d rows for %d trials or cells differ" % (len(rows), len(want))
                    bad.append((sig + ":dicts" if sig == "other" else sig,
                                "experiments_to_dicts: experiment %d: %s; first row %r, expected %r" % (
                                    ei, why, rows[:1], want[:1])))
                    break
    # csv
    if csvs[0] != "ok":
        bad.append(("other:csv", "save_experiments_csv raised %s" % csvs[1]))
    else:
        c = csvs[1]
        for ei, ((hdr, rows), e) in enumerate(zip(c, exps)):
            want_rows = [[str(e[n][i]) for n in names] for i in range(ntrials(e, names))]
            if hdr != list(names) or rows != want_rows:
                sig, why = classify(list(hdr or []))
                if hdr == list(names):
                    sig, why = "other", "header right, %d rows for %d trials or cells differ" % (len(rows), len(want_rows))
                bad.append((sig + ":csv" if sig == "other" else sig,
                            "save_experiments_csv: experiment %d: %s; header %r, first rows %r, expected %r" % (
                                ei, why, hdr, rows[:2], want_rows[:2])))
                break
    return bad


def check_synth_result(names, ex):
    """synthesize_trials must return exactly the user-declared names as keys."""
    bad = []
    for ei, e in enumerate(ex):
        ks = list(e.keys())
        if any(not isinstance(k, str) for k in ks):
            bad.append(("hidden-exposed", "synthesize_trials result %d has a non-str key: %r" % (ei, ks)))
        elif sorted(ks) != sorted(names):
            bad.append(("synth-keys", "synthesize_trials result %d has keys %r, declared factors are %r" % (ei, ks, names)))
        elif len(set(len(v) for v in e.values())) > 1:
            bad.append(("synth-ragged", "synthesize_trials result %d is not rectangular" % ei))
    return bad


def spec_size(spec):
    return (len(spec["order"]), sum(len(f["levels"]) for f in spec["simple"]), spec["samples"])


# --------------------------------------------------------------------------- run

def eval_block_case(spec, tmp, tag, arbitrary_rng=None, syn=None):
    """Real side of one block case.  Returns a dict with everything observed."""
    from sweetpea import experiments_to_tuples, experiments_to_dicts, save_experiments_csv
    block, objs, ex, rec = syn if syn is not None else synthesize(spec)
    names = declared_names(spec)
    if arbitrary_rng is not None:
        exps = gen_rect_exps(arbitrary_rng, names, hidden_ok=False)
    else:
        exps = ex
    out = {"block": block, "names": names, "synth": ex, "rec": rec, "exps": exps,
           "cont_names": [spec["cont"]["name"]] if spec["cont"] else []}
    out["design"] = [canon_key(f.name) for f in block.design]
    try:
        out["tuples_raw"] = ("ok", experiments_to_tuples(block, exps))
    except Exception as e:  # noqa
        out["tuples_raw"] = ("error", type(e).__name__)
    try:
        out["dicts_raw"] = ("ok", experiments_to_dicts(block, exps))
    except Exception as e:  # noqa
        out["dicts_raw"] = ("error", type(e).__name__)
    out["csv"] = real_csv(tmp, tag, len(exps), save_experiments_csv, block, exps)
    return out


def run(ctx, res):
    rng = ctx.rng
    nblocks = 120 if ctx.quick else 1200
    nraw = 300 if ctx.quick else 4000
    res.rule = ("%d seeded blocks (1-3 simple factors x 2-3 levels, weights 1-3 inside/outside the crossing, optional "
                "derived factor (WithinTrial table or Transition) in or outside the crossing, optional continuous factor "
                "with integer CustomDistribution, optional MinimumTrials, RandomGen/IterateSATGen, 1-3 samples), each "
                "also with arbitrary rectangular experiments over the declared names; %d raw (keys, experiments) cases "
                "for the private helpers incl. ragged / missing / duplicate keys; a case is non-trivial if it has a "
                "hidden, derived or continuous factor (blocks) or at least 2 keys and 2 trials (raw)" % (nblocks, nraw))
    tmp = tempfile.mkdtemp(prefix="verif_c20_", dir="/tmp")
    try:
        _run(ctx, res, rng, nblocks, nraw, tmp)
    finally:
        shutil.rmtree(tmp, ignore_errors=True)


def _run(ctx, res, rng, nblocks, nraw, tmp):
    from sweetpea._internal import main as spmain
    lines = []
    expect = []        # (layer, real canonical value, case id)
    mism = []
    found = {}         # sig -> (size, what, replay)
    stats = {"synth_failed": 0, "synth_failures": {}, "hidden": 0, "continuous": 0, "derived": 0, "derived_dup": 0, "unsupported": 0,
             "raw_outcomes": {}}

    def note(sig, what, replay, size):
        if sig not in found or size < found[sig][0]:
            found[sig] = (size, what, replay)

    for bi in range(nblocks):
        spec = gen_spec(rng)
        arb_seed = rng.randint(0, 10 ** 9)
        try:
            syn = synthesize(spec)
            real = eval_block_case(spec, tmp, "b%d" % bi, syn=syn)
            arb = eval_block_case(spec, tmp, "a%d" % bi, arbitrary_rng=random.Random(arb_seed), syn=syn)
        except Exception as e:  # noqa  (construction / synthesis failures belong to C08/C15)
            stats["synth_failed"] += 1
            stats["synth_failures"][type(e).__name__] = stats["synth_failures"].get(type(e).__name__, 0) + 1
            stats.setdefault("synth_failure_example", "%s: %s" % (type(e).__name__, describe(spec)))
            res.count(None, nontrivial=False)
            continue
        hidden = any(k[0] == "h" for k in real["design"])
        stats["hidden"] += hidden
        stats["continuous"] += bool(spec["cont"])
        stats["derived"] += bool(spec["derived"])
        stats["derived_dup"] += len(real["design"]) != len(set(real["design"]))
        nontrivial = hidden or bool(spec["cont"]) or bool(spec["derived"])
        res.count(("block", bi, spec["seed"]), nontrivial=nontrivial)
        if bi < 3:
            res.sample({"spec": spec, "block.design": real["design"], "synthesized": real["synth"][:1]})
        cr, d = w_cross(spec), w_design(spec)
        # --- correspondence lines
        lines.append(sexp([Atom("design"), cr, d]))
        expect.append(("design", real["design"], bi))
        try:
            for wi, ei in zip(real["rec"]["implied"], range(len(real["synth"]))):
                co = real["rec"]["cont"][ei] if ei < len(real["rec"]["cont"]) else []
                lines.append(sexp([Atom("synthpost"), w_exp(wi), w_exp(co)]))
                expect.append(("synth-post", sorted((canon_key(k), [canon_value(v) for v in vs])
                                                    for k, vs in real["synth"][ei].items()), bi))
            for case in (real, arb):
                wex = [w_exp(list(e.items())) for e in case["exps"]]
                lines.append(sexp([Atom("btuples"), d, wex]))
                t = case["tuples_raw"]
                expect.append(("tuples", t if t[0] != "ok" else
                               ("ok", [[tuple(canon_value(v) for v in row) for row in e] for e in t[1]]), bi))
                lines.append(sexp([Atom("bdicts"), d, wex]))
                dd = case["dicts_raw"]
                expect.append(("dicts", dd if dd[0] != "ok" else
                               ("ok", [[sorted((canon_key(k), canon_value(v)) for k, v in row.items()) for row in e]
                                       for e in dd[1]]), bi))
                lines.append(sexp([Atom("bcsv"), d, wex]))
                expect.append(("csv", case["csv"], bi))
        except Unsupported:
            stats["unsupported"] += 1
        # --- search: the property itself
        for what, case in (("synthesized", real), ("arbitrary", arb)):
            bad = []
            if what == "synthesized":
                bad += check_synth_result(case["names"], case["synth"])
            bad += check_outputs(case["names"], case["cont_names"], case["exps"],
                                 case["tuples_raw"], case["dicts_raw"], case["csv"])
            res.count(("search", what, bi), nontrivial=nontrivial)
            for sig, why in bad:
                note("c20:" + sig, "%s experiments, block %s: %s" % (what, describe(spec), why),
                     {"spec": spec, "kind": what, "arb_seed": arb_seed, "sig": "c20:" + sig}, spec_size(spec))

    # raw helpers on arbitrary dict lists
    raw_cases = []
    for ri in range(nraw):
        keys, exps = gen_raw_case(rng)
        raw_cases.append((keys, exps))
        wkeys = [w_key(("p", k)) for k in keys]
        wex = [w_exp(list(e.items())) for e in exps]
        nt = len(keys) >= 2 and any(ntrials(e, keys) >= 2 for e in exps)
        res.count(("raw", ri), nontrivial=nt)
        lines.append(sexp([Atom("tuples"), wkeys, wex]))
        expect.append(("raw-tuples", real_tuples(spmain._experiments_to_tuples, exps, keys), ri))
        lines.append(sexp([Atom("dicts"), wkeys, wex]))
        expect.append(("raw-dicts", real_dicts(spmain._experiments_to_dicts, exps, keys), ri))
        lines.append(sexp([Atom("csv"), wkeys, wex]))
        expect.append(("raw-csv", real_csv(tmp, "r%d" % ri, len(exps), spmain._experiments_to_csv, exps, keys), ri))
        for lay, r, _ in expect[-3:]:
            key = lay + ":" + (r[1] if r[0] == "error" else "ok")
            stats["raw_outcomes"][key] = stats["raw_outcomes"].get(key, 0) + 1
        if ri < 2:
            res.sample({"raw keys": keys, "experiments": [[(repr(k) if not isinstance(k, str) else k, v)
                                                           for k, v in e.items()] for e in exps][:1]})

    outs = ctx.model(lines)
    for line, out, (layer, real, cid) in zip(lines, outs, expect):
        ok = compare(layer, out, real)
        res.layer(layer, ok)
        if not ok:
            mism.append((layer, cid, line[:300], out[:300], repr(real)[:300]))
    res.extra["generated"] = stats
    res.extra["search_space"] = ("every synthesized experiment list and one arbitrary rectangular experiment list per "
                                 "generated block; tuples / dicts / CSV compared cell by cell with the experiments for "
                                 "the declared names in declaration order")
    res.extra["exhaustive"] = False
    for sig in sorted(found):
        _, what, replay = found[sig]
        res.violations.append(Violation(sig, what, replay))
    if mism and not found:
        res.violations.append(Violation(
            "corr:" + mism[0][0], "model Out/Convert.v and the real code disagree on %d cases, e.g. %r" % (len(mism), mism[0]),
            {"layer": mism[0][0], "theorems": ["C20_tuples_transpose", "C20_dicts_transpose", "C20_csv_rows",
                                              "C20_hidden_never_exposed"], "first_mismatch": repr(mism[0])},
            failing_input=False))
    elif mism:
        res.notes.append("correspondence also broken on %d cases, e.g. %r" % (len(mism), mism[0]))
    if found:
        res.notes.append("the model reproduces the defective outputs literally (the correspondence layers compare the "
                         "real outputs, defects included, with Out/Convert.v)")


def compare(layer, out, real):
    if out.startswith("!"):
        return False
    if layer == "design":
        return [p_key(k) for k in parse_sexp(out)[0]] == [tuple(k) for k in real]
    if layer == "synth-post":
        got = sorted((p_key(k), [p_value(v) for v in vs]) for k, vs in parse_sexp(out)[0])
        return got == real
    if layer in ("tuples", "raw-tuples"):
        return p_res(out, p_tuples) == real
    if layer in ("dicts", "raw-dicts"):
        return p_res(out, p_dicts) == real
    if layer in ("csv", "raw-csv"):
        m = p_res(out, p_csv)
        if m[0] != "ok" or real[0] != "ok":
            return m == real
        return [(h, r) for h, r in csv_render(m[1])] == [(h, r) for h, r in real[1]]
    return False


def describe(spec):
    parts = []
    for n in spec["order"]:
        for f in spec["simple"]:
            if f["name"] == n:
                parts.append("Factor(%r, %r)" % (n, [(l, w) if w != 1 else l for l, w in zip(f["levels"], f["weights"])]))
        if spec["derived"] and spec["derived"]["name"] == n:
            parts.append("Derived(%r, %s over %r)" % (n, spec["derived"]["kind"], spec["derived"]["deps"]))
        if spec["cont"] and spec["cont"]["name"] == n:
            parts.append("ContinuousFactor(%r)" % n)
    return "CrossBlock([%s], crossing=%r, %s)" % (", ".join(parts), spec["crossing"], spec["gen"])


def replay(ctx, data):
    tmp = tempfile.mkdtemp(prefix="verif_c20_", dir="/tmp")
    try:
        spec = data["spec"]
        arb = random.Random(data["arb_seed"]) if data.get("kind") == "arbitrary" else None
        case = eval_block_case(spec, tmp, "replay", arbitrary_rng=arb)
        bad = []
        if arb is None:
            bad += check_synth_result(case["names"], case["synth"])
        bad += check_outputs(case["names"], case["cont_names"], case["exps"],
                             case["tuples_raw"], case["dicts_raw"], case["csv"])
        want = data.get("sig")
        return any(want is None or "c20:" + s == want for s, _ in bad)
    finally:
        shutil.rmtree(tmp, ignore_errors=True)
