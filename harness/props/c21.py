"""C21 - Tabulation counts are exact.

Theorems: coq/theories/Properties/C21.v (about Out/Tabulate.v).
Correspondence: tabulate_experiments of the real code is called on seeded
inputs, its stdout captured and parsed back into tables; the extracted model
(Tabulate.tabulate_experiments) is run on the same inputs; compared: number of
tables printed before the call ended, the exception class that ended it (if
any), every row's combination and frequency literally, and the printed
percentage against the model's exact rational num/den (never float == float:
the printed decimal is converted to the exact rational value of the double it
denotes, which must lie within the two-rounding bound of 100*f/n).
Inputs: arbitrary dict lists (experiments of different lengths, extra columns,
values outside the level sets, numbers), factor selections that are ordered
subsets, `trials` = None / [] / out of order / repeats / negative / out of
range, missing keys, missing arguments, string and integer level names; and
real blocks (the C20 generator) synthesized with RandomGen / IterateSATGen with
`factors` defaulting to the crossing.
Search (the property itself): independent recount with a Counter over the
selected trials, rows in lexicographic level order; every valid input must
print exactly these counts and a percentage within the bound.
"""
import collections
import contextlib
import io
import random
from fractions import Fraction

from common import Violation, sexp, Atom, parse_sexp, StrTok
from props import c20

TITLE = "tabulation counts"
LEVEL = "proof"
DOMAINS = ['Out']

FNAMES = ["color", "word", "task", "resp", "dir", "size", "f 1", "Kind"]
LNAMES = ["red", "blue", "green", "x", "y", "z", "left", "right", "up", "a b", "1", "2", "café", "lo,hi",
          'q"t', "Red", "-", "a|b"]
REL_BOUND = Fraction(1, 2 ** 52) + Fraction(1, 2 ** 106)   # two correctly rounded operations


# --------------------------------------------------------------------------- generator

def gen_case(rng):
    """A JSON-serialisable case: columns (name -> level list), experiments,
    factor selection, trials, which arguments are passed."""
    ncols = rng.randint(1, 4)
    names = rng.sample(FNAMES, ncols)
    cols = {}
    for n in names:
        if rng.random() < 0.12:
            cols[n] = rng.sample([0, 1, 2, 3, 7, -1, 10], rng.randint(2, 3))
        else:
            cols[n] = rng.sample(LNAMES, rng.randint(1, 3) if rng.random() < 0.15 else rng.randint(2, 3))
    nexp = rng.choice([0, 1, 1, 2, 2, 3])
    same_len = rng.random() < 0.5
    base_len = rng.choice([0, 1, 2, 3, 4, 5, 6, 8, 12])
    exps = []
    for _ in range(nexp):
        n = base_len if same_len else rng.choice([0, 1, 2, 3, 4, 5, 6, 8, 12])
        order = list(names)
        if rng.random() < 0.4:
            rng.shuffle(order)
        e = []
        for k in order:
            vals = []
            for _ in range(n):
                r = rng.random()
                if r < 0.85:
                    vals.append(rng.choice(cols[k]))
                elif r < 0.95:
                    vals.append(rng.choice(LNAMES + ["", "other"]))
                else:
                    vals.append(rng.randint(-2, 12))
            e.append([k, vals])
        exps.append(e)
    # selection: ordered subset (sometimes everything, sometimes empty, rarely a factor the experiments lack)
    r = rng.random()
    if r < 0.35:
        sel = list(names)
    elif r < 0.4:
        sel = []
    else:
        sel = rng.sample(names, rng.randint(1, ncols))
    factors = [[n, list(cols[n])] for n in sel]
    if rng.random() < 0.04:
        extra = rng.choice([x for x in FNAMES if x not in names])
        factors.insert(rng.randint(0, len(factors)), [extra, ["p", "q"]])
    # trials
    maxlen = max([len(e[0][1]) for e in exps if e] + [0])
    minlen = min([len(e[0][1]) for e in exps if e] + [maxlen])
    r = rng.random()
    if r < 0.3:
        trials = None
    elif r < 0.38:
        trials = []
    else:
        hi = minlen if (rng.random() < 0.85 and minlen > 0) else maxlen + 2
        k = rng.choice([1, 2, 3, 4, 5, 7, 9, 13])
        lo = -hi if rng.random() < 0.2 else 0
        trials = [rng.randint(lo, max(hi - 1, 0)) for _ in range(k)]
        if rng.random() < 0.3:
            trials.sort()
    case = {"factors": factors, "exps": exps, "trials": trials, "pass_factors": True, "pass_exps": True}
    r = rng.random()
    if r < 0.02:
        case["pass_factors"] = False      # and no block: RuntimeError
    elif r < 0.04:
        case["pass_exps"] = False
    return case


def mk_factors(case):
    from sweetpea import Factor
    return [Factor(n, list(lv)) for n, lv in case["factors"]]


# --------------------------------------------------------------------------- real side

def parse_tables(text, names):
    """Parses the stdout of tabulate_experiments: list of tables, each a list of
    (combo strings, frequency int, percentage text).  names: the selected factor
    names.  Raises ValueError on text it cannot account for."""
    tables = []
    cur = None
    for line in text.split("\n"):
        if line.startswith("Experiment ") and line.endswith(":") and line[11:-1].isdigit():
            if int(line[11:-1]) != len(tables):
                raise ValueError("experiment index %r out of sequence" % line)
            cur = []
            tables.append(cur)
            continue
        if line == "":
            continue
        if cur is None:
            raise ValueError("row before any experiment header: %r" % line)
        cells = line.split(" | ")
        if len(cells) != len(names) + 2:
            raise ValueError("row %r has %d cells for %d factors" % (line, len(cells), len(names)))
        combo = []
        for n, c in zip(names, cells):
            if not c.startswith(n + " "):
                raise ValueError("cell %r does not start with factor name %r" % (c, n))
            combo.append(c[len(n) + 1:].rstrip(" "))
        fc, pc = cells[-2].rstrip(" "), cells[-1].rstrip(" ")
        if not fc.startswith("frequency ") or not pc.startswith("proportion ") or not pc.endswith("%"):
            raise ValueError("bad frequency / proportion cells in %r" % line)
        cur.append((combo, int(fc[len("frequency "):]), pc[len("proportion "):-1]))
    return tables


def real_tabulate(block, exps, factors, trials, names):
    from sweetpea import tabulate_experiments
    buf = io.StringIO()
    status = None
    try:
        with contextlib.redirect_stdout(buf):
            tabulate_experiments(block, exps, factors, None if trials is None else list(trials))
    except Exception as e:  # noqa
        status = type(e).__name__
    try:
        tables = parse_tables(buf.getvalue(), names)
    except ValueError as e:
        return ("unparsable", str(e), buf.getvalue()[:400])
    return ("ran", tables, status)


def real_case(case):
    factors = mk_factors(case) if case["pass_factors"] else None
    exps = [dict((k, list(v)) for k, v in e) for e in case["exps"]] if case["pass_exps"] else None
    return real_tabulate(None, exps, factors, case["trials"], [n for n, _ in case["factors"]])


# --------------------------------------------------------------------------- model side

def w_factor(n, levels):
    return [[Atom("p"), n], [c20.w_value(v) for v in levels]]


def some(x):
    return Atom("none") if x is None else [Atom("some"), x]


def model_line(crossings, exps, factors, trials):
    """crossings: None or list of lists of (name, levels); exps: None or list of
    item lists; factors: None or list of (name, levels); trials: None or ints."""
    return sexp([Atom("tabulate"),
                 some(None if crossings is None else [[w_factor(n, lv) for n, lv in c] for c in crossings]),
                 some(None if exps is None else [c20.w_exp(e) for e in exps]),
                 some(None if factors is None else [w_factor(n, lv) for n, lv in factors]),
                 some(None if trials is None else list(trials))])


def parse_model(line):
    if line.startswith("!"):
        return ("model-error", line)
    r = parse_sexp(line)[0]
    tables = [[([c20.p_value(v) for v in combo], f, num, den) for combo, f, num, den in t] for t in r[0]]
    return ("ran", tables, None if r[1] == "none" else r[1])


# --------------------------------------------------------------------------- comparisons

def pct_ok(text, num, den):
    """The printed percentage `text` against the exact rational num/den:
    the double it denotes must be within two roundings of num/den."""
    try:
        d = float(text)
        p = Fraction(d)          # exact value of the double
    except (ValueError, OverflowError):
        return False
    r = Fraction(num, den)
    return abs(p - r) <= abs(r) * REL_BOUND


def pct_correctly_rounded(text, num, den):
    try:
        return Fraction(float(text)) == Fraction(float(Fraction(num, den)))
    except (ValueError, OverflowError):
        return False


def compare_model(real, mod, stats):
    if real[0] != "ran" or mod[0] != "ran":
        return False
    _, rt, rs = real
    _, mt, ms = mod
    if rs != ms or len(rt) != len(mt):
        return False
    for a, b in zip(rt, mt):
        if len(a) != len(b):
            return False
        for (combo, f, pct), (mcombo, mf, num, den) in zip(a, b):
            if combo != [str(v) for v in mcombo] or f != mf:
                return False
            if not pct_ok(pct, num, den):
                return False
            stats["pct_rows"] += 1
            if not pct_correctly_rounded(pct, num, den):
                stats["pct_not_correctly_rounded"] += 1
                stats.setdefault("pct_example", "%d/%d printed %s" % (num, den, pct))
    return True


# --------------------------------------------------------------------------- the property itself (oracle)

def lex_product(levelss):
    if not levelss:
        return [()]
    rest = lex_product(levelss[1:])
    return [(x,) + r for x in levelss[0] for r in rest]


def expected_tables(factors, exps, trials):
    """Independent recount.  Returns ("valid", tables) with tables of
    (combo, frequency, n) or ("invalid", why) when the input does not satisfy the
    function's documented preconditions."""
    names = [n for n, _ in factors]
    if len(set(names)) != len(names):
        return ("invalid", "duplicate factor selection")
    out = []
    for e in exps:
        d = dict(e)
        for n in names:
            if n not in d:
                return ("invalid", "selected factor %r not in experiment" % n)
        if trials is None:
            if not e:
                return ("invalid", "empty experiment")
            sel = list(range(len(e[0][1])))
        else:
            sel = list(trials)
        length = len(e[0][1]) if e else 0
        if any(len(v) != length for _, v in e):
            return ("invalid", "ragged experiment")
        if any(not (-length <= t < length) for t in sel):
            return ("invalid", "trial index out of range")
        cnt = collections.Counter(tuple(d[n][t] for n in names) for t in sel)
        out.append([(combo, cnt[combo], len(sel)) for combo in lex_product([lv for _, lv in factors])])
    return ("valid", out)


def check_property(factors, exps, trials, real):
    """Returns None or (sig, description)."""
    exp = expected_tables(factors, exps, trials)
    if exp[0] != "valid":
        return None
    if real[0] != "ran":
        return ("c21:unparsable", "output cannot be parsed: %s" % (real[1],))
    _, tables, status = real
    lens = [len(e[0][1]) for e in exps if e]
    if status is not None:
        if any(w[0][2] == 0 for w in exp[1] if w):
            return ("c21:empty-trials", "raised %s for an empty trial selection" % status)
        if trials is None and len(set(lens)) > 1:
            return ("c21:default-trials-leak", "raised %s with default trials on experiments of lengths %r" % (status, lens))
        if any(not isinstance(v, str) for _, lv in factors for v in lv):
            return ("c21:nonstring-level", "raised %s for non-string level names" % status)
        return ("c21:raised", "raised %s on a valid input" % status)
    if len(tables) != len(exp[1]):
        return ("c21:tables", "%d tables printed for %d experiments" % (len(tables), len(exps)))
    for ei, (got, want) in enumerate(zip(tables, exp[1])):
        if [c for c, _, _ in got] != [[str(x) for x in c] for c, _, _ in want]:
            return ("c21:rows", "experiment %d: rows %r, expected combinations %r" % (
                ei, [c for c, _, _ in got][:4], [c for c, _, _ in want][:4]))
        for (combo, f, pct), (_, wf, n) in zip(got, want):
            if f != wf:
                sig = "c21:count"
                if trials is None and len(set(lens)) > 1:
                    sig = "c21:default-trials-leak"
                return (sig, "experiment %d, combination %r: printed frequency %d, recount %d of %d selected trials" % (
                    ei, combo, f, wf, n))
            if n > 0:
                if not pct_ok(pct, 100 * wf, n):
                    return ("c21:percentage", "experiment %d, combination %r: printed %s%% for %d of %d" % (ei, combo, pct, wf, n))
            else:
                try:
                    if Fraction(pct) != 0:
                        return ("c21:percentage", "experiment %d: printed %s%% for an empty selection" % (ei, pct))
                except ValueError:
                    pass    # nan or a dash for 0/0 is acceptable
    return None


def case_size(case):
    return (len(case["exps"]), sum(len(v) for e in case["exps"] for _, v in e), len(case["factors"]),
            len(case["trials"] or []))


# --------------------------------------------------------------------------- run

def run(ctx, res):
    rng = ctx.rng
    ncases = 1500 if ctx.quick else 20000
    nblocks = 60 if ctx.quick else 600
    res.rule = ("%d arbitrary cases (1-4 columns with 1-3 string or integer levels, 0-3 experiments of lengths 0-12 "
                "(equal or different), values mostly from the level sets, factor selections = ordered subsets / empty / "
                "a factor the experiments lack, trials = None / [] / 1-13 indices with repeats, unsorted, negative, out "
                "of range; missing `factors` or `experiments`) and %d synthesized blocks of the C20 generator tabulated "
                "with default factors (the crossing) and with subsets / trial selections; non-trivial = at least one "
                "row with a frequency of 2 or more" % (ncases, nblocks))
    lines, cases, reals = [], [], []
    stats = {"pct_rows": 0, "pct_not_correctly_rounded": 0, "status": {}, "valid_inputs": 0, "invalid_inputs": 0,
             "empty_trials": 0, "default_trials_different_lengths": 0, "int_levels": 0, "synth_failed": 0}
    found = {}
    mism = []

    def note(sig, what, replay, size):
        if sig not in found or size < found[sig][0]:
            found[sig] = (size, what, replay)

    for ci in range(ncases):
        case = gen_case(rng)
        real = real_case(case)
        cases.append(("arb", case))
        reals.append(real)
        lines.append(model_line(None, case["exps"] if case["pass_exps"] else None,
                                case["factors"] if case["pass_factors"] else None, case["trials"]))
        if ci < 3:
            res.sample({"case": case, "real": repr(real)[:300]})

    # real blocks
    for bi in range(nblocks):
        spec = c20.gen_spec(rng)
        try:
            block, objs, ex, rec = c20.synthesize(spec)
        except Exception:  # noqa  (C08's business)
            stats["synth_failed"] += 1
            continue
        levels = {f["name"]: list(f["levels"]) for f in spec["simple"]}
        if spec["derived"]:
            levels[spec["derived"]["name"]] = list(spec["derived"]["levels"])
        exps = [[(k, list(v)) for k, v in e.items()] for e in ex]
        ntr = len(exps[0][0][1]) if exps and exps[0] else 0
        variants = [(None, None)]
        sub = rng.sample(sorted(levels), rng.randint(1, len(levels)))
        variants.append((sub, None))
        if ntr:
            variants.append((sub, [rng.randint(-ntr, ntr - 1) for _ in range(rng.randint(1, 2 * ntr))]))
        variants.append((None, []))
        for sel, trials in variants:
            crossing = [(n, levels[n]) for n in spec["crossing"]]
            factors = None if sel is None else [(n, levels[n]) for n in sel]
            eff = crossing if factors is None else factors
            real = real_tabulate(block, ex, None if sel is None else [objs[n] for n in sel], trials,
                                 [n for n, _ in eff])
            case = {"spec": spec, "sel": sel, "trials": trials}
            cases.append(("block", case, eff, exps))
            reals.append(real)
            lines.append(model_line([crossing], exps, factors, trials))
        if bi < 2:
            res.sample({"block": c20.describe(spec), "tabulated": repr(reals[-4])[:300]})

    outs = ctx.model(lines)
    for c, real, line, out in zip(cases, reals, lines, outs):
        mod = parse_model(out)
        ok = compare_model(real, mod, stats)
        layer = "tabulate-arbitrary" if c[0] == "arb" else "tabulate-block"
        res.layer(layer, ok)
        if not ok:
            mism.append((layer, line[:400], out[:300], repr(real)[:300]))
        st = real[2] if real[0] == "ran" else real[0]
        stats["status"][str(st)] = stats["status"].get(str(st), 0) + 1
        # search
        if c[0] == "arb":
            case = c[1]
            if not (case["pass_factors"] and case["pass_exps"]):
                res.count(None, nontrivial=False)
                continue
            factors, exps, trials = case["factors"], case["exps"], case["trials"]
            replay = {"kind": "arb", "case": case}
            size = case_size(case)
        else:
            _, case, factors, exps = c
            trials = case["trials"]
            replay = {"kind": "block", "case": case}
            size = (9, 9, 9, 9)
        valid = expected_tables(factors, exps, trials)[0] == "valid"
        stats["valid_inputs" if valid else "invalid_inputs"] += 1
        stats["empty_trials"] += trials == []
        lens = [len(e[0][1]) for e in exps if e]
        stats["default_trials_different_lengths"] += (trials is None and len(set(lens)) > 1)
        stats["int_levels"] += any(not isinstance(v, str) for _, lv in factors for v in lv)
        nontrivial = real[0] == "ran" and any(f >= 2 for t in real[1] for _, f, _ in t)
        res.count((c[0], line), nontrivial=nontrivial)
        bad = check_property(factors, exps, trials, real)
        if bad:
            replay["sig"] = bad[0]
            note(bad[0], "%s; input: factors=%r experiments=%r trials=%r" % (bad[1], factors, exps, trials), replay, size)

    res.extra["generated"] = stats
    res.extra["search_space"] = "every generated valid input: independent recount of every row of every experiment"
    res.extra["exhaustive"] = False
    res.notes.append("printed percentage = binary64 evaluation of f/n*100: within the two-rounding bound of 100f/n on "
                     "all %d rows; %d of them are not the correctly rounded 100f/n (e.g. %s)" % (
                         stats["pct_rows"], stats["pct_not_correctly_rounded"], stats.get("pct_example", "-")))
    for sig in sorted(found):
        _, what, replay = found[sig]
        res.violations.append(Violation(sig, what[:1500], replay))
    if mism and not found:
        res.violations.append(Violation(
            "corr:" + mism[0][0], "model Out/Tabulate.v and tabulate_experiments disagree on %d cases, e.g. %r" % (len(mism), mism[0]),
            {"layer": mism[0][0], "theorems": ["C21_tabulate_counts", "C21_tabulate_total", "C21_percentage"],
             "first_mismatch": repr(mism[0])}, failing_input=False))
    elif mism:
        res.notes.append("correspondence also broken on %d cases, e.g. %r" % (len(mism), mism[0]))


def replay(ctx, data):
    if data["kind"] == "arb":
        case = data["case"]
        real = real_case(case)
        bad = check_property(case["factors"], case["exps"], case["trials"], real)
    else:
        case = data["case"]
        spec = case["spec"]
        block, objs, ex, rec = c20.synthesize(spec)
        levels = {f["name"]: list(f["levels"]) for f in spec["simple"]}
        if spec["derived"]:
            levels[spec["derived"]["name"]] = list(spec["derived"]["levels"])
        sel = case["sel"]
        eff = [(n, levels[n]) for n in (spec["crossing"] if sel is None else sel)]
        exps = [[(k, list(v)) for k, v in e.items()] for e in ex]
        real = real_tabulate(block, ex, None if sel is None else [objs[n] for n in sel], case["trials"],
                             [n for n, _ in eff])
        bad = check_property(eff, exps, case["trials"], real)
    return bad is not None and (data.get("sig") is None or bad[0] == data["sig"])
