"""C22 - Continuous factors respect their constraints, inputs and windows.

Theorems: coq/theories/Properties/C22.v (about Out/Continuous.v).
*Safety*: every returned value set has one value per trial, satisfies every
ContinuousConstraint, is computed from the same trial / the documented window of
the same sequence, leaves the discrete columns alone.
*Liveness relative to the draws* of the resample loop of Block.sample_continuous:
the loop returns the FIRST attempt whose draws satisfy every ContinuousConstraint
(C22_resample_live / _first / _returns_first), gives up iff every attempt was
rejected (C22_resample_none), rejects only attempts that violate a constraint
(C22_reject_sound).  Whether an acceptable attempt exists depends on the user's
distribution (the hypothesis of those theorems).  The Python loop is unbounded
(past max_attempts = 10000000 it only prints; the raise is commented out), the
model takes explicit fuel = the bound of this harness, whose recording
distributions raise GiveUp after a fixed number of calls; such cases are counted
("gave-up"), not judged.

Programs: an ir.py program (discrete part from gen_design.gen_program, shapes
cross / multi / repeat, constraints restricted to AtMostKInARow / Exclude /
MinimumTrials) extended by 1-3 continuous factors
  {"kind": "continuous", "cdist": {"deps": [dep..], "cumulative": bool, "base", "coef", "nanmode", "seed", "lo", "hi"}}
  dep = {"t": "disc", "f": fid} | {"t": "cont", "f": fid} | {"t": "win", "fs": [fid..], "width", "stride", "start"}
and 0-2 {"kind": "ContinuousConstraint", "factors": [fid..], "pred": ["le", B] | ["ge", B] | ["lt"] | ["ne", B]}.
Every distribution is a *recording*, integer-valued CustomDistribution: a factor
without dependents draws from its own seeded integer stream; a factor with
dependents is a pure integer function of its arguments (level name -> 1-based
index, window dict -> weighted sum, NaN -> a fixed integer or NaN again); each call
logs (factor, arguments, result).

Correspondence (real code vs extracted Out/Continuous.v fed the logged results):
  synth     synthesize_trials(block, n, RandomGen | IterateSATGen): the returned dicts
            (keys in order, every value), the number of _sample_continuous calls per
            experiment, the arguments of every call of every distribution function
  attempt   each _sample_continuous call (returned dict, calls) and _check_constraints verdict
  verdicts  per experiment, the extracted ContinuousLive.attempt on the recorded draws of every attempt the
            real loop made: accept / reject as the real _check_constraints said, all rejected but the last
  scan      per experiment, ContinuousLive.scan (first non-rejected attempt of the stream, with spare fuel)
            returns the values of the real loop's last attempt and the same attempt count
  giveup    runs that gave up: on the draws of the completed attempts of the unfinished experiment the model
            runs out of fuel and every verdict is reject (C22_resample_none)
  window    ContinuousFactorWindow.get_window_val on arbitrary (also degenerate) parameters
  checkdep  acceptance by Block.__check_dependency (constructor) of arbitrary dependency shapes
  error     designs the constructor accepts but whose sampling raises: same exception class
Search (the property itself, independent of the model): for every returned
experiment every declared continuous factor has exactly T values, every
ContinuousConstraint predicate holds at every trial, each dependent value equals the
distribution function applied to the inputs recomputed from the returned dict (same
trial; documented window of the same sequence with NaN where t < start, where the
stride skips t, and for positions before trial 0), the discrete part equals what the
sampler produced and is valid per docsem.doc_sem / Design/Sem.v; and "first acceptable
attempt": the verdict of every recorded attempt is recomputed from the values it drew
(predicates applied by this harness, not by _check_constraints) - no attempt before the
last may be acceptable, the last must be, and the returned columns are its values.  Plus
hand-built Merge / Repeat / Nest / MultiCrossBlock programs with continuous factors.
No float is compared: values are Python ints (integer-valued floats from the
cumulative mode are converted exactly), NaN is detected by x != x on a float and
mapped to the token nan.
"""
import copy
import json
import os
import random

import common
import design_batch
import designrun
import docsem
import gen_design
import ir
from common import Violation, sexp, Atom, parse_sexp, StrTok

TITLE = "continuous factors: constraints, inputs, windows"
LEVEL = "proof"
DOMAINS = ['Cont', 'Design']
LEVEL_NOTE = ("safety, and liveness of the resample loop of Block.sample_continuous RELATIVE TO THE DRAWS (the first acceptable "
              "attempt is returned; the loop gives up iff every attempt is rejected); that an acceptable attempt exists depends "
              "on the distribution; the Python loop is unbounded (max_attempts only prints), the model takes explicit fuel, the "
              "harness distributions raise GiveUp")

NANVAL = -3            # what a "replace" function substitutes for NaN
CALL_LIMIT_ATTEMPTS = 40
THEOREMS = ["C22_continuous_spec", "C22_window_val_spec", "C22_window_val_shape", "C22_discrete_untouched",
            "C22_resample_scan", "C22_resample_live", "C22_resample_first", "C22_resample_returns_first", "C22_resample_none",
            "C22_reject_sound", "C22_resample_raise", "C22_attempt_total", "C22_resample_live_wf", "C22_synthesize_live",
            "C22_dependency_check_exact", "C22_dependency_check_direct", "C22_dependency_check_sound",
            "C22_accepted_attempt_total", "C22_dependency_check_complete", "C22_dependency_check_empty_window_refuted"]


class GiveUp(Exception):
    pass


class Unsupported(Exception):
    pass


# --------------------------------------------------------------------------- canonical values

def is_nan(x):
    return isinstance(x, float) and x != x


def canon_value(v):
    if isinstance(v, bool):
        raise Unsupported("bool")
    if isinstance(v, int):
        return ("n", v)
    if is_nan(v):
        return ("nan",)
    if isinstance(v, float):
        if v.is_integer():
            return ("n", int(v))
        raise Unsupported("non-integer float")
    if isinstance(v, str):
        return ("s", v)
    raise Unsupported(repr(type(v)))


def canon_input(a):
    if isinstance(a, dict):
        return ("win", tuple((k, canon_value(v)) for k, v in a.items()))
    if isinstance(a, list):
        return ("wins", tuple(tuple((k, canon_value(v)) for k, v in d.items()) for d in a))
    return canon_value(a)


def canon_dict(d):
    return [(k if isinstance(k, str) else repr(k), [canon_value(v) for v in vs]) for k, vs in d.items()]


def w_value(cv):
    if cv[0] == "n":
        return [Atom("n"), cv[1]]
    if cv[0] == "nan":
        return Atom("nan")
    return [Atom("s"), cv[1]]


def w_dict(cd):
    return [[k, [w_value(v) for v in vs]] for k, vs in cd]


def p_value(x):
    if isinstance(x, StrTok):
        return ("s", str(x))
    if isinstance(x, int):
        return ("n", x)
    if x == "nan":
        return ("nan",)
    raise ValueError(repr(x))


def p_wdict(x):
    return tuple((k, p_value(v)) for k, v in x)


def p_input(x):
    if isinstance(x, list) and x and x[0] == "win" and not isinstance(x[0], StrTok):
        return ("win", p_wdict(x[1]))
    if isinstance(x, list) and x and x[0] == "wins" and not isinstance(x[0], StrTok):
        return ("wins", tuple(p_wdict(d) for d in x[1:]))
    return p_value(x)


def p_dict(x):
    return [(str(k), [p_value(v) for v in vs]) for k, vs in x]


def p_log(x):
    return [(str(n), [p_input(i) for i in ins], p_value(r)) for n, ins, r in x]


# --------------------------------------------------------------------------- the user's functions

def fmap(program):
    return {f["id"]: f for f in program["factors"]}


def _int(v):
    """h on a plain value: None for NaN."""
    if is_nan(v):
        return None
    if isinstance(v, float):
        return int(v) if v.is_integer() else None
    return v


def h_arg(program, dep, a):
    """Integer summary of one positional argument (None if it contains a NaN)."""
    fm = fmap(program)
    if dep["t"] == "disc":
        names = docsem.level_names(fm[dep["f"]])
        return names.index(a) + 1 if a in names else 0
    if dep["t"] == "cont":
        return _int(a)
    dicts = a if isinstance(a, list) else [a]
    tot = 0
    for m, d in enumerate(dicts):
        for k, v in d.items():
            x = _int(v)
            if x is None:
                return None
            tot += (m + 1) * (1 - k) * x          # keys 0,-1,-2 -> weights 1,2,3
    return tot


def apply_fn(program, fdesc, args):
    """The (pure) function of a dependent continuous factor."""
    cd = fdesc["cdist"]
    tot = cd.get("base", 0)
    for dep, coef, a in zip(cd["deps"], cd["coef"], args):
        x = h_arg(program, dep, a)
        if x is None:
            if cd.get("nanmode") == "propagate":
                return float("nan")
            x = NANVAL
        tot += coef * x
    return tot


def pred_fn(pred, n):
    k = pred[0]
    if n == 0:
        return lambda: True
    if k == "le":
        b = pred[1]
        return (lambda a: a <= b) if n == 1 else (lambda a, c: a + c <= b)
    if k == "ge":
        b = pred[1]
        return (lambda a: a >= b) if n == 1 else (lambda a, c: a + c >= b)
    if k == "lt":
        return (lambda a: True) if n == 1 else (lambda a, c: a < c)
    if k == "ne":
        b = pred[1]
        return (lambda a: a != b) if n == 1 else (lambda a, c: a != b)
    raise ValueError(k)


# --------------------------------------------------------------------------- building real objects

def build(program, T_hint=8):
    """ir.build with recording continuous factors and ContinuousConstraints of this module."""
    from sweetpea import ContinuousFactor, CustomDistribution, ContinuousFactorWindow
    from sweetpea._internal.constraint import ContinuousConstraint
    built = ir.Built()
    built.log = []
    built.calls = 0
    ncont = sum(1 for f in program["factors"] if f["kind"] == "continuous")
    built.limit = CALL_LIMIT_ATTEMPTS * max(1, T_hint) * max(1, ncont) * 3

    def build_cont(fd):
        cd = fd["cdist"]
        name = fd["name"]
        deps = []
        for d in cd["deps"]:
            if d["t"] in ("disc", "cont"):
                deps.append(built.factors[d["f"]])
            elif d["t"] == "num":
                deps.append(d["v"])
            else:
                kw = {}
                if d.get("start") is not None:
                    kw["start"] = d["start"]
                deps.append(ContinuousFactorWindow([built.factors[x] for x in d["fs"]], d["width"], d.get("stride", 1), **kw))
        stream = random.Random(cd.get("seed", 0))

        def fn(*args):
            built.calls += 1
            if built.calls > built.limit:
                raise GiveUp()
            if not cd["deps"]:
                v = stream.randint(cd.get("lo", 0), cd.get("hi", 9))
            else:
                v = apply_fn(program, fd, args)
            built.log.append((name, [canon_input(a) for a in args], canon_value(v)))
            return v
        if cd["deps"]:
            dist = CustomDistribution(fn, deps, cumulative=True) if cd.get("cumulative") else CustomDistribution(fn, deps)
        else:
            dist = CustomDistribution(fn, cumulative=True) if cd.get("cumulative") else CustomDistribution(fn)
        return ContinuousFactor(name, distribution=dist)

    with ir.quiet():
        for f in program["factors"]:
            try:
                built.factors[f["id"]] = build_cont(f) if f["kind"] == "continuous" else ir.build_factor(built, program, f)
            except Exception as e:  # noqa
                built.errors[("factor", f["id"])] = ("error", type(e).__name__, str(e)[:200])
        for c in program.get("constraints", []):
            try:
                if c["kind"] == "ContinuousConstraint":
                    built.constraints[c["id"]] = ContinuousConstraint([built.factors[f] for f in c["factors"]],
                                                                      pred_fn(c["pred"], len(c["factors"])))
                else:
                    built.constraints[c["id"]] = ir.build_constraint(built, program, c)
            except Exception as e:  # noqa
                built.errors[("constraint", c["id"])] = ("error", type(e).__name__, str(e)[:200])
        for b in program["blocks"]:
            try:
                built.blocks[b["id"]] = ir.build_block(built, program, b)
            except Exception as e:  # noqa
                built.errors[("block", b["id"])] = ("error", type(e).__name__, str(e)[:200])
    return built


def run_real(program, strategy, n, seed):
    """Build, hook the sampling methods of the main block, synthesize.  Returns a dict."""
    out = {"status": None}
    try:
        T_hint = docsem.doc_sem(program).T
    except Exception:  # noqa
        T_hint = 8
    built = build(program, T_hint)
    out["built"] = built
    block = ir.main_block(built, program)
    if block is None:
        out["status"] = "rejected"
        out["error"] = built.errors.get(("block", program["main"])) or ("error", "Dependency", repr(built.errors)[:300])
        out["errors"] = dict(built.errors)
        return out
    out["block"] = block
    with ir.quiet():
        try:
            out["T"] = block.trials_per_sample()
        except Exception as e:  # noqa
            out["status"] = "error"
            out["error"] = ("error", type(e).__name__, str(e)[:200])
            return out
    rec = {"pre": [], "exps": [], "cur": None}
    out["rec"] = rec
    o_sc, o__sc, o_cc = block.sample_continuous, block._sample_continuous, block._check_constraints

    def sc(num, trial):
        rec["pre"].append([(k, list(v)) for k, v in trial.items()])
        rec["cur"] = []
        rec["exps"].append(rec["cur"])
        return o_sc(num, trial)

    def _sc(num, trial):
        lo = len(built.log)
        att = {"out": None, "log": None, "ok": None, "lo": lo}
        rec["cur"].append(att)
        try:
            r = o__sc(num, trial)
        finally:
            att["log"] = list(built.log[lo:])
        att["out"] = [(k, list(v)) for k, v in r.items()]
        return r

    def cc(samples):
        r = o_cc(samples)
        rec["cur"][-1]["ok"] = bool(r)
        return r

    block.sample_continuous, block._sample_continuous, block._check_constraints = sc, _sc, cc
    random.seed(seed)
    import sweetpea as sp
    strat = {"IterateSATGen": sp.IterateSATGen, "RandomGen": sp.RandomGen}[strategy]
    try:
        with ir.quiet():
            ex = sp.synthesize_trials(block, n, strat)
        out["status"] = "ok"
        out["experiments"] = ex
    except GiveUp:
        out["status"] = "gave-up"
    except Exception as e:  # noqa
        out["status"] = "error"
        out["error"] = ("error", type(e).__name__, str(e)[:200])
    finally:
        del block.sample_continuous, block._sample_continuous, block._check_constraints
    return out


# --------------------------------------------------------------------------- wire

def w_window(program, d):
    fm = fmap(program)
    return [[fm[x]["name"] for x in d["fs"]], d["width"], d.get("stride", 1),
            Atom("none") if d.get("start") is None else d["start"]]


def w_dep(program, d):
    fm = fmap(program)
    if d["t"] == "disc":
        return [Atom("disc"), fm[d["f"]]["name"]]
    if d["t"] == "cont":
        return [Atom("cont"), fm[d["f"]]["name"]]
    if d["t"] == "num":
        return [Atom("num"), d["v"]]
    return [Atom("win"), w_window(program, d)]


def w_cfactor(program, fd):
    return [fd["name"], [w_dep(program, d) for d in fd["cdist"]["deps"]], bool(fd["cdist"].get("cumulative"))]


def w_pred(p):
    return [Atom(p[0])] + list(p[1:])


def real_cfactors(program, block):
    """The continuous factors of the real block, in its order, as program descriptions."""
    byname = {f["name"]: f for f in program["factors"] if f["kind"] == "continuous"}
    return [byname[c.name] for c in block.continuous_factors]


def real_constraints(program, built, block):
    """block.constraints in order: ContinuousConstraints mapped back to their description."""
    from sweetpea._internal.constraint import ContinuousConstraint
    fm = fmap(program)
    # a block works on shallow copies of the constraint objects it is given (/repo 88b3d0f): the
    # constraint function object is shared by the copy and identifies the description
    ids = {id(obj.constraint_function): cid for cid, obj in built.constraints.items()
           if isinstance(obj, ContinuousConstraint)}
    cdesc = {c["id"]: c for c in program.get("constraints", [])}
    out = []
    for c in block.constraints:
        if isinstance(c, ContinuousConstraint):
            d = cdesc[ids[id(c.constraint_function)]]
            out.append([Atom("cc"), [fm[f]["name"] for f in d["factors"]], w_pred(d["pred"])])
        else:
            out.append([Atom("other")])
    return out


def oracle_of_log(log):
    orc = {}
    for name, _ins, r in log:
        orc.setdefault(name, []).append(w_value(r))
    return [[k, v] for k, v in orc.items()]


# --------------------------------------------------------------------------- the documented meaning (search)

def doc_window_dict(seq, name, width, stride, start, t):
    """Documented window of factor `name` at trial t of the returned sequence `seq`."""
    nan = float("nan")
    st = width - 1 if start is None else start
    if t < st or (stride >= 1 and (t - st) % stride != 0):
        return {-k: nan for k in range(width)}
    return {-k: (seq[name][t - k] if t - k >= 0 else nan) for k in range(width)}


def doc_inputs(program, fd, seq, t):
    fm = fmap(program)
    args = []
    for d in fd["cdist"]["deps"]:
        if d["t"] in ("disc", "cont"):
            args.append(seq[fm[d["f"]]["name"]][t])
        else:
            ws = [doc_window_dict(seq, fm[x]["name"], d["width"], d.get("stride", 1), d.get("start"), t) for x in d["fs"]]
            args.append(ws[0] if len(ws) == 1 else ws)
    return args


def same(a, b):
    """Equality of two returned values without comparing floats."""
    try:
        return canon_value(a) == canon_value(b)
    except Unsupported:
        return False


def search_experiment(program, cfs, ccs, T, e, pre):
    """Decide C22 on one returned experiment.  cfs: declared continuous factor descriptions
    (design order); ccs: ContinuousConstraint descriptions; pre: the dict the sampler produced.
    Returns a list of (sig, why)."""
    fm = fmap(program)
    bad = []
    for fd in cfs:
        n = fd["name"]
        if n not in e:
            bad.append(("missing-values", "declared continuous factor %r has no values in the returned experiment (keys %r)" % (
                n, list(map(str, e.keys())))))
        elif len(e[n]) != T:
            bad.append(("wrong-length", "continuous factor %r has %d values for %d trials" % (n, len(e[n]), T)))
    if bad:
        return bad
    for c in ccs:
        names = [fm[f]["name"] for f in c["factors"]]
        fn = pred_fn(c["pred"], len(names))
        for t in range(T):
            if not fn(*[e[n][t] for n in names]):
                bad.append(("constraint-violated", "ContinuousConstraint %r on %r fails at trial %d: values %r" % (
                    c["pred"], names, t, [e[n][t] for n in names])))
                break
    for fd in cfs:
        cd = fd["cdist"]
        if not cd["deps"]:
            continue
        n = fd["name"]
        haswin = any(d["t"] == "win" for d in cd["deps"])
        acc = 0
        for t in range(T):
            try:
                want = apply_fn(program, fd, doc_inputs(program, fd, e, t))
            except (KeyError, IndexError) as ex:
                bad.append(("dependent-mismatch", "inputs of %r at trial %d not in the returned experiment: %r" % (n, t, ex)))
                break
            if cd.get("cumulative"):
                want = acc + want if not (is_nan(acc) or is_nan(want)) else float("nan")
                acc = want
            if not same(e[n][t], want):
                bad.append(("window-mismatch" if haswin else "dependent-mismatch",
                            "%r at trial %d is %r but its function applied to the documented inputs %r gives %r" % (
                                n, t, e[n][t], doc_inputs(program, fd, e, t), want)))
                break
    contnames = set(fd["name"] for fd in cfs)
    if pre is not None:
        for k, vs in pre:
            if k in contnames:
                bad.append(("discrete-overwritten", "the sampler's column %r is replaced by the continuous factor of the same "
                            "name: %r -> %r" % (k, vs, e.get(k))))
                continue
            if k not in e or list(e[k]) != list(vs):
                bad.append(("discrete-changed", "discrete column %r changed by the continuous merge: %r -> %r" % (k, vs, e.get(k))))
        extra = [k for k in e if k not in contnames and k not in [p[0] for p in pre]]
        if extra:
            bad.append(("extra-keys", "keys %r appear in the returned experiment" % (extra,)))
    return bad


def acceptable(program, ccs, out):
    """Independent verdict on one recorded attempt: does every ContinuousConstraint predicate hold at every
    trial of the values `out` this attempt drew?  None when a constrained factor was not sampled."""
    fm = fmap(program)
    d = dict(out)
    for c in ccs:
        names = [fm[f]["name"] for f in c["factors"]]
        if not names or any(n not in d for n in names):
            return None
        fn = pred_fn(c["pred"], len(names))
        for t in range(len(d[names[0]])):
            if not fn(*[d[n][t] for n in names]):
                return False
    return True


def first_acceptable(program, real, ccs):
    """The loop must return the FIRST acceptable attempt (C22_resample_first / _returns_first / _reject_sound
    on the real code): per experiment, no recorded attempt before the last satisfies every constraint, the
    last does, and the returned continuous columns are its values.  Returns (failures, statistics)."""
    bad = []
    st = {"experiments": 0, "attempts": 0, "rejected": 0, "skipped": 0}
    exps = real["rec"]["exps"]
    for ei, atts in enumerate(exps):
        if ei >= len(real["experiments"]) or not atts:
            continue
        if any(att["out"] is None for att in atts):
            st["skipped"] += 1
            continue
        verdicts = [acceptable(program, ccs, att["out"]) for att in atts]
        if any(v is None for v in verdicts):
            st["skipped"] += 1
            continue
        st["experiments"] += 1
        st["attempts"] += len(atts)
        st["rejected"] += verdicts.count(False)
        if True in verdicts[:-1]:
            k = verdicts.index(True)
            bad.append(("acceptable-attempt-discarded", "experiment %d: attempt %d of %d drew %r, which satisfies every "
                        "ContinuousConstraint, but the loop resampled" % (ei, k, len(atts), atts[k]["out"])))
        if not verdicts[-1]:
            bad.append(("unacceptable-attempt-returned", "experiment %d: the loop stopped after attempt %d of %d whose values %r "
                        "violate a ContinuousConstraint" % (ei, len(atts) - 1, len(atts), atts[-1]["out"])))
        e = real["experiments"][ei]
        for n, vs in atts[-1]["out"]:
            if n not in e or len(e[n]) != len(vs) or not all(same(x, y) for x, y in zip(e[n], vs)):
                bad.append(("returned-not-first-acceptable", "experiment %d: returned column %r = %r is not the first acceptable "
                            "attempt's %r" % (ei, n, e.get(n), vs)))
                break
    return bad, st


def oracle_valid(ds, seqs):
    try:
        return designrun.oracle_valid(ds, seqs)
    except RuntimeError as e:
        if "unknown-command" not in str(e):
            raise
    old = common.SPMODEL                        # development binary without the Design commands
    for alt in ("spmodel_Design", "spmodel"):
        p = os.path.join(common.VERIF, "extract", alt)
        if os.path.exists(p):
            common.SPMODEL = p
            try:
                return designrun.oracle_valid(ds, seqs)
            except RuntimeError:
                pass
            finally:
                common.SPMODEL = old
    raise RuntimeError("no model binary with the Design commands")


def strip_continuous(program):
    p = copy.deepcopy(program)
    cont = set(f["id"] for f in p["factors"] if f["kind"] == "continuous")
    ccid = set(c["id"] for c in p.get("constraints", []) if c["kind"] == "ContinuousConstraint")
    p["factors"] = [f for f in p["factors"] if f["id"] not in cont]
    p["constraints"] = [c for c in p.get("constraints", []) if c["id"] not in ccid]
    for b in p["blocks"]:
        if "design" in b:
            b["design"] = [f for f in b["design"] if f not in cont]
        b["constraints"] = [c for c in b.get("constraints", []) if c not in ccid]
    return p


def discrete_verdicts(program, exps):
    """Validity of the discrete part of every experiment per the reference semantics
    (None when outside docsem's fragment)."""
    try:
        ds = docsem.doc_sem(program)
    except docsem.Unsupported:
        return None
    except Exception:  # noqa
        return None
    seqs = []
    for e in exps:
        q = docsem.seq_of_sample(ds, e)
        if q is None:
            q = [[-1] * ds.T for _ in ds.forder]
        seqs.append(q)
    return oracle_valid(ds, seqs)


def declared_cfactors(program, bid=None):
    fm = fmap(program)
    return [fm[f] for f in ir.design_fids(program, program["main"] if bid is None else bid) if fm[f]["kind"] == "continuous"]


def used_cconstraints(program):
    used = set()
    for b in program["blocks"]:
        used.update(b.get("constraints", []))
    return [c for c in program.get("constraints", []) if c["kind"] == "ContinuousConstraint" and c["id"] in used]


def judge(program, strategy, n, seed, real=None):
    """All C22 failures of one (program, strategy, n, seed): list of (sig, why)."""
    real = real or run_real(program, strategy, n, seed)
    if real["status"] != "ok":
        return real, []
    cfs = declared_cfactors(program)
    ccs = used_cconstraints(program)
    T = real["T"]
    bad = []
    pre = real["rec"]["pre"]
    for ei, e in enumerate(real["experiments"]):
        try:
            b = search_experiment(program, cfs, ccs, T, e, pre[ei] if ei < len(pre) else None)
        except Unsupported as ex:
            b = [("unsupported-value", "returned experiment holds a value outside int/NaN/str: %s" % ex)]
        bad += [(s, "experiment %d: %s" % (ei, w)) for s, w in b]
    try:
        fb, real["first"] = first_acceptable(program, real, ccs)
        bad += fb
    except Unsupported:
        pass
    names = [f["name"] for f in program["factors"]]
    clash = len(set(names)) < len(names)      # duplicate factor names: reported as an observation (discrete-overwritten)
    if real["experiments"] and not clash:
        v = discrete_verdicts(program, real["experiments"])
        if v is not None and not all(v):
            # is the discrete sampler at fault also without the continuous factors?
            sp_ = strip_continuous(program)
            r2 = run_real(sp_, strategy, n, seed)
            v2 = discrete_verdicts(sp_, r2["experiments"]) if r2["status"] == "ok" and r2["experiments"] else None
            if v2 is not None and not all(v2):
                real["discrete_defect"] = True
            else:
                bad.append(("discrete-invalid", "experiment %d: discrete part invalid per the reference semantics (and valid "
                            "without the continuous factors)" % v.index(False)))
    return real, bad


# --------------------------------------------------------------------------- generator

SAFE_KINDS = ("AtMostKInARow", "Exclude", "MinimumTrials")


def gen_discrete(rng):
    for _ in range(50):
        shape = rng.choice(["cross"] * 6 + ["multi", "repeat", "repeat"])
        p = gen_design.gen_program(rng, max_space=3000, shape=shape,
                                   features={"weighted_p": 0.1, "wtype": rng.choice(["within", "within", "transition", "window"])})
        if p is None:
            continue
        for c in list(p["constraints"]):
            if c["kind"] not in SAFE_KINDS:
                p = design_batch.drop_constraint(p, c["id"])
        try:
            ds = docsem.doc_sem(p)
        except Exception:  # noqa
            continue
        if ds.T > 9:
            continue
        return p, ds.T
    raise RuntimeError("generator failed")


def leaf_block(program):
    return [b for b in program["blocks"] if b["kind"] in ("CrossBlock", "MultiCrossBlock")][0]


def gen_window(rng, earlier):
    fs = [rng.choice(earlier)]
    if len(earlier) > 1 and rng.random() < 0.25:
        fs = rng.sample(earlier, 2)
    return {"t": "win", "fs": fs, "width": rng.choice([1, 2, 2, 3]), "stride": rng.choice([1, 1, 2]),
            "start": rng.choice([None, None, 0, 1, 2])}


def gen_case(rng):
    program, T = gen_discrete(rng)
    fm = fmap(program)
    leaf = leaf_block(program)
    disc = [f for f in leaf["design"] if fm[f]["kind"] in ("simple", "derived")]
    ncont = rng.choice([1, 2, 2, 3])
    cids = []
    nextc = max([c["id"] for c in program["constraints"]] + [-1]) + 1
    for j in range(ncont):
        fid = 100 + j
        kinds = ["indep", "disc"] if not cids else ["indep", "disc", "cont", "cont", "win", "win", "win", "mixed"]
        kind = rng.choice(kinds)
        deps = []
        if kind == "disc":
            deps = [{"t": "disc", "f": rng.choice(disc)}]
        elif kind == "cont":
            deps = [{"t": "cont", "f": rng.choice(cids)}]
        elif kind == "win":
            deps = [gen_window(rng, cids)]
        elif kind == "mixed":
            for _ in range(2):
                r = rng.random()
                deps.append({"t": "disc", "f": rng.choice(disc)} if r < 0.3 else
                            {"t": "cont", "f": rng.choice(cids)} if r < 0.6 else gen_window(rng, cids))
        size = max(4, 3 * T)
        cd = {"deps": deps, "cumulative": rng.random() < 0.2, "base": rng.randint(-2, 5),
              "coef": [rng.choice([1, 1, 2, -1, 3]) for _ in deps],
              "nanmode": "propagate" if rng.random() < 0.2 else "replace",
              "seed": rng.randint(0, 10 ** 6), "lo": 0, "hi": size - 1}
        program["factors"].append({"id": fid, "name": "cf%d" % j, "kind": "continuous", "cdist": cd})
        cids.append(fid)
    fm = fmap(program)
    # where the continuous factors sit in the design
    design = list(leaf["design"])
    for fid in cids:
        design.insert(rng.randint(0, len(design)), fid)
    if rng.random() < 0.7:   # keep the continuous factors in dependency order most of the time
        order = [f for f in design if f in cids]
        it = iter(sorted(order))
        design = [next(it) if f in cids else f for f in design]
    leaf["design"] = design
    # ContinuousConstraints
    indep = [f for f in cids if not fm[f]["cdist"]["deps"] and not fm[f]["cdist"]["cumulative"]]
    holder = leaf
    if program["blocks"][-1]["kind"] == "Repeat" and rng.random() < 0.5:
        holder = program["blocks"][-1]
    for _ in range(rng.choice([0, 1, 1, 2])):
        if indep and rng.random() < 0.7:
            f = rng.choice(indep)
            hi = fm[f]["cdist"]["hi"]
            pred = rng.choice([["le", hi - 1], ["ge", 1], ["ne", rng.randint(0, hi)], ["le", hi - 2]])
            c = {"id": nextc, "kind": "ContinuousConstraint", "factors": [f], "pred": pred}
        elif len(cids) > 1 and rng.random() < 0.5:
            fs = rng.sample(cids, 2)
            c = {"id": nextc, "kind": "ContinuousConstraint", "factors": fs,
                 "pred": rng.choice([["lt"], ["le", rng.randint(5, 60)], ["ge", rng.randint(-10, 10)]])}
        else:
            f = rng.choice(cids)
            c = {"id": nextc, "kind": "ContinuousConstraint", "factors": [f],
                 "pred": rng.choice([["le", rng.randint(5, 80)], ["ge", rng.randint(-20, 5)], ["ne", rng.randint(0, 6)]])}
        program["constraints"].append(c)
        holder["constraints"] = holder.get("constraints", []) + [nextc]
        nextc += 1
    return {"program": program, "strategy": rng.choice(["RandomGen", "IterateSATGen"]), "n": rng.randint(1, 3),
            "seed": rng.randint(0, 10 ** 6)}


def features_of(program):
    fs = set()
    for f in program["factors"]:
        if f["kind"] != "continuous":
            continue
        cd = f["cdist"]
        if not cd["deps"]:
            fs.add("indep")
        if cd.get("cumulative"):
            fs.add("cumulative")
        for d in cd["deps"]:
            fs.add(d["t"])
            if d["t"] == "win":
                fs.add("win:w%d:s%d:st%s" % (d["width"], d.get("stride", 1), d.get("start")))
                if len(d["fs"]) > 1:
                    fs.add("win:multi")
    if used_cconstraints(program):
        fs.add("constrained")
    return fs


# --------------------------------------------------------------------------- hand-built programs

def F(fid, name, levels):
    return {"id": fid, "name": name, "kind": "simple", "levels": [[l, 1] for l in levels]}


def CF(fid, name, deps=(), **kw):
    cd = {"deps": list(deps), "cumulative": False, "base": 1, "coef": [1] * len(deps), "nanmode": "replace", "seed": fid,
          "lo": 0, "hi": 9}
    cd.update(kw)
    return {"id": fid, "name": name, "kind": "continuous", "cdist": cd}


def cross(bid, design, crossing, cs=()):
    return {"id": bid, "kind": "CrossBlock", "design": list(design), "crossing": list(crossing), "constraints": list(cs), "rcc": True}


def combinator_programs():
    """(label, program): blocks with continuous factors under every combinator."""
    col, siz = F(0, "color", ["r", "b"]), F(1, "size", ["s", "l"])
    c0 = CF(100, "c0")
    c1 = CF(101, "c1", [{"t": "win", "fs": [100], "width": 2, "stride": 1, "start": None}])
    mt = {"id": 0, "kind": "MinimumTrials", "trials": 4}
    cc = {"id": 1, "kind": "ContinuousConstraint", "factors": [100], "pred": ["le", 8]}
    out = []
    out.append(("CrossBlock", {"factors": [col, c0, c1], "constraints": [mt, cc],
                               "blocks": [cross(0, [0, 100, 101], [0], [0, 1])], "main": 0}))
    out.append(("MultiCrossBlock", {"factors": [col, siz, c0, c1], "constraints": [cc],
                                    "blocks": [{"id": 0, "kind": "MultiCrossBlock", "design": [0, 1, 100, 101],
                                                "crossings": [[0], [1]], "constraints": [1], "rcc": True}], "main": 0}))
    out.append(("Repeat", {"factors": [col, c0, c1], "constraints": [mt, cc],
                           "blocks": [cross(0, [0, 100, 101], [0], [1]),
                                      {"id": 1, "kind": "Repeat", "block": 0, "constraints": [0]}], "main": 1}))
    out.append(("Repeat:outer-constraint", {"factors": [col, c0, c1], "constraints": [mt, cc],
                                            "blocks": [cross(0, [0, 100, 101], [0], []),
                                                       {"id": 1, "kind": "Repeat", "block": 0, "constraints": [0, 1]}], "main": 1}))
    out.append(("Merge", {"factors": [col, siz, c0], "constraints": [],
                          "blocks": [cross(0, [0, 1, 100], [0]), cross(1, [0, 1, 100], [1]),
                                     {"id": 2, "kind": "Merge", "blocks": [0, 1], "constraints": []}], "main": 2}))
    out.append(("Merge:one-side", {"factors": [col, siz, c0], "constraints": [],
                                   "blocks": [cross(0, [0, 1, 100], [0]), cross(1, [0, 1], [1]),
                                              {"id": 2, "kind": "Merge", "blocks": [0, 1], "constraints": []}], "main": 2}))
    out.append(("Merge:inner-constraint", {"factors": [col, siz, c0], "constraints": [cc],
                                           "blocks": [cross(0, [0, 1, 100], [0], [1]), cross(1, [0, 1, 100], [1]),
                                                      {"id": 2, "kind": "Merge", "blocks": [0, 1], "constraints": []}], "main": 2}))
    out.append(("Nest:inner", {"factors": [col, siz, c0], "constraints": [],
                               "blocks": [cross(0, [0], [0]), cross(1, [1, 100], [1]),
                                          {"id": 2, "kind": "Nest", "outer": 0, "inner": 1, "constraints": []}], "main": 2}))
    out.append(("Nest:outer", {"factors": [col, siz, c0], "constraints": [],
                               "blocks": [cross(0, [0, 100], [0]), cross(1, [1], [1]),
                                          {"id": 2, "kind": "Nest", "outer": 0, "inner": 1, "constraints": []}], "main": 2}))
    return out


def dependency_programs():
    """(label, program, documented expectation): dependency shapes at the constructor.
    expectation: "valid" (every dependent is a factor of the design, the docs' only requirement,
    and precedes its user) or "invalid" (a dependent is not in the design)."""
    col = F(0, "color", ["r", "b"])
    other = F(1, "other", ["x", "y"])
    mt = {"id": 0, "kind": "MinimumTrials", "trials": 4}
    c0 = CF(100, "c0")
    out = []

    def prog(factors, design):
        return {"factors": factors, "constraints": [mt], "blocks": [cross(0, design, [0], [0])], "main": 0}
    d_c0 = CF(101, "c1", [{"t": "cont", "f": 100}])
    out.append(("cont-dep-earlier", prog([col, c0, d_c0], [0, 100, 101]), "valid"))
    out.append(("cont-dep-later", prog([col, c0, d_c0], [0, 101, 100]), "valid-unordered"))
    out.append(("cont-dep-absent", prog([col, c0, d_c0], [0, 101]), "invalid"))
    w_c0 = CF(101, "c1", [{"t": "win", "fs": [100], "width": 2, "stride": 1, "start": None}])
    out.append(("win-dep-earlier", prog([col, c0, w_c0], [0, 100, 101]), "valid"))
    out.append(("win-dep-later", prog([col, c0, w_c0], [0, 101, 100]), "valid-unordered"))
    out.append(("win-dep-absent", prog([col, c0, w_c0], [0, 101]), "invalid"))
    d_disc = CF(100, "c0", [{"t": "disc", "f": 0}])
    out.append(("disc-dep", prog([col, d_disc], [0, 100]), "valid"))
    d_other = CF(100, "c0", [{"t": "disc", "f": 1}])
    out.append(("disc-dep-absent", prog([col, other, d_other], [0, 100]), "invalid"))
    chain = CF(101, "c1", [{"t": "cont", "f": 100}])
    out.append(("cont-dep-on-disc-derived", prog([col, d_disc, chain], [0, 100, 101]), "valid"))
    w1 = CF(101, "c1", [{"t": "win", "fs": [100], "width": 2, "stride": 1, "start": None}])
    chain2 = CF(102, "c2", [{"t": "cont", "f": 101}])
    out.append(("cont-dep-on-window-derived", prog([col, c0, w1, chain2], [0, 100, 101, 102]), "valid"))
    chain3 = CF(102, "c2", [{"t": "cont", "f": 101}])
    out.append(("cont-dep-chain", prog([col, c0, d_c0, chain3], [0, 100, 101, 102]), "valid"))
    # degenerate declarations
    out.append(("name-clash-with-discrete", prog([col, CF(100, "color")], [0, 100]), "undocumented"))
    p0 = prog([col, c0], [0, 100])
    p0["constraints"].append({"id": 1, "kind": "ContinuousConstraint", "factors": [], "pred": ["le", 0]})
    p0["blocks"][0]["constraints"].append(1)
    out.append(("constraint-without-factors", p0, "undocumented"))
    out.append(("number-dependent", prog([col, CF(100, "c0", [{"t": "num", "v": 3}])], [0, 100]), "invalid"))
    out.append(("window-without-factors", prog([col, CF(100, "c0", [{"t": "win", "fs": [], "width": 2, "stride": 1, "start": None}])],
                                                [0, 100]), "undocumented"))
    return out


# --------------------------------------------------------------------------- unit layers: window, checkdep

def gen_window_case(rng):
    names = ["a", "b", "c"]
    fs = [rng.choice(names) for _ in range(rng.choice([0, 1, 1, 1, 2, 3]))]
    width = rng.choice([-1, 0, 1, 1, 2, 2, 3, 3, 4])
    stride = rng.choice([-1, 0, 1, 1, 1, 2, 2, 3])
    start = rng.choice([None, None, -1, 0, 1, 2, 3, 5])
    d = {}
    for n in names:
        if rng.random() < 0.85:
            d[n] = [rng.randint(-9, 99) if rng.random() < 0.9 else float("nan") for _ in range(rng.randint(0, 7))]
    idx = rng.randint(0, 7)
    return fs, width, stride, start, d, idx


def real_window(case):
    from sweetpea import ContinuousFactor, CustomDistribution, ContinuousFactorWindow
    fs, width, stride, start, d, idx = case
    objs = {n: ContinuousFactor(n, distribution=CustomDistribution(lambda: 0)) for n in set(fs)}
    kw = {} if start is None else {"start": start}
    try:
        w = ContinuousFactorWindow([objs[n] for n in fs], width, stride, **kw)
        r = w.get_window_val(idx, d)
    except Exception as e:  # noqa
        return ("error", type(e).__name__)
    return ("ok", canon_input(r))


def gen_checkdep_case(rng):
    """A list of continuous factor descriptions over discrete factor 0 ('color') in a random design order."""
    n = rng.randint(1, 4)
    fds = []
    for j in range(n):
        deps = []
        for _ in range(rng.choice([0, 1, 1, 2])):
            r = rng.random()
            others = [100 + k for k in range(n) if k != j]
            if r < 0.25 or not others:
                deps.append({"t": "disc", "f": 0})
            elif r < 0.7:
                deps.append({"t": "cont", "f": rng.choice(others)})
            else:
                nw = rng.choice([0, 1, 1, 1, 2, 2])       # factors of the window (the check looks into windows)
                deps.append({"t": "win", "fs": rng.sample(others, min(nw, len(others))), "width": 2, "stride": 1, "start": None})
        fds.append(CF(100 + j, "c%d" % j, deps))
    # dependencies must be constructible: order the factor list topologically, drop cycles
    order, placed = [], set()
    for _ in range(n):
        for fd in fds:
            if fd["id"] in placed:
                continue
            need = set()
            for d in fd["cdist"]["deps"]:
                need.update([d["f"]] if d["t"] == "cont" else d["fs"] if d["t"] == "win" else [])
            if need <= placed:
                order.append(fd)
                placed.add(fd["id"])
    if len(order) < n:
        return None
    design = [fd["id"] for fd in fds]
    rng.shuffle(design)
    if rng.random() < 0.3 and len(design) > 1:
        design = design[:-1]                     # one factor not in the design
    return order, design


# --------------------------------------------------------------------------- run

def describe(program):
    fm = fmap(program)
    parts = []
    for f in program["factors"]:
        if f["kind"] != "continuous":
            continue
        ds = []
        for d in f["cdist"]["deps"]:
            if d["t"] in ("disc", "cont"):
                ds.append(fm[d["f"]]["name"])
            else:
                ds.append("Window(%s, width=%d, stride=%d, start=%s)" % ([fm[x]["name"] for x in d["fs"]], d["width"],
                                                                          d.get("stride", 1), d.get("start")))
        parts.append("%s(%s%s)" % (f["name"], ", ".join(ds), ", cumulative" if f["cdist"].get("cumulative") else ""))
    return "%s with continuous factors %s" % (design_batch.shape(program), "; ".join(parts))


def in_continuous_sampling(real):
    """Did the exception of a failed run come out of _sample_continuous / _check_constraints?"""
    exps = real.get("rec", {}).get("exps") or []
    if not exps or not exps[-1]:
        return False
    last = exps[-1][-1]
    return last["out"] is None or last["ok"] is None


def corr_lines(case, real):
    """Model command lines and expected values for one successfully or unsuccessfully sampled case."""
    program = case["program"]
    built, block, rec, T = real["built"], real["block"], real["rec"], real["T"]
    fs = [w_cfactor(program, fd) for fd in real_cfactors(program, block)]
    cs = real_constraints(program, built, block)
    orc = oracle_of_log(built.log)
    fuel = max([len(a) for a in rec["exps"]] + [0]) + 2
    pre = [w_dict(canon_dict(dict(p))) for p in rec["pre"]]
    lines = []
    if real["status"] == "ok":
        want_d = [canon_dict(e) for e in real["experiments"]]
        cum, want_a = 0, []
        for a in rec["exps"]:
            cum += len(a)
            want_a.append(cum)
        if not rec["exps"]:
            want_a = [0] * len(want_d)
        lines.append(("synth", sexp([Atom("synth"), T, fs, cs, fuel, orc, pre if rec["pre"] else
                                     [w_dict(canon_dict(e)) for e in real["experiments"]]]),
                      ("ok", want_d, want_a, list(built.log))))
        a = 0
        for ei, atts in enumerate(rec["exps"]):
            if atts and ei < len(pre):
                lines.append(("verdicts", sexp([Atom("verdicts"), T, pre[ei], fs, cs, a, len(atts), orc]),
                              ("ok", [att["ok"] for att in atts])))
                lines.append(("scan", sexp([Atom("scan"), T, pre[ei], fs, cs, len(atts) + 2, a, orc]),
                              ("ok", canon_dict(dict(atts[-1]["out"])), a + len(atts))))
            for ai, att in enumerate(atts):
                if ai < 2 or ai == len(atts) - 1:
                    lines.append(("attempt", sexp([Atom("sample"), T, pre[ei], fs, a, orc]),
                                  ("ok", canon_dict(dict(att["out"])), list(att["log"]))))
                    lines.append(("check", sexp([Atom("check"), cs, w_dict(canon_dict(dict(att["out"])))]),
                                  ("ok", att["ok"])))
                a += 1
    else:
        lines.append(("error", sexp([Atom("synth"), T, fs, cs, fuel, orc, pre]), ("error", real["error"][1])))
    return lines


def giveup_lines(case, real):
    """A run that gave up (the recording distributions stop after a fixed number of calls): on the draws of the
    completed attempts of the unfinished experiment the model must run out of fuel (C22_resample_none: every
    one of them is rejected), and no completed attempt may have been acceptable (independent verdict)."""
    program = case["program"]
    built, block, rec, T = real["built"], real["block"], real["rec"], real["T"]
    if not rec["exps"] or not rec["pre"]:
        return [], None
    fs = [w_cfactor(program, fd) for fd in real_cfactors(program, block)]
    cs = real_constraints(program, built, block)
    orc = oracle_of_log(built.log)
    a0 = sum(len(a) for a in rec["exps"][:-1])
    done = [att for att in rec["exps"][-1] if att["out"] is not None and att["ok"] is not None]
    if not done:
        return [], None
    pre = w_dict(canon_dict(dict(rec["pre"][-1])))
    lines = [("giveup", sexp([Atom("scan"), T, pre, fs, cs, len(done), a0, orc]), ("error", "OutOfFuel")),
             ("verdicts-giveup", sexp([Atom("verdicts"), T, pre, fs, cs, a0, len(done), orc]), ("ok", [att["ok"] for att in done]))]
    ccs = used_cconstraints(program)
    discarded = [k for k, att in enumerate(done) if acceptable(program, ccs, att["out"])]
    return lines, (len(done), discarded)


def compare(layer, out, want):
    if out.startswith("!"):
        return False
    r = parse_sexp(out)[0]
    if layer in ("error", "giveup"):
        return r[0] == "err" and r[1] == want[1]
    if layer == "verdicts-giveup":
        return list(r) == ["reject"] * len(want[1]) and not any(want[1])
    if layer == "window":
        if want[0] == "error":
            return r[0] == "err" and r[1] == want[1]
        return r[0] == "ok" and p_input(r[1]) == want[1]
    if layer == "checkdep":
        return out == want
    if layer == "verdicts":
        return list(r) == ["accept" if ok else "reject" for ok in want[1]] and want[1][-1] and not any(want[1][:-1])
    if r[0] != "ok":
        return False
    if layer == "scan":
        return p_dict(r[1]) == want[1] and r[2] == want[2]
    if layer == "synth":
        ms, log = r[1], r[2]
        return ([p_dict(m[0]) for m in ms] == want[1] and [m[1] for m in ms] == want[2]
                and p_log(log) == [(n, list(i), v) for n, i, v in want[3]])
    if layer == "attempt":
        return p_dict(r[1]) == want[1] and p_log(r[2]) == [(n, list(i), v) for n, i, v in want[2]]
    if layer == "check":
        return (r[1] == "true") == want[1]
    return False


def run(ctx, res):
    rng = ctx.rng
    ncases = 220 if ctx.quick else 2000
    nwin = 1500 if ctx.quick else 20000
    ndep = 150 if ctx.quick else 1500
    res.rule = ("%d seeded programs: discrete part from gen_design.gen_program (shapes cross / multi / repeat, 1-3 basic factors, "
                "derived factors within / transition / window, weights; constraints AtMostKInARow / Exclude / MinimumTrials), "
                "T <= 9, plus 1-3 continuous factors (independent seeded integer stream | function of a discrete factor | of an "
                "earlier continuous factor | of a ContinuousFactorWindow over 1-2 continuous factors with width 1-3, stride 1-2, "
                "start None/0/1/2 | two such arguments; cumulative 20%%; NaN propagated or replaced) at arbitrary design "
                "positions and 0-2 ContinuousConstraints (le / ge / ne / lt on 1-2 factors, bounds that fail for about a third "
                "of the draws); RandomGen or IterateSATGen, 1-3 experiments; %d get_window_val cases (0-3 factors, width -1..4, "
                "stride -1..3, start None/-1..5, missing keys, short lists, NaN entries); %d dependency shapes at the "
                "constructor; 9 combinator and 15 dependency / degenerate hand-built programs.  Non-trivial = the sampled program has a "
                "dependent continuous factor or a ContinuousConstraint" % (ncases, nwin, ndep))
    res.assumptions.append(LEVEL_NOTE)
    res.extra["level_note"] = LEVEL_NOTE
    lines, expect, mism = [], [], []
    found = {}
    stats = {"ok": 0, "gave-up": 0, "rejected-by-constructor": 0, "error": 0, "resampled": 0, "attempts": 0,
             "experiments": 0, "discrete-defect-not-c22": 0, "unsupported": 0,
             "attempts-per-experiment": {}, "max-attempts": 0,
             "first-acceptable": {"experiments": 0, "attempts": 0, "rejected": 0, "skipped": 0}}
    feats = {}
    observations = []

    def note(sig, what, replay, size):
        if sig not in found or size < found[sig][0]:
            found[sig] = (size, what, replay)

    def add(layer, line, want, cid):
        lines.append(line)
        expect.append((layer, want, cid))

    # ---- generated programs
    for ci in range(ncases):
        case = gen_case(rng)
        program = case["program"]
        try:
            real, bad = judge(program, case["strategy"], case["n"], case["seed"])
        except Unsupported:
            stats["unsupported"] += 1
            res.count(None, nontrivial=False)
            continue
        st = real["status"]
        if st == "rejected":
            stats["rejected-by-constructor"] += 1
            observations.append(("generated", describe(program), real["error"][1], real["error"][2][:120]))
            res.count(None, nontrivial=False)
            continue
        stats[st] = stats.get(st, 0) + 1
        fts = features_of(program)
        nontrivial = st == "ok" and bool(fts - {"indep"})
        res.count(json.dumps(program, sort_keys=True), nontrivial=nontrivial)
        if st == "ok":
            for f in fts:
                feats[f] = feats.get(f, 0) + 1
            stats["experiments"] += len(real["experiments"])
            for atts in real["rec"]["exps"]:
                stats["attempts"] += len(atts)
                stats["resampled"] += len(atts) > 1
                hk = str(len(atts)) if len(atts) < 6 else "6+"
                stats["attempts-per-experiment"][hk] = stats["attempts-per-experiment"].get(hk, 0) + 1
                stats["max-attempts"] = max(stats["max-attempts"], len(atts))
            for k, v in real.get("first", {}).items():
                stats["first-acceptable"][k] += v
            if real.get("discrete_defect"):
                stats["discrete-defect-not-c22"] += 1
            if len(res.samples) < 3 and nontrivial:
                res.sample({"program": describe(program), "strategy": case["strategy"], "T": real["T"],
                            "returned": [{k: [("nan" if is_nan(x) else x) for x in v] for k, v in e.items()}
                                         for e in real["experiments"][:1]],
                            "attempts per experiment": [len(a) for a in real["rec"]["exps"]]})
        for sig, why in bad:
            note("c22:" + sig, "%s, %s: %s" % (describe(program), case["strategy"], why),
                 dict(case, sig="c22:" + sig), len(json.dumps(program)))
        if st == "error" and not in_continuous_sampling(real):
            stats["error"] -= 1
            stats["discrete-side-error-not-c22"] = stats.get("discrete-side-error-not-c22", 0) + 1
            continue
        if st in ("ok", "error") and "rec" in real:
            if st == "error":
                observations.append(("generated:accepted-design-raises", describe(program), real["error"][1], real["error"][2][:120]))
            try:
                for layer, line, want in corr_lines(case, real):
                    add(layer, line, want, ci)
            except Unsupported:
                stats["unsupported"] += 1
        elif st == "gave-up" and "rec" in real:
            try:
                glines, ginfo = giveup_lines(case, real)
            except Unsupported:
                glines, ginfo = [], None
            for layer, line, want in glines:
                add(layer, line, want, ci)
            if ginfo is not None:
                stats["gave-up-attempts-all-rejected"] = stats.get("gave-up-attempts-all-rejected", 0) + ginfo[0]
                if ginfo[1]:
                    note("c22:acceptable-attempt-discarded", "%s, %s: the run gave up although attempt %d of the unfinished "
                         "experiment satisfied every ContinuousConstraint" % (describe(program), case["strategy"], ginfo[1][0]),
                         dict(case, sig="c22:acceptable-attempt-discarded"), len(json.dumps(program)))

    # ---- hand-built combinator programs (search + correspondence)
    comb = {}
    for label, program in combinator_programs():
        for strategy in ("RandomGen", "IterateSATGen"):
            case = {"program": program, "strategy": strategy, "n": 2, "seed": 1}
            real, bad = judge(program, strategy, 2, 1)
            comb["%s/%s" % (label, strategy)] = real["status"] if real["status"] != "ok" else (
                "ok, continuous factors sampled: %r of declared %r" % (
                    [c.name for c in real["block"].continuous_factors], [f["name"] for f in declared_cfactors(program)]))
            res.count("comb:%s:%s" % (label, strategy), nontrivial=True)
            if real["status"] in ("rejected", "error"):
                observations.append(("combinator:" + label, strategy, real["error"][1], real["error"][2][:160]))
            for sig, why in bad:
                full = "c22:%s:%s" % (sig, design_batch.shape(program)) if sig == "missing-values" else "c22:" + sig
                note(full, "%s (%s), %s: %s" % (describe(program), label, strategy, why),
                     dict(case, sig=full), len(json.dumps(program)))
            if real["status"] == "ok":
                for layer, line, want in corr_lines(case, real):
                    add(layer, line, want, label)
    res.extra["combinators"] = comb

    # ---- hand-built dependency programs: constructor behaviour (observations) + correspondence of errors
    deps_seen = {}
    for label, program, expectation in dependency_programs():
        case = {"program": program, "strategy": "RandomGen", "n": 1, "seed": 1}
        real, bad = judge(program, "RandomGen", 1, 1)
        res.count("dep:" + label, nontrivial=True)
        st = real["status"]
        deps_seen[label] = {"documented": expectation,
                            "observed": st if st == "ok" else "%s %s" % (st, real.get("error", ("", "", ""))[1])}
        if expectation == "valid" and st != "ok":
            observations.append(("valid-design-not-sampled:" + label, describe(program), real["error"][1], real["error"][2][:160]))
        if expectation != "valid" and st == "error":
            observations.append(("accepted-design-raises:" + label, describe(program), real["error"][1], real["error"][2][:160]))
        for sig, why in bad:
            if sig == "discrete-overwritten":
                observations.append(("duplicate-name:" + label, describe(program), sig, why[:200]))
                continue
            note("c22:" + sig, "%s (%s): %s" % (describe(program), label, why), dict(case, sig="c22:" + sig),
                 len(json.dumps(program)))
        if ("factor", 100) not in real["built"].errors:
            cfl = [w_cfactor(program, fd) for fd in declared_cfactors(program)]
            add("checkdep", sexp([Atom("checkdep"), cfl]),
                "raise" if (st == "rejected" and real["error"][1] == "RuntimeError" and "Derived Conitunuous" in real["error"][2]) else "ok",
                label)
        if st in ("ok", "error") and "rec" in real:
            for layer, line, want in corr_lines(case, real):
                add(layer, line, want, label)
    res.extra["dependency_shapes"] = deps_seen

    # ---- get_window_val unit layer
    with ir.quiet():
        for wi in range(nwin):
            wc = gen_window_case(rng)
            fs, width, stride, start, d, idx = wc
            want = real_window(wc)
            res.count(("win", wi), nontrivial=bool(fs) and width >= 1)
            add("window", sexp([Atom("window"), [list(fs), width, stride, Atom("none") if start is None else start], idx,
                                w_dict(canon_dict(d))]), want, wi)

    # ---- __check_dependency unit layer
    col = F(0, "color", ["r", "b"])
    ndone = 0
    while ndone < ndep:
        g = gen_checkdep_case(rng)
        if g is None:
            continue
        ndone += 1
        order, design = g
        program = {"factors": [col] + order, "constraints": [], "blocks": [cross(0, [0] + design, [0])], "main": 0}
        built = build(program)
        err = built.errors.get(("block", 0))
        if err is not None and not (err[1] == "RuntimeError" and "Derived Conitunuous" in err[2]):
            observations.append(("checkdep:other-error", describe(program), err[1], err[2][:120]))
            continue
        fm = fmap(program)
        res.count(("dep", ndone), nontrivial=len(order) > 1)
        add("checkdep", sexp([Atom("checkdep"), [w_cfactor(program, fm[f]) for f in design]]),
            "raise" if err is not None else "ok", ndone)

    outs = ctx.model([l for l in lines]) if lines else []
    for line, out, (layer, want, cid) in zip(lines, outs, expect):
        ok = compare(layer, out, want)
        res.layer(layer, ok)
        if not ok:
            mism.append((layer, cid, line[:400], out[:400], repr(want)[:400]))
    stats["attempts-per-experiment"] = dict(sorted(stats["attempts-per-experiment"].items()))
    stats["features"] = dict(sorted(feats.items()))
    res.extra["generated"] = stats
    obs = {}
    for o in observations:
        obs.setdefault(o[0].split(":")[0] if o[0].startswith("generated") else o[0], []).append(list(o[1:]))
    res.extra["constructor_observations"] = {k: v[:3] + ([["... %d more" % (len(v) - 3)]] if len(v) > 3 else [])
                                             for k, v in obs.items()}
    res.extra["search_space"] = ("every experiment returned for the generated and hand-built programs: value counts, every "
                                 "ContinuousConstraint at every trial, every dependent value recomputed from the returned dict "
                                 "through the documented inputs / windows, discrete columns vs the sampler's output and vs "
                                 "Design/Sem.v; every recorded attempt of the resample loop: verdict recomputed from its draws, "
                                 "first acceptable attempt = the returned one")
    res.extra["exhaustive"] = False
    for sig in sorted(found):
        _, what, replay = found[sig]
        res.violations.append(Violation(sig, what, replay))
    if mism:
        # always reported: run.py prints a broken tie unless an unlisted concrete failing input explains it
        # (known findings must not mask a broken correspondence)
        res.violations.append(Violation(
            "corr:" + mism[0][0], "model Out/Continuous.v and the real code disagree on %d cases, e.g. %r" % (len(mism), mism[0]),
            {"layer": mism[0][0], "theorems": THEOREMS, "first_mismatch": repr(mism[0])}, failing_input=False))
        if found:
            res.notes.append("correspondence also broken on %d cases, e.g. %r" % (len(mism), mism[0]))
    if observations:
        res.notes.append("constructor observations (not C22 failures: no sequence is returned): %s" % json.dumps(
            {k: len(v) for k, v in obs.items()}, sort_keys=True))
    res.notes.append(LEVEL_NOTE)


def replay(ctx, data):
    real, bad = judge(data["program"], data["strategy"], data["n"], data["seed"])
    want = data.get("sig")
    kind = design_batch.shape(data["program"])
    for s, _ in bad:
        if want is None or "c22:" + s == want or "c22:%s:%s" % (s, kind) == want:
            return True
    return False
