"""C23 - Weighted levels behave as documented.

Theorems: coq/theories/Properties/C23.v (about Front/Desugar.v: weight desugaring and
the crossing-weight arithmetic).
Correspondence (L1):
  L1-desugar   Front/Desugar.v `desugar` run on the description of the design and crossings
               handed to `_create` vs the real block's design / crossings after `_create`
               (names, HiddenName flag, derived flag, window factors, level names and weights);
  L1-weights   `combo_weights` / `crossing_size_wo` vs the real `combination_weight` of every
               combination of every crossing and `crossing_size_without_exclusions`;
  L1-desugarsem  Front/DesugarSem.v `widen` / `orig` (the objects of C23_desugared_valid and
               C23_desugared_fibre) vs the documented normal form of the twin program with
               separately named copies and the twin's copy -> original-name map.
Search (the property itself):
  (a) crossed weighted factors (simple or derived, in every crossing): the exhausted
      IterateSATGen set equals the set the reference oracle enumerates for
      doc_sem(program) - i.e. that of the weight-1 design in which every crossing combination
      must occur (product of its level weights) times - no sequence is returned twice, and
      for a plain full crossing the count is the multinomial T! / prod(mult!);
  (b) a weighted non-derived factor that is not in every crossing vs the twin program in
      which each level of weight w is replaced by w separately named copies (name#1 ..
      name#w, weight 1): the twin's exhausted set, mapped back to the original names, must
      equal the program's exhausted set as name-level multisets (each name-level sequence
      occurs (product of the weights of the chosen levels) times).
"""
import collections
import copy
import json
import math

import designrun
import docsem
import ir
from common import Violation
from docsem import to_wire
from props import c16
from props.c16 import F
from props.c24 import exhaust, show_key, within

TITLE = "weighted levels"
LEVEL = "proof"
DOMAINS = ["Front", "Design"]

CAP = 400


# --------------------------------------------------------------------------- descriptions for the desugaring model

def describe(design):
    """[name, hidden, derived, deps (positions), [(level name, weight)]] per factor of a list of real factors."""
    from sweetpea._internal.primitive import DerivedFactor, HiddenName
    out = []
    for f in design:
        hidden = isinstance(f.name, HiddenName)
        name = str(f.name.name) if hidden else str(f.name)
        if isinstance(f, DerivedFactor):
            deps = [next((i for i, g in enumerate(design) if g is d), 99) for d in f.first_level.window.factors]
            out.append([name, hidden, True, deps, [[str(l.name), l.weight] for l in f.levels]])
        else:
            out.append([name, hidden, False, [], [[str(l.name), l.weight] for l in f.levels]])
    return out


def desc_view(desc, crossings):
    def sh(x):
        if isinstance(x, (list, tuple)):
            return "(" + " ".join(sh(y) for y in x) + ")"
        if isinstance(x, bool):
            return "true" if x else "false"
        if isinstance(x, str):
            return '"%s"' % x
        return str(x)
    return sh(desc) + " " + sh(crossings)


def desugar_observations(program):
    """[(model line, real view)] for every block of the program (needs the recorded _create arguments)."""
    built, rec, steps = c16.instrumented_build(program)
    out = []
    for st in steps:
        blk = built.blocks.get(st["bid"])
        r = st["recorded"]
        if blk is None or r is None:
            continue
        design = [rec.factors[i] for i in r["design"]]
        design = [f for f in design if type(f).__name__ != "ContinuousFactor"]
        pos = {id(f): i for i, f in enumerate(design)}
        crossings = [[pos[id(rec.factors[i])] for i in c] for c in r["crossings"] if c]
        line = "(desugar %s %s)" % (to_wire(describe(design)), to_wire(crossings))
        rpos = {id(f): i for i, f in enumerate(blk.design)}
        real = desc_view(describe(blk.design), [[rpos[id(f)] for f in c] for c in blk.crossings])
        out.append(("desugar", line, real))
        from sweetpea._internal.weight import combination_weight
        import itertools
        for c in blk.crossings:
            ws = [combination_weight(cb) for cb in itertools.product(*[list(f.levels) for f in c])]
            line = "(comboweights %s %s)" % (to_wire(describe(blk.design)), to_wire([rpos[id(f)] for f in c]))
            out.append(("weights", line, "%d (%s)" % (blk.crossing_size_without_exclusions(c), " ".join(str(w) for w in ws))))
    return out


# --------------------------------------------------------------------------- (a) crossed weighted factors

def gen_crossed(rng):
    nA = rng.choice([2, 2, 3])
    wA = [rng.choice([1, 2, 2, 3]) if i == 0 else rng.choice([1, 1, 2]) for i in range(nA)]
    if sum(wA) > 4:
        wA = [2] + [1] * (nA - 1)
    A = F(0, "A", ["a%d" % i for i in range(nA)], wA)
    B = F(1, "B", ["b0", "b1"], [rng.choice([1, 1, 2]), 1])
    C = F(2, "C", ["c0", "c1"])
    wAB = within(3, "wAB", 0, 1, [l for l, _ in A["levels"]], [l for l, _ in B["levels"]])
    wAB["levels"][0]["weight"] = rng.choice([1, 2])
    wC = {"id": 4, "name": "wC", "kind": "derived", "window": {"type": "within", "deps": [2]},
          "levels": [{"name": "p", "table": [[["c0"]]], "weight": rng.choice([1, 2, 3])}, {"name": "q", "else": True, "weight": 1}]}
    factors = [A, B, C, wAB, wC]
    cons = []
    r = rng.random()
    if r < 0.35:
        design, crossings = [0, 1], [[0, 1]] if sum(wA) * sum(w for _, w in B["levels"]) <= 8 else [[0]]
    elif r < 0.5:
        design, crossings = [0, 1], [[0]]
    elif r < 0.65:
        design, crossings = [0, 1], [[0], [0, 1]] if sum(wA) * sum(w for _, w in B["levels"]) <= 8 else [[0], [0]]
    elif r < 0.85:
        design, crossings = [2, 4], [[4]]                 # crossed derived factor with weighted levels
    else:
        design, crossings = [0, 2, 4], [[0, 4]] if sum(wA) * (wC["levels"][0]["weight"] + 1) <= 8 else [[4]]
    cs = []
    if rng.random() < 0.3:
        f = factors[crossings[0][0]]
        ln = f["levels"][0][0] if f["kind"] == "simple" else f["levels"][0]["name"]
        cons.append({"id": 0, "kind": rng.choice(["AtMostKInARow", "ExactlyK"]), "k": rng.choice([1, 2]), "level": [f["id"], ln]})
        cs.append(0)
    if len(crossings) == 1:
        blocks = [{"id": 0, "kind": "CrossBlock", "design": design, "crossing": crossings[0], "constraints": cs, "rcc": True}]
    else:
        blocks = [{"id": 0, "kind": "MultiCrossBlock", "design": design, "crossings": crossings, "constraints": cs, "rcc": True,
                   "mode": rng.choice(["weight", "repeat"]), "alignment": "equal preamble"}]
    return {"factors": factors, "constraints": cons, "blocks": blocks, "main": 0}


def hand_crossed():
    """derived-level weights when the derived factor is rewritten by the desugaring of its source factor"""
    A = F(0, "A", ["a0", "a1"], [2, 1])
    D = {"id": 1, "name": "D", "kind": "derived", "window": {"type": "within", "deps": [0]},
         "levels": [{"name": "p", "table": [[["a0"]]], "weight": 2}, {"name": "q", "else": True, "weight": 1}]}
    return [("derived-weights-under-desugaring",
             {"factors": [A, D], "constraints": [],
              "blocks": [{"id": 0, "kind": "CrossBlock", "design": [0, 1], "crossing": [1], "constraints": [], "rcc": True}], "main": 0})]


def check_crossed(program, stats):
    """[(sig, what, detail)]"""
    found = []
    try:
        ds = docsem.doc_sem(program)
    except docsem.Unsupported:
        stats["a:unsupported"] += 1
        return found, "unsupported"
    built = ir.build(program)
    blk = ir.main_block(built, program)
    if blk is None:
        stats["a:rejected"] += 1
        return found, "rejected"
    with ir.quiet():
        T = blk.trials_per_sample()
    if T != ds.T:
        fm0 = {f["name"]: f for f in program["factors"]}
        dropped = [str(f.name) for f in blk.design if str(f.name) in fm0 and fm0[str(f.name)]["kind"] == "derived"
                   and [l.weight for l in f.levels] != docsem.level_weights(fm0[str(f.name)])]
        if dropped:
            found.append(("weights:derived-weight-dropped",
                          "derived factor %s has level weights %r in the program but %r in the built block: weight desugaring of the "
                          "factor it reads re-creates its levels without their weights (DerivedLevel.desugar_for_weights); the block "
                          "reports %d trials, the documented weighted crossing size gives %d"
                          % (dropped[0], docsem.level_weights(fm0[dropped[0]]),
                             [[l.weight for l in f.levels] for f in blk.design if str(f.name) == dropped[0]][0], T, ds.T),
                          {"reported": T, "documented": ds.T, "factor": dropped[0]}))
            return found, "trials-differ"
        found.append(("weights:trials", "the block reports %d trials, the documented weighted crossing size gives %d (crossing sizes %r, "
                      "level weights in the final design %r)" % (T, ds.T, list(blk.crossing_sizes),
                                                                 [[l.weight for l in f.levels] for f in blk.design]),
                      {"reported": T, "documented": ds.T}))
        return found, "trials-differ"
    space, seqs = designrun.oracle_all(ds)
    names = ir.user_factor_names(program)
    oracle = collections.Counter()
    for q in seqs:
        oracle[ir.names_to_key(docsem.sample_of_seq(ds, q), names)] += designrun.name_multiplicity(program, ds, q)
    if sum(oracle.values()) >= CAP:
        stats["a:too-many"] += 1
        return found, "too-many"
    r = exhaust(program, "IterateSATGen", cap=CAP)
    if r[0] != "ok":
        stats["a:" + r[0]] += 1
        return found, r[0]
    real = r[1]
    dup = [k for k, n in real.items() if n > oracle.get(k, 0) and k in oracle]
    if dup:
        found.append(("weights:crossed:duplicates", "a sequence is returned %d times although the weighted occurrences of a crossed level "
                      "are not distinct (expected %d): %s" % (real[dup[0]], oracle[dup[0]], show_key(dup[0])),
                      {"sequence": show_key(dup[0]), "returned": real[dup[0]], "expected": oracle[dup[0]]}))
    if set(real) != set(oracle):
        missing = sorted(set(oracle) - set(real))
        extra = sorted(set(real) - set(oracle))
        found.append(("weights:crossed:set-differs", "exhausted IterateSATGen returns %d distinct sequences, the weight-scaled crossing "
                      "admits %d; valid but never returned: %s; returned but invalid: %s"
                      % (len(real), len(oracle), [show_key(k) for k in missing[:2]], [show_key(k) for k in extra[:2]]),
                      {"missing": [show_key(k) for k in missing[:10]], "extra": [show_key(k) for k in extra[:10]]}))
    elif not dup and real != oracle:
        k = [k for k in real if real[k] != oracle[k]][0]
        found.append(("weights:crossed:multiplicity", "sequence %s is returned %d times, expected %d" % (show_key(k), real[k], oracle[k]),
                      {"sequence": show_key(k), "returned": real[k], "expected": oracle[k]}))
    # closed form for a plain full crossing of all design factors without constraints
    b = program["blocks"][0]
    if b["kind"] == "CrossBlock" and sorted(b["crossing"]) == sorted(b["design"]) and not b["constraints"] and \
            all(f["kind"] == "simple" for f in program["factors"] if f["id"] in b["design"]):
        fm = {f["id"]: f for f in program["factors"]}
        import itertools
        mults = []
        for combo in itertools.product(*[fm[f]["levels"] for f in b["crossing"]]):
            m = 1
            for _, w in combo:
                m *= w
            mults.append(m)
        want = math.factorial(sum(mults))
        for m in mults:
            want //= math.factorial(m)
        stats["a:closed-form"] += 1
        if len(real) != want:
            found.append(("weights:crossed:count", "a full crossing with combination multiplicities %r has %d arrangements, %d distinct "
                          "sequences were returned" % (mults, want, len(real)), {"multiplicities": mults, "expected": want,
                                                                                 "returned": len(real)}))
    return found, "checked"


# --------------------------------------------------------------------------- (b) desugared weights vs named copies

def twin_program(program, fid):
    """Replace every level (name, w) of simple factor fid by w copies name#1..name#w of weight 1
    (tables of derived factors reading it are expanded accordingly)."""
    p = copy.deepcopy(program)
    fm = {f["id"]: f for f in p["factors"]}
    f = fm[fid]
    copies = {}
    new_levels = []
    for name, w in f["levels"]:
        copies[name] = [name] if w == 1 else ["%s#%d" % (name, i + 1) for i in range(w)]
        for n in copies[name]:
            new_levels.append([n, 1])
    f["levels"] = new_levels
    import itertools
    for g in p["factors"]:
        if g["kind"] != "derived" or fid not in g["window"]["deps"]:
            continue
        for lev in g["levels"]:
            if lev.get("else"):
                continue
            new_table = []
            for entry in lev.get("table", []):
                cols = []
                for d, col in zip(g["window"]["deps"], entry):
                    if d == fid:
                        cols.append([list(x) for x in itertools.product(*[copies.get(n, [n]) if n is not None else [None] for n in col])])
                    else:
                        cols.append([list(col)])
                for combo in itertools.product(*cols):
                    new_table.append([list(c) for c in combo])
            lev["table"] = new_table
    back = {}
    for name, cs in copies.items():
        for n in cs:
            back[n] = name
    return p, back


def gen_uncrossed(rng):
    """(program, id of the weighted factor that is not in every crossing)"""
    W = F(0, "W", ["w0", "w1"] + (["w2"] if rng.random() < 0.25 else []), None)
    ws = [rng.choice([2, 2, 3])] + [rng.choice([1, 1, 2]) for _ in W["levels"][1:]]
    if sum(ws) > 4:
        ws = [2] + [1] * (len(ws) - 1)
    W["levels"] = [[n, w] for (n, _), w in zip(W["levels"], ws)]
    B = F(1, "B", ["b0", "b1"] + (["b2"] if rng.random() < 0.3 else []))
    C = F(2, "C", ["c0", "c1"])
    wWB = within(3, "wWB", 0, 1, [l for l, _ in W["levels"]], [l for l, _ in B["levels"]])
    factors = [W, B, C, wWB]
    cons = []
    cs = []
    r = rng.random()
    if r < 0.4:
        design, crossings, kind = [0, 1], [[1]], "no-crossing"
    elif r < 0.55:
        design, crossings, kind = [0, 1, 3], [[1]], "no-crossing"        # a derived factor reads the weighted factor
    elif r < 0.65:
        design, crossings, kind = [0, 1, 3], [[1, 3]] if len(B["levels"]) == 2 else [[1]], "no-crossing"
    elif r < 0.85:
        design, crossings, kind = [0, 1], [[0], [1]], "some-crossings"
    else:
        design, crossings, kind = [0, 1, 2], [[0, 2], [1]] if sum(ws) <= 3 else [[0], [1]], "some-crossings"
    if rng.random() < 0.3:
        cons.append({"id": 0, "kind": rng.choice(["AtMostKInARow", "ExactlyK"]), "k": 1, "level": [1, "b0"]})
        cs.append(0)
    if rng.random() < 0.15 and kind == "no-crossing":
        cons.append({"id": len(cons), "kind": "MinimumTrials", "trials": len(B["levels"]) + 1})
        cs.append(cons[-1]["id"])
    if len(crossings) == 1 and rng.random() < 0.7:
        blocks = [{"id": 0, "kind": "CrossBlock", "design": design, "crossing": crossings[0], "constraints": cs, "rcc": True}]
    else:
        blocks = [{"id": 0, "kind": "MultiCrossBlock", "design": design, "crossings": crossings, "constraints": cs, "rcc": True,
                   "mode": "repeat" if kind == "some-crossings" else rng.choice(["weight", "repeat"]), "alignment": "equal preamble"}]
    return {"factors": factors, "constraints": cons, "blocks": blocks, "main": 0, "kind": kind}, 0


def hand_uncrossed():
    W = F(0, "A", ["a0", "a1"], [2, 1])
    B = F(1, "B", ["b0", "b1", "b2"])
    out = []
    # the minimal program of the expected finding: weighted factor in some but not all crossings
    out.append(("some-not-all", {"factors": [W, B], "constraints": [],
                                 "blocks": [{"id": 0, "kind": "MultiCrossBlock", "design": [0, 1], "crossings": [[0], [1]],
                                             "constraints": [], "rcc": True, "mode": "repeat", "alignment": "equal preamble"}],
                                 "main": 0, "kind": "some-crossings"}, 0))
    out.append(("in-no-crossing", {"factors": [W, B], "constraints": [],
                                   "blocks": [{"id": 0, "kind": "CrossBlock", "design": [0, 1], "crossing": [1], "constraints": [],
                                               "rcc": True}], "main": 0, "kind": "no-crossing"}, 0))
    return out


def desugarsem_observation(program, fid):
    """(model line, expected) or None: the documented normal form of the twin (named copies) must be
    Front/DesugarSem.v's [widen] of the program's own form, and the twin's copy -> original-name map its [orig]."""
    from props.c25 import show_sem
    twin, back = twin_program(program, fid)
    try:
        ds, dt = docsem.doc_sem(program), docsem.doc_sem(twin)
    except docsem.Unsupported:
        return None
    if fid not in ds.forder or ds.forder != dt.forder:
        return None
    fd = [f for f in program["factors"] if f["id"] == fid][0]
    names = [n for n, _ in fd["levels"]]
    tnames = dt.levels[fid]
    origs = [names.index(back[n]) for n in tnames]
    line = "(desugarsem %d %s %s)" % (ds.forder.index(fid), to_wire([w for _, w in fd["levels"]]), to_wire(ds.sem))
    return line, "%s (%s)" % (show_sem(dt.sem), " ".join(map(str, origs)))


def check_twin(program, fid, stats):
    twin, back = twin_program(program, fid)
    names = ir.user_factor_names(program)
    r = exhaust(program, "IterateSATGen", cap=CAP)
    if r[0] != "ok":
        stats["b:" + r[0]] += 1
        return [], r[0]
    t = exhaust(twin, "IterateSATGen", cap=4 * CAP)
    if t[0] != "ok":
        stats["b:twin-" + t[0]] += 1
        if t[0] in ("rejected", "error"):
            return [("weights:twin-" + t[0], "the program is accepted but its twin with separately named copies is %s: %s" % (t[0], t[1:3]),
                     {"twin": twin, "outcome": repr(t[:3])})], "twin-" + t[0]
        return [], "twin-" + t[0]
    byname = {f["name"]: f["id"] for f in program["factors"]}
    wname = [f["name"] for f in program["factors"] if f["id"] == fid][0]
    widx = names.index(wname)
    mapped = collections.Counter()
    for k, n in t[1].items():
        k2 = tuple(tuple(back.get(v, v) for v in col) if i == widx else col for i, col in enumerate(k))
        mapped[k2] += n
    if mapped == r[1]:
        return [], "equal"
    some = program.get("kind") == "some-crossings"
    k = sorted(set(mapped) | set(r[1]), key=lambda k: (mapped.get(k, 0) == r[1].get(k, 0), k))[0]
    sig = "weights:some-not-all-crossings" if some else "weights:desugared-differs"
    what = ("weighted factor %s (weights %r) is %s: the program returns %d sequences (%d distinct), its twin with separately named "
            "copies, mapped back to the original names, %d (%d distinct); e.g. %s is returned %d times, the twin gives %d%s"
            % (wname, [w for _, w in [f for f in program["factors"] if f["id"] == fid][0]["levels"]],
               "in some but not all crossings" if some else "in no crossing",
               sum(r[1].values()), len(r[1]), sum(mapped.values()), len(mapped), show_key(k), r[1].get(k, 0), mapped.get(k, 0),
               " (the factor is not desugared: _desugar_factors_with_weights tests 'in no crossing', the documentation says "
               "'not in all crossings')" if some else ""))
    return [(sig, what, {"twin": twin, "sequence": show_key(k), "program_count": r[1].get(k, 0), "twin_count": mapped.get(k, 0),
                         "program_total": sum(r[1].values()), "twin_total": sum(mapped.values())})], "differ"


# --------------------------------------------------------------------------- run / replay

def run(ctx, res):
    na = 16 if ctx.quick else 160
    nb = 16 if ctx.quick else 160
    rng = ctx.rng
    res.rule = ("(a) %d generated programs with weighted crossed factors (simple and derived levels, weights 1-3, one or two crossings, "
                "sometimes a constraint) + hand cases: exhausted IterateSATGen vs the oracle of the weight-scaled crossing; (b) %d "
                "generated programs with a weighted non-derived factor in no / some-but-not-all crossings (sometimes read by a derived "
                "factor) + hand cases: program vs twin with named copies; non-trivial = both exhausted sets obtained and compared; "
                "distinct by program text" % (na, nb))
    stats = collections.Counter()
    found = []
    lines, expect = [], []

    def corr(p):
        try:
            for kind, line, real in desugar_observations(p):
                lines.append(line)
                expect.append((kind, real, p))
        except Exception as e:  # noqa
            found.append(("harness", "harness error in desugar_observations: %s %s" % (type(e).__name__, str(e)[:200]), {}, p, False))
    for tag, p in hand_crossed() + [("gen", gen_crossed(rng)) for _ in range(na)]:
        corr(p)
        try:
            fs, status = check_crossed(p, stats)
        except Exception as e:  # noqa
            found.append(("harness", "harness error: %s %s" % (type(e).__name__, str(e)[:300]), {}, p, False))
            continue
        stats["a:" + status] += 1
        res.count(json.dumps(p, sort_keys=True), nontrivial=(status == "checked"))
        for sig, what, detail in fs:
            found.append((sig, what, detail, p, True))
        if status == "checked" and not fs:
            res.sample({"part": "a", "crossing": p["blocks"][0].get("crossing", p["blocks"][0].get("crossings")),
                        "weights": {f["name"]: docsem.level_weights(f) for f in p["factors"] if f["id"] in p["blocks"][0]["design"]}})
    for tag, p, fid in hand_uncrossed() + [("gen",) + gen_uncrossed(rng) for _ in range(nb)]:
        corr(p)
        try:
            ob = desugarsem_observation(p, fid)
        except Exception as e:  # noqa
            ob = None
            found.append(("harness", "harness error in desugarsem_observation: %s %s" % (type(e).__name__, str(e)[:200]), {}, p, False))
        if ob is not None:
            lines.append(ob[0])
            expect.append(("desugarsem", ob[1], p))
        try:
            fs, status = check_twin(p, fid, stats)
        except Exception as e:  # noqa
            found.append(("harness", "harness error: %s %s" % (type(e).__name__, str(e)[:300]), {}, p, False))
            continue
        stats["b:%s:%s" % (p.get("kind"), status)] += 1
        res.count(json.dumps(p, sort_keys=True), nontrivial=(status in ("equal", "differ")))
        for sig, what, detail in fs:
            found.append((sig, what, dict(detail, fid=fid), p, True))
        if status == "equal":
            res.sample({"part": "b", "kind": p.get("kind"), "design": p["blocks"][0]["design"],
                        "crossings": p["blocks"][0].get("crossing", p["blocks"][0].get("crossings"))})
    outs = ctx.model(lines) if lines else []
    corr_bad = []
    for (kind, real, p), mod in zip(expect, outs):
        if kind == "desugarsem":
            # claimed only under the guard free_b of C23_desugared_valid (factor in no crossing, read by no
            # derived factor, named by no constraint)
            guard, _, rest = mod.partition(" ")
            if guard != "true":
                stats["desugarsem:outside-guard"] += 1
                continue
            stats["desugarsem:free"] += 1
            mod = rest
        ok = (real == mod)
        res.layer("L1-" + kind, ok)
        if not ok:
            corr_bad.append((kind, p, real, mod))
    res.extra["input_distribution"] = dict(stats)
    seen = set()
    for sig, what, detail, p, concrete in found:
        if sig in seen:
            continue
        seen.add(sig)
        res.violations.append(Violation(sig, what + "  program=" + json.dumps({k: p[k] for k in ("blocks", "constraints")}, sort_keys=True)[:500],
                                        {"program": p, "detail": detail, "sig": sig}, failing_input=concrete))
    if corr_bad:
        kind, p, real, mod = corr_bad[0]
        res.violations.append(Violation("corr:L1-" + kind, "model Front/Desugar.v and the real code disagree on %d observations, first: "
                                        "real=%s model=%s" % (len(corr_bad), real[:300], mod[:300]),
                                        {"layer": "L1-" + kind, "program": p, "real": real, "model": mod, "theorems": ["C23_*"]},
                                        failing_input=False))
    res.notes.append("(a) oracle = designrun.oracle_all(docsem.doc_sem(p)) (multiplicities scaled by the level weights); (b) twin programs "
                     "with separately named copies, outputs mapped back to the original names, name-level multisets compared")


def replay(ctx, data):
    if "program" not in data:
        # a broken-tie replay (no failing input): re-run the audit of the theorem file
        import common
        return bool(common.property_audit(ctx.prop)[4])
    p = data["program"]
    sig = data.get("sig", "")
    stats = collections.Counter()
    if sig in ("weights:some-not-all-crossings", "weights:desugared-differs") or sig.startswith("weights:twin"):
        fs, _ = check_twin(p, data["detail"].get("fid", 0), stats)
    else:
        fs, _ = check_crossed(p, stats)
    return any(f[0] == sig for f in fs)
