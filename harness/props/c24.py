"""C24 - Documented block-combinator equivalences hold.

Theorems: coq/theories/Properties/C24.v (about Front/Create.v: what each constructor
hands to `_create`).
For generated (design, crossings, cs, rcc, mode, alignment) BOTH sides of each
documented equivalence (docs/_source/api/main.rst) are built as programs:
  multi-merge    MultiCrossBlock(design, crossings, cs, rcc, mode, alignment)
                 = Merge([CrossBlock(design, c, [], rcc) for c in crossings], cs, mode, alignment)
  repeat-merge   Repeat(block, cs) = Merge([block], cs, REPEAT, EQUAL_PREAMBLE)
  repeat-nil     Repeat(block, []) = block
  merge-single   Merge([block]) = block
  cross-multi    CrossBlock(design, crossing, cs, rcc) = MultiCrossBlock(design, [crossing], cs, rcc, mode=WEIGHT)
Correspondence:
  L1-create  Front/Create.v `create_of` vs the recorded `_create` arguments, for every
             block of both sides (machinery of props/c16.py);
  L1-createflat  Front/CreateFlat.v `create_flat` (model of `_create` as a whole, the object of
             C24_create_flat_respects) vs the flat record of the real block, for every block of both sides;
  L1-created Front/Create.v `created_constraints` (what `_create` makes of the constraints it is
             handed: private copies, `within_block` initialised with the block's geometry where
             it was None) vs the real `orig_constraints` of every block of both sides; the objects
             handed over must read after the construction as they did at the call;
  L1-equiv   whenever the side conditions of the C24 theorems hold on the real argument
             blocks (no weight desugaring, EQUAL_PREAMBLE, ...) the recorded `_create`
             arguments of the two sides (as they were at the call: the recorder's snapshot) are
             equal in the sense of the theorem (constraints up to order, crossings up to
             dropping empty ones), by factor and level *names*.  For repeat-nil / merge-single
             (C24_repeat_nil_created / C24_merge_singleton_created) the constraints handed on by
             the combinator are `init_within_block g` of the ones the block was handed itself,
             g = the real block's get_geometry(0): an entry without geometry must carry exactly
             g on the combinator's side, an entry with a geometry must be handed on unchanged;
  flat       the final blocks of both sides are compared field by field (design names,
             crossings, sustain, weights, sizes, preambles, trials, constraint kinds +
             geometry); differences are recorded in the evidence.
Search (the property itself, no oracle): the exhausted IterateSATGen name-level solution
multisets of both sides are equal (and those of RandomGen where it accepts both);
one side building while the other is rejected is a violation as well.  Replay = both
programs.
"""
import collections
import copy
import json

import ir
from common import Violation
from props import c16
from props.c16 import F, transition

TITLE = "documented block-combinator equivalences"
LEVEL = "proof"
DOMAINS = ["Front", "Design"]

CAP = 250


# --------------------------------------------------------------------------- generation

def within(fid, name, d0, d1, l0, l1):
    same = [[[a], [b]] for a in l0 for b in l1 if a[1:] == b[1:]]
    return {"id": fid, "name": name, "kind": "derived", "window": {"type": "within", "deps": [d0, d1]},
            "levels": [{"name": "con", "table": same, "weight": 1}, {"name": "inc", "else": True, "weight": 1}]}


def gen_base(rng):
    """(factors, constraints, design, crossings, cs ids, rcc, mode, alignment)"""
    # small on purpose: IterateSATGen re-reads its CNF for every solution (~15 ms each), and both sides are exhausted
    nA = rng.choice([2, 2, 2, 3])
    wp = rng.choice([0.0, 0.0, 0.25])      # weighted levels in a third of the tuples
    A = F(0, "A", ["a%d" % i for i in range(nA)], [2 if rng.random() < wp else 1 for _ in range(nA)])
    nB = 2 if nA == 3 else rng.choice([2, 2, 3])
    B = F(1, "B", ["b%d" % i for i in range(nB)], [2 if rng.random() < wp / 2 else 1 for _ in range(nB)])
    C = F(2, "C", ["c0", "c1"])
    tA = transition(3, "tA", 0, [l for l, _ in A["levels"]])
    wAB = within(4, "wAB", 0, 1, [l for l, _ in A["levels"]], [l for l, _ in B["levels"]])
    factors = [A, B, C, tA, wAB]
    r = rng.random()
    if r < 0.55:
        design = [0, 1]
    elif r < 0.62:
        design = [0, 1, 2]
    elif r < 0.82:
        design = [0, 1, 3]
    else:
        design = [0, 1, 4]
    pool = [f for f in design]
    ncr = rng.choice([1, 2, 2, 2])
    crossings = []
    for _ in range(ncr):
        k = rng.choice([1, 1, 2])
        cr = rng.sample(pool, min(k, len(pool)))
        if 4 in cr and (0 in cr and 1 in cr):
            cr.remove(4)
        crossings.append(cr)
    if rng.random() < 0.08:
        crossings.insert(rng.randrange(len(crossings) + 1), [])
    cons = []
    cs = []
    for _ in range(rng.choice([0, 0, 1, 1, 2])):
        kind = rng.choice(["AtMostKInARow", "ExactlyK", "Pin", "MinimumTrials", "MinimumTrials", "Exclude", "AtLeastKInARow"])
        fid = rng.choice([f for f in design if f != 3] or design)
        fd = factors[fid]
        lname = (fd["levels"][0][0] if fd["kind"] == "simple" else fd["levels"][0]["name"])
        c = {"id": len(cons), "kind": kind}
        if kind in ("AtMostKInARow", "AtLeastKInARow"):
            c.update(k=rng.choice([1, 2]), level=[fid, lname])
        elif kind == "ExactlyK":
            c.update(k=rng.choice([1, 2]), level=[fid, lname])
        elif kind == "Pin":
            c.update(index=rng.choice([0, -1, 1]), level=[fid, lname])
        elif kind == "Exclude":
            c.update(level=[fid, lname])
        else:
            c.update(trials=rng.choice([3, 4, 5, 6]))
        cons.append(c)
        cs.append(c["id"])
    rcc = rng.random() < 0.8
    mode = rng.choice(["weight", "repeat", "equal", "repeat"])
    al = rng.choice(["equal preamble", "equal preamble", "equal preamble", "parallel start", "post preamble"])
    return {"factors": factors, "constraints": cons, "design": design, "crossings": crossings, "cs": cs, "rcc": rcc,
            "mode": mode, "alignment": al}


def prog(base, blocks):
    return {"factors": copy.deepcopy(base["factors"]), "constraints": copy.deepcopy(base["constraints"]), "blocks": blocks,
            "main": blocks[-1]["id"]}


def split_cs(base):
    """(block-level cs, combinator-level cs): Exclude stays with the block (Repeat documents that its constraints cannot include Exclude)."""
    cons = {c["id"]: c for c in base["constraints"]}
    inner = [c for c in base["cs"] if cons[c]["kind"] == "Exclude" or c % 2 == 0]
    outer = [c for c in base["cs"] if c not in inner]
    return inner, outer


def equivalences(base, rng):
    """[(name, left program, right program)]"""
    out = []
    d, crs, cs, rcc, mode, al = base["design"], base["crossings"], base["cs"], base["rcc"], base["mode"], base["alignment"]
    multi = {"id": 0, "kind": "MultiCrossBlock", "design": d, "crossings": crs, "constraints": cs, "rcc": rcc, "mode": mode,
             "alignment": al}
    leaves = [{"id": i, "kind": "CrossBlock", "design": d, "crossing": c, "constraints": [], "rcc": rcc} for i, c in enumerate(crs)]
    merge = {"id": len(leaves), "kind": "Merge", "blocks": [b["id"] for b in leaves], "constraints": cs, "mode": mode, "alignment": al}
    out.append(("multi-merge", prog(base, [multi]), prog(base, leaves + [merge])))
    # the block to repeat / merge alone: a CrossBlock or a MultiCrossBlock with the block-level constraints
    inner, outer = split_cs(base)
    if len(crs) == 1 and not base.get("force_multi") and rng.random() < 0.6:
        blk = {"id": 0, "kind": "CrossBlock", "design": d, "crossing": crs[0], "constraints": inner, "rcc": rcc}
    else:
        blk = {"id": 0, "kind": "MultiCrossBlock", "design": d, "crossings": crs, "constraints": inner, "rcc": rcc,
               "mode": mode, "alignment": al}
    cons = {c["id"]: c for c in base["constraints"]}
    outer2 = list(outer)
    base2 = base
    if not any(cons[c]["kind"] == "MinimumTrials" for c in outer2):
        base2 = copy.deepcopy(base)
        base2["constraints"].append({"id": len(base2["constraints"]), "kind": "MinimumTrials", "trials": rng.choice([3, 4, 5])})
        outer2.append(base2["constraints"][-1]["id"])
    out.append(("repeat-merge",
                prog(base2, [blk, {"id": 1, "kind": "Repeat", "block": 0, "constraints": outer2}]),
                prog(base2, [blk, {"id": 1, "kind": "Merge", "blocks": [0], "constraints": outer2, "mode": "repeat",
                                   "alignment": "equal preamble"}])))
    out.append(("repeat-nil", prog(base, [blk, {"id": 1, "kind": "Repeat", "block": 0, "constraints": []}]), prog(base, [blk])))
    out.append(("merge-single", prog(base, [blk, {"id": 1, "kind": "Merge", "blocks": [0], "constraints": []}]), prog(base, [blk])))
    nonempty = [c for c in crs if c] or [[]]
    cr = nonempty[0]
    out.append(("cross-multi",
                prog(base, [{"id": 0, "kind": "CrossBlock", "design": d, "crossing": cr, "constraints": cs, "rcc": rcc}]),
                prog(base, [{"id": 0, "kind": "MultiCrossBlock", "design": d, "crossings": [cr], "constraints": cs, "rcc": rcc,
                             "mode": "weight"}])))
    return out


def hand_cases():
    """Minimal instances of the findings this check has made."""
    A = F(0, "A", ["a0", "a1"])
    B = F(1, "B", ["b0", "b1", "b2"])
    out = []
    for al in ("parallel start", "post preamble"):
        base = {"factors": [A, B], "constraints": [], "design": [0, 1], "crossings": [[0], [1]], "cs": [], "rcc": True,
                "mode": "repeat", "alignment": al}
        out.append(("hand-alignment", base))
    A2 = F(0, "A", ["a0", "a1"], [2, 1])
    out.append(("hand-weights", {"factors": [A2, B], "constraints": [], "design": [0, 1], "crossings": [[0], [1]], "cs": [],
                                 "rcc": True, "mode": "repeat", "alignment": "equal preamble"}))
    tA = transition(3, "tA", 0, ["a0", "a1"])
    C = F(2, "C", ["c0", "c1"])
    # Repeat(block, []) vs block when the block is aligned POST_PREAMBLE and has an uncrossed transition factor
    out.append(("hand-repeat-nil-post", {"factors": [A, B, C, tA], "constraints": [], "design": [0, 1, 3], "crossings": [[1]], "cs": [],
                                         "rcc": True, "mode": "repeat", "alignment": "post preamble", "force_multi": True}))
    # Merge([block]) when the block's weighted factor was desugared and a block constraint names it
    out.append(("hand-merge-desugared", {"factors": [A2, B], "constraints": [{"id": 0, "kind": "AtMostKInARow", "k": 1, "level": [0, "a0"]}],
                                         "design": [0, 1], "crossings": [[1]], "cs": [0], "rcc": True, "mode": "repeat",
                                         "alignment": "equal preamble"}))
    # an empty crossing: _create drops it but keeps its sustain count / weight; Merge takes [:len(crossings)]
    out.append(("hand-empty-crossing", {"factors": [A, B], "constraints": [], "design": [0, 1], "crossings": [[0], [], [1]], "cs": [],
                                        "rcc": True, "mode": "repeat", "alignment": "equal preamble"}))
    out.append(("hand-repeat-parallel", {"factors": [A, B], "constraints": [], "design": [0, 1], "crossings": [[0], [1]], "cs": [],
                                         "rcc": True, "mode": "repeat", "alignment": "parallel start"}))
    return out


# --------------------------------------------------------------------------- real-side views

def fname(f):
    n = f.name
    return ("hidden:" + str(n.name)) if type(n).__name__ == "HiddenName" else str(n)


def cview(ct):
    n = type(ct).__name__
    lev = getattr(ct, "level", None)
    fac = getattr(ct, "factor", None)
    if lev is not None and hasattr(lev, "factor"):
        who = (fname(lev.factor), str(lev.name))
    elif lev is not None:
        who = (fname(lev), "*")
    elif fac is not None:
        who = (fname(fac), "*")
    elif hasattr(ct, "factors"):
        who = tuple(fname(f) for f in ct.factors)
    else:
        who = ()
    p = getattr(ct, "k", getattr(ct, "index", getattr(ct, "trials", 0)))
    g = getattr(ct, "within_block", None)
    gv = None if g is None else (g.num_trials, g.preamble_size, tuple(sorted((fname(f), c) for f, c in g.factor_to_sustain_count.items())))
    return (n, who, p, gv)


def cview_at_call(rec, ct, ci):
    """`cview` of a constraint as it was when it was handed to `_create`: parameter and geometry from the recorder's
    snapshot `ci` (the object itself may be read later, and a constructor may have changed a copy of it since)."""
    n, who, _, _ = cview(ct)
    g = ci[3]
    gv = None if g is None else (g[0], g[1], tuple(sorted((fname(rec.factors[f]), c) for f, c in g[2])))
    return (n, who, ci[2], gv)


def geometry_view(block):
    """`get_geometry(0)` of a real block in the rendering of `cview`"""
    with ir.quiet():
        g = block.get_geometry(0)
    return (g.num_trials, g.preamble_size, tuple(sorted((fname(f), c) for f, c in g.factor_to_sustain_count.items())))


HAS_WITHIN_BLOCK = c16.KROW + ("Pin",)     # Front/Create.v has_within_block: the classes that define init_within_block


def init_view(gv, c):
    """Front/Create.v `init_within_block` on a `cview`: only an entry without geometry gets the block's"""
    n, who, p, g = c
    return (n, who, p, gv) if (g is None and n in HAS_WITHIN_BLOCK) else c


def args_view(rec, r):
    """The recorded _create arguments by names, as they were at the call."""
    nm = lambda i: fname(rec.factors[i])  # noqa
    return {"design": [nm(i) for i in r["design"]], "crossings": [[nm(i) for i in c] for c in r["crossings"]],
            "sustains": list(r["sustains"]), "weights": list(r["weights"]),
            "constraints": sorted((cview_at_call(rec, c, ci) for c, ci in zip(r["constraint_objs"], r["constraints"])), key=repr),
            "rcc": r["rcc"], "mode": r["mode"], "alignment": r["alignment"]}


def flat_view(block):
    with ir.quiet():
        T = block.trials_per_sample()
    cons = sorted((cview(c) for c in block.constraints if type(c).__name__ not in ("Derivation",)), key=repr)
    return {"design": [fname(f) for f in block.design], "crossings": [[fname(f) for f in c] for c in block.crossings],
            "sustains": list(block.crossing_sustain_counts), "weights": list(block.crossing_weights),
            "sizes": list(block.crossing_sizes), "preambles": list(block.preamble_sizes), "trials": T,
            "constraints": cons, "rcc": bool(block.require_complete_crossing)}


def no_desugar(b):
    return len(b.design) == len(b.orig_design) and all(x is y for x, y in zip(b.design, b.orig_design)) and \
        [[id(f) for f in c] for c in b.crossings] == [[id(f) for f in c] for c in b.orig_crossings]


def nodup(xs):
    return len(set(id(x) for x in xs)) == len(xs)


def predicted_equal(name, L, R):
    """(applicable, equal, detail): does the C24 theorem for `name` apply to the real argument
    blocks, and are the recorded _create arguments of the two main blocks equal in its sense?"""
    (lb, lrec, lsteps, _), (rb, rrec, rsteps, _) = L, R
    if not lsteps or not rsteps:
        return False, True, "nothing built"
    ls, rs = lsteps[-1], rsteps[-1]
    if ls["bid"] != L[3] or rs["bid"] != R[3]:
        return False, True, "an argument block was rejected"
    if ls["recorded"] is None or rs["recorded"] is None:
        return False, True, "no _create call on one side"
    la, ra = args_view(lrec, ls["recorded"]), args_view(rrec, rs["recorded"])
    if name == "cross-multi":
        return True, la == ra, (la, ra)
    if name == "repeat-merge":
        b = ls["args"][0]
        aligned = len(b.crossing_sustain_counts) == len(b.crossings) and len(b.crossing_weights) == len(b.crossings)
        app = b.alignment.value == "equal preamble" and no_desugar(b) and nodup(b.design) and aligned
        return app, la == ra, (la, ra)
    if name == "multi-merge":
        leaves = rs["args"]
        design = [lrec.factors[i] for i in ls["recorded"]["design"]]
        app = (ls["recorded"]["alignment"] == "equal preamble" and all(no_desugar(b) for b in leaves) and nodup(design)
               and len(leaves) >= 1)
        # sustain counts / weights: all 1, one per crossing (MultiCrossBlock) resp. per non-empty crossing (Merge)
        nonempty = [c for c in la["crossings"] if c]
        la2 = dict(la, crossings=nonempty, sustains=la["sustains"][:len(nonempty)], weights=la["weights"][:len(nonempty)])
        ones_ok = all(x == 1 for x in la["sustains"] + la["weights"]) and len(la["sustains"]) == len(la["crossings"])
        return app, la2 == ra and ones_ok, (la2, ra)
    if name in ("repeat-nil", "merge-single"):
        # left = combinator over block b; right = b itself: compare with b's own recorded arguments,
        # up to what the theorem leaves open (initial vs final weights, mode, alignment, crossings filtered;
        # Merge takes the counts / weights of the block's actual crossings only).  Constraints
        # (C24_repeat_nil_created / C24_merge_singleton_created): b was handed the user's objects, the combinator hands
        # on b's private copies = init_within_block g of them, g = b's geometry (/repo commit 88b3d0f)
        b = ls["args"][0]
        app = no_desugar(b) and nodup(b.design)
        keep = ("design", "rcc")
        la2 = {k: la[k] for k in keep}
        ra2 = {k: ra[k] for k in keep}
        rblk = rb.blocks.get(R[3])
        if rblk is None:
            return False, True, "the block itself was rejected after its _create call"
        gv = geometry_view(rblk)
        la2["constraints"] = la["constraints"]
        ra2["constraints"] = sorted((init_view(gv, c) for c in ra["constraints"]), key=repr)
        la2["crossings"] = [c for c in la["crossings"] if c]
        ra2["crossings"] = [c for c in ra["crossings"] if c]
        n = len(ra2["crossings"]) if name == "merge-single" else len(ra["sustains"])
        la2["sustains"], ra2["sustains"] = la["sustains"], ra["sustains"][:n]
        la2["weights"] = la["weights"]
        ra2["weights"] = list(b.crossing_weights)[:n] if name == "merge-single" else list(b.crossing_weights)
        if name == "merge-single":
            la2["alignment"], ra2["alignment"] = la["alignment"], ra["alignment"]
        return app, la2 == ra2, (la2, ra2)
    return False, True, None


# --------------------------------------------------------------------------- solution sets

_CACHE = {}


def exhaust(program, strategy, cap=CAP, timeout=20):
    """("ok", Counter of name-level keys) | ("capped",) | ("rejected", exc, msg) | ("error", exc, msg)"""
    key = (strategy, json.dumps(program, sort_keys=True))
    if key not in _CACHE:
        _CACHE[key] = _exhaust(program, strategy, cap, timeout)
    return _CACHE[key]


def _exhaust(program, strategy, cap, timeout):
    names = ir.user_factor_names(program)
    if strategy == "IterateSATGen":
        b = ir.build(program)
        blk = ir.main_block(b, program)
        if blk is None:
            e = b.errors.get(("block", program["main"])) or ("error", "Dependency", repr(b.errors)[:200])
            return ("rejected", e[1], e[2])
        r = ir.synthesize(blk, cap, strategy)
    else:
        b = ir.build(program)
        if ir.main_block(b, program) is None:
            e = b.errors.get(("block", program["main"])) or ("error", "Dependency", repr(b.errors)[:200])
            return ("rejected", e[1], e[2])
        r = ir.synthesize_isolated(program, cap, strategy, timeout=timeout)
    if r[0] == "crash":
        return ("error", "timeout-or-crash", str(r[1]))
    if r[0] != "ok":
        return ("error", r[1], r[2])
    if len(r[1]) >= cap:
        return ("capped",)
    try:
        return ("ok", collections.Counter(ir.names_to_key(s, names) for s in r[1]))
    except KeyError as e:
        return ("error", "KeyError", "returned dict lacks user factor %s" % e)


def show_key(k):
    return " | ".join(",".join(col) for col in k)


def compare(name, lp, rp, strategy="IterateSATGen"):
    """None (equal / not comparable) or (sig, what, detail); second component: status string."""
    l = exhaust(lp, strategy)
    if l[0] == "capped":
        return None, "capped"
    r = exhaust(rp, strategy)
    if l[0] == "rejected" and r[0] == "rejected":
        return None, "both-rejected"
    if l[0] == "rejected" or r[0] == "rejected":
        side, other = ("left", r) if l[0] == "rejected" else ("right", l)
        rej = l if l[0] == "rejected" else r
        if other[0] == "error":
            return None, "rejected-vs-error"
        if name in ("repeat-nil", "repeat-merge") and "EQUAL_PREAMBLE not allowed with different preamble sizes" in rej[2]:
            # documented for Repeat: "all crossings must have the same preamble length due to the use of EQUAL_PREAMBLE"
            return None, "documented-rejection"
        cause = ("alignment" if "different alignments" in rej[2] else "same-name" if "same name" in rej[2]
                 else "desugared-factor" if "wasn't found in the design" in rej[2] else rej[1])
        return (("equiv:%s:%s-rejected:%s" % (name, side, cause),
                 "%s: the %s side is rejected by the constructors (%s: %s) while the other side is accepted%s"
                 % (name, side, rej[1], rej[2][:120], (" and has %d solutions" % sum(other[1].values())) if other[0] == "ok" else ""),
                 {"rejected": side, "exc": rej[1], "msg": rej[2]}), "one-rejected")
    if l[0] == "error" or r[0] == "error":
        if l[0] == r[0] and l[1] == r[1]:
            return None, "both-error"
        if strategy != "IterateSATGen":
            return None, "sampler-error"
        bad = l if l[0] == "error" else r
        return (("equiv:%s:error:%s" % (name, bad[1]), "%s: %s raises %s (%s) on one side only" % (name, strategy, bad[1], bad[2][:120]),
                 {"left": l[:3], "right": r[:3]}), "one-error")
    if l[0] == "capped" or r[0] == "capped":
        return None, "capped"
    if l[1] == r[1]:
        return None, "equal-empty" if not l[1] else "equal"
    lo = sorted(k for k in l[1] if l[1][k] != r[1].get(k, 0))
    ro = sorted(k for k in r[1] if r[1][k] != l[1].get(k, 0))
    what = ("%s: exhausted %s solution multisets differ: left %d solutions (%d distinct), right %d (%d distinct); "
            "only/more on the left: %s; only/more on the right: %s"
            % (name, strategy, sum(l[1].values()), len(l[1]), sum(r[1].values()), len(r[1]),
               [show_key(k) for k in lo[:2]], [show_key(k) for k in ro[:2]]))
    return (("equiv:%s:solutions-differ%s" % (name, "" if strategy == "IterateSATGen" else ":" + strategy), what,
             {"left_total": sum(l[1].values()), "right_total": sum(r[1].values()),
              "left_only": [show_key(k) for k in lo[:10]], "right_only": [show_key(k) for k in ro[:10]]}), "differ")


# --------------------------------------------------------------------------- run / replay

def run(ctx, res):
    nbase = 14 if ctx.quick else 110
    rng = ctx.rng
    bases = hand_cases() + [("gen", gen_base(rng)) for _ in range(nbase)]
    res.rule = ("%d generated (design, crossings, cs, rcc, mode, alignment) tuples over 2-3 simple factors (weights 1-2), a transition "
                "and a within-trial derived factor, 1-2 crossings (sometimes an empty one), 0-2 constraints, every mode/alignment; "
                "5 equivalences each, both sides built; non-trivial = both sides accepted with a non-empty exhausted solution set; "
                "distinct by the pair of programs" % nbase)
    lines, expect = [], []
    stats = collections.Counter()
    found = []
    eq_bad = []
    for tag, base in bases:
        for name, lp, rp in equivalences(base, rng):
            key = json.dumps([name, lp, rp], sort_keys=True)
            try:
                L = c16.instrumented_build(lp) + (lp["main"],)
                R = c16.instrumented_build(rp) + (rp["main"],)
            except Exception as e:  # noqa
                found.append(("harness", "harness error: %s %s" % (type(e).__name__, str(e)[:200]), {}, lp, rp, False))
                continue
            for built, rec, steps, _ in (L, R):
                for st in steps:
                    lines.append("(create %s)" % st["exp"])
                    expect.append((rec, st, built.blocks.get(st["bid"]), lp, rp))
                    blk = built.blocks.get(st["bid"])
                    if blk is not None and st["recorded"] is not None:
                        # _create as a whole: Front/CreateFlat.v create_flat vs the real flat record
                        try:
                            cl, ce = c16.createflat_observation(rec, st, blk)
                            lines.append(cl)
                            expect.append(("createflat", ce, None, lp, rp))
                        except Exception as e:  # noqa
                            stats["createflat-harness-error"] += 1
                        # what _create makes of the constraints it is handed: Front/Create.v created_constraints vs orig_constraints
                        try:
                            cl, ce, unchanged = c16.created_observation(rec, st, blk)
                            lines.append(cl)
                            expect.append(("created", (ce, unchanged), None, lp, rp))
                        except Exception as e:  # noqa
                            stats["created-harness-error"] += 1
            # L1-equiv
            try:
                app, eq, detail = predicted_equal(name, L, R)
            except Exception as e:  # noqa
                app, eq, detail = False, True, None
                stats["equiv-view-error"] += 1
            if app:
                res.layer("L1-equiv-" + name, eq)
                if not eq:
                    eq_bad.append((name, lp, rp, detail))
            else:
                stats["theorem-side-conditions-not-met:" + name] += 1
            lb, rb = ir.main_block(L[0], lp), ir.main_block(R[0], rp)
            if lb is not None and rb is not None:
                try:
                    fe = flat_view(lb) == flat_view(rb)
                except Exception:  # noqa
                    fe = None
                stats["flat-equal:" + name if fe else "flat-differs:" + name] += 1
            # the property itself
            v, status = compare(name, lp, rp)
            stats[name + ":" + status] += 1
            res.count(key, nontrivial=(status == "equal"))
            if v is not None:
                found.append((v[0], v[1], v[2], lp, rp, True))
            elif status == "equal" and stats["randomgen-pairs"] < (12 if ctx.quick else 150):
                stats["randomgen-pairs"] += 1
                v2, st2 = compare(name, lp, rp, strategy="RandomGen")
                stats["RandomGen:" + st2] += 1
                if v2 is not None:
                    found.append((v2[0], v2[1], v2[2], lp, rp, True))
            if status == "equal":
                res.sample({"equivalence": name, "mode": base["mode"], "alignment": base["alignment"], "crossings": base["crossings"],
                            "design": base["design"]})
    outs = ctx.model(lines) if lines else []
    corr_bad = []
    created_bad = []
    for (rec, st, blk, lp, rp), mod in zip(expect, outs):
        if rec == "createflat":
            ok = (st == mod)
            res.layer("L1-createflat", ok)
            if not ok:
                corr_bad.append((lp, rp, c16.first_diff(st, mod), ""))
            continue
        if rec == "created":
            try:
                mv = c16.model_created_view(mod)
            except Exception:  # noqa
                mv = "!" + mod
            ok = (st[0] == mv) and st[1]
            res.layer("L1-created", ok)
            if not ok:
                created_bad.append((lp, rp, st[0] + ("" if st[1] else "  [an object handed to _create was changed]"), mv))
            continue
        rv = c16.real_create_view(rec, st)
        try:
            mv = c16.model_create_view(mod)
        except Exception:  # noqa
            mv = ("!" + mod, [])
        ok = (rv == mv[0])
        res.layer("L1-create", ok)
        if not ok:
            corr_bad.append((lp, rp, rv, mv[0]))
    res.extra["input_distribution"] = dict(stats)
    seen = set()
    for sig, what, detail, lp, rp, concrete in found:
        if sig in seen:
            continue
        seen.add(sig)
        res.violations.append(Violation(sig, what + "  left=" + json.dumps(lp["blocks"], sort_keys=True)[:500] + " right=" +
                                        json.dumps(rp["blocks"], sort_keys=True)[:500],
                                        {"left": lp, "right": rp, "detail": detail, "sig": sig}, failing_input=concrete))
    if corr_bad:
        lp, rp, rv, mv = corr_bad[0]
        res.violations.append(Violation("corr:L1-create", "model Front/Create.v and the real constructors disagree on %d blocks, first: "
                                        "real=%s model=%s" % (len(corr_bad), rv[:300], mv[:300]),
                                        {"layer": "L1-create", "left": lp, "right": rp, "real": rv, "model": mv, "theorems": ["C24_*"]},
                                        failing_input=False))
    if created_bad:
        lp, rp, rv, mv = created_bad[0]
        res.violations.append(Violation("corr:L1-created", "model Front/Create.v created_constraints and the orig_constraints of the real "
                                        "block disagree on %d blocks, first: real=%s model=%s" % (len(created_bad), rv[:300], mv[:300]),
                                        {"layer": "L1-created", "left": lp, "right": rp, "real": rv, "model": mv,
                                         "theorems": ["C24_repeat_nil_created", "C24_merge_singleton_created"]}, failing_input=False))
    if eq_bad:
        name, lp, rp, detail = eq_bad[0]
        res.violations.append(Violation("corr:L1-equiv", "the C24 theorem for %s applies to the real argument blocks but the recorded "
                                        "_create arguments of the two sides differ (%d cases): %s" % (name, len(eq_bad), repr(detail)[:500]),
                                        {"layer": "L1-equiv-" + name, "left": lp, "right": rp, "detail": repr(detail)[:3000],
                                         "theorems": ["C24_*"]}, failing_input=False))
    res.notes.append("both sides of each documented equivalence built from the same tuple; L1: create arguments (model vs recorded, and "
                     "left vs right where the theorem applies); search: exhausted IterateSATGen (cap %d) and RandomGen multisets" % CAP)


def replay(ctx, data):
    if "left" not in data:
        # a broken-tie replay (no failing input): re-run the audit of the theorem file
        import common
        return bool(common.property_audit(ctx.prop)[4])
    lp, rp = data["left"], data["right"]
    sig = data.get("sig", "")
    name = sig.split(":")[1] if ":" in sig else ""
    strat = "RandomGen" if sig.endswith(":RandomGen") else "IterateSATGen"
    v, status = compare(name, lp, rp, strategy=strat)
    return v is not None and v[0] == sig
