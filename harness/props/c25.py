"""C25 - Nest holds outer levels fixed over each inner run.

Theorems: coq/theories/Properties/C25.v (about Front/Create.v `create_nest` and
Front/Trials.v: sustain arithmetic, trial count of a Nest).
Correspondence: L1-create / L1-trials of props/c16.py on every block of the generated
Nest programs (the model's `create_nest` arguments and trial arithmetic vs the real ones);
L1-nestsem: the normal form [nest_sem So Si] of Front/NestSem.v (the object of theorem
C25_nest_groups) vs the reference-semantics normal form docsem.py builds for the Nest from
the documentation, for every Nest program inside the theorem's guard [nestable_b];
L1-nestsem2: the same for [nest_sem2] of Front/NestSem2.v (derived factors with their windows and tables, every
constraint kind) inside the widest guard of C25_nest_groups_derived / ..., the documentation's form renumbered to the
factor order "outer block's factors, then inner block's factors" (docsem orders a design's factors by derivation depth);
L1-nestgroups: both sides of those theorems ([valid_b (nest_sem2 So Si) s] and the decided group specification
[groups2_b So Si s]) evaluated by the extracted code on every sequence the exhausted IterateSATGen returns for a Nest
inside a guard: they must agree and hold.  input_distribution reports the share of the generated Nests inside each guard
(guard:gen:<guard> of guard:gen:nests; a Nest with constraints of its own is counted under
guard:gen:nestable_s_b+own-constraints: C25_nest_groups_own_constraints, the model gets the Nest's own constraints from
the tail of the documented form's constraint list).
Search (the property itself; the group specification is written here, the validity of
the parts is judged by the reference oracle of the outer block alone and of the inner
block alone - docsem.doc_sem(program, bid) - never by the library):
  * length: without preamble trials trials_per_sample() = outer trials x inner trials;
  * groups: every sequence of the exhausted IterateSATGen set (and of RandomGen) splits
    into consecutive groups of the inner length, one per outer trial; the outer block's
    crossed factors (and factors derived from them) are constant within each group; the
    sequence of group representatives satisfies the outer block's crossing (the outer block
    with its constraints other than MinimumTrials removed: the property speaks of the outer
    crossing only, and neither the library nor the reference semantics of the whole Nest
    rescale the run lengths of outer AtMostKInARow-like constraints); each group restricted
    to the inner design is a valid sequence of the inner block (crossing and constraints);
  * converse: every such composition is returned: the exhausted set equals the set of
    all compositions (|outer valid| x |inner valid|^(outer trials)) when the outer block
    has no constraints and no Nest-level constraint couples them;
  * associativity: Nest(Nest(a,b),c) and Nest(a,Nest(b,c)) have the same solution sets.
"""
import collections
import copy
import itertools
import json

import common
import designrun
import docsem
import flat
import ir
from common import Violation
from docsem import to_wire
from props import c16
from props.c16 import F
from props.c24 import within, exhaust, show_key

TITLE = "Nest: outer levels fixed over each inner run"
LEVEL = "proof"
DOMAINS = ["Front", "Design"]

CAP = 300


# --------------------------------------------------------------------------- generation

def gen_block(rng, bid, fids, factors, cons, role):
    """A small CrossBlock / MultiCrossBlock over the simple factors `fids` (all crossed),
    sometimes with a within-trial derived factor and a constraint."""
    design = list(fids)
    crossing = list(fids)
    cs = []
    kinds = {"outer": ["AtMostKInARow", "ExactlyK", "Pin", "Sequential"], "inner": ["AtMostKInARow", "ExactlyK", "Pin", "AtLeastKInARow"]}[role]
    if rng.random() < (0.25 if role == "outer" else 0.5):
        kind = rng.choice(kinds)
        f = factors[rng.choice(fids)]
        lname = f["levels"][0][0]
        c = {"id": len(cons), "kind": kind}
        if kind in ("AtMostKInARow", "AtLeastKInARow"):
            c.update(k=rng.choice([1, 1, 2]), level=[f["id"], lname])
        elif kind == "ExactlyK":
            c.update(k=1, level=[f["id"], lname])
        elif kind == "Pin":
            c.update(index=rng.choice([0, -1, 1]), level=[f["id"], lname])
        else:
            c.update(factor=f["id"])
        cons.append(c)
        cs.append(c["id"])
    if rng.random() < 0.3:
        return {"id": bid, "kind": "MultiCrossBlock", "design": design, "crossings": [crossing], "constraints": cs, "rcc": True,
                "mode": "weight", "alignment": "equal preamble"}
    return {"id": bid, "kind": "CrossBlock", "design": design, "crossing": crossing, "constraints": cs, "rcc": True}


def gen_nest(rng):
    nA = rng.choice([2, 2, 3])
    A = F(0, "A", ["a%d" % i for i in range(nA)])
    B = F(1, "B", ["b%d" % i for i in range(rng.choice([2, 2, 3]) if nA == 2 else 2)])
    C = F(2, "C", ["c0", "c1"])
    D = F(3, "D", ["d0", "d1"])
    factors = [A, B, C, D]
    cons = []
    r = rng.random()
    if r < 0.6:
        # two levels: outer [A] (or [A, C] when small), inner [B]
        of = [0, 2] if (nA == 2 and rng.random() < 0.3) else [0]
        inn = [1]
        blocks = [gen_block(rng, 0, of, factors, cons, "outer"), gen_block(rng, 1, inn, factors, cons, "inner")]
        if of == [0, 2] and rng.random() < 0.7:
            # a within-trial factor derived from the outer crossed factors: in the outer design, not crossed
            factors.append(within(4, "wAC", 0, 2, [l for l, _ in A["levels"]], [l for l, _ in C["levels"]]))
            blocks[0]["design"] = blocks[0]["design"] + [4]
        top = []
        if rng.random() < 0.2:
            cons.append({"id": len(cons), "kind": rng.choice(["AtMostKInARow", "Pin"]), "k": 2, "index": 0, "level": [1, "b0"]})
            top.append(cons[-1]["id"])
        blocks.append({"id": 2, "kind": "Nest", "outer": 0, "inner": 1, "constraints": top})
        shape = "nest2"
    else:
        # three levels with two-level factors: a nested Nest as outer or as inner block
        A = F(0, "A", ["a0", "a1"])
        B = F(1, "B", ["b0", "b1"])
        factors = [A, B, C, D]
        blocks = [gen_block(rng, 0, [0], factors, cons, "outer"), gen_block(rng, 1, [1], factors, cons, "inner"),
                  gen_block(rng, 2, [2], factors, cons, "inner")]
        if rng.random() < 0.5:
            blocks.append({"id": 3, "kind": "Nest", "outer": 0, "inner": 1, "constraints": []})
            blocks.append({"id": 4, "kind": "Nest", "outer": 3, "inner": 2, "constraints": []})
            shape = "nest3-left"
        else:
            blocks.append({"id": 3, "kind": "Nest", "outer": 1, "inner": 2, "constraints": []})
            blocks.append({"id": 4, "kind": "Nest", "outer": 0, "inner": 3, "constraints": []})
            shape = "nest3-right"
    return {"factors": factors, "constraints": cons, "blocks": blocks, "main": blocks[-1]["id"], "shape": shape}


def hand_programs():
    A = F(0, "A", ["a0", "a1"])
    B = F(1, "B", ["b0", "b1"])
    out = []
    # outer block with an empty crossing
    out.append(("outer-empty-crossing", {
        "factors": [A, B], "constraints": [{"id": 0, "kind": "MinimumTrials", "trials": 2}],
        "blocks": [{"id": 0, "kind": "CrossBlock", "design": [0], "crossing": [], "constraints": [0], "rcc": True},
                   {"id": 1, "kind": "CrossBlock", "design": [1], "crossing": [1], "constraints": [], "rcc": True},
                   {"id": 2, "kind": "Nest", "outer": 0, "inner": 1, "constraints": []}], "main": 2, "shape": "hand"}))
    out.append(("plain", {
        "factors": [A, B], "constraints": [],
        "blocks": [{"id": 0, "kind": "CrossBlock", "design": [0], "crossing": [0], "constraints": [], "rcc": True},
                   {"id": 1, "kind": "CrossBlock", "design": [1], "crossing": [1], "constraints": [], "rcc": True},
                   {"id": 2, "kind": "Nest", "outer": 0, "inner": 1, "constraints": []}], "main": 2, "shape": "hand"}))
    return out


def nestable_family():
    """Constraint-free Nests of simple factors (the guard of C25_nest_groups): the documentation's normal form of
    the Nest (docsem) must be Front/NestSem.v's [nest_sem] of the normal forms of the two argument blocks."""
    out = []
    for nA, nB, outer_two, inner_rep, outer_free in ((2, 2, False, 0, False), (2, 3, False, 0, False), (3, 2, False, 0, False),
                                                      (2, 2, True, 0, False), (2, 2, False, 4, False), (2, 3, False, 6, False),
                                                      (3, 2, False, 4, False), (2, 2, False, 0, True), (2, 2, False, 3, False)):
        A = F(0, "A", ["a%d" % i for i in range(nA)])
        B = F(1, "B", ["b%d" % i for i in range(nB)])
        C = F(2, "C", ["c0", "c1"])
        D = F(3, "D", ["d0", "d1"])
        cons = []
        od, oc = ([0, 2], [0, 2]) if outer_two else (([0, 3], [0]) if outer_free else ([0], [0]))
        blocks = [{"id": 0, "kind": "CrossBlock", "design": od, "crossing": oc, "constraints": [], "rcc": True},
                  {"id": 1, "kind": "CrossBlock", "design": [1], "crossing": [1], "constraints": [], "rcc": True}]
        inner = 1
        if inner_rep:
            cons.append({"id": 0, "kind": "MinimumTrials", "trials": inner_rep})
            blocks.append({"id": 2, "kind": "Repeat", "block": 1, "constraints": [0]})
            inner = 2
        blocks.append({"id": len(blocks), "kind": "Nest", "outer": 0, "inner": inner, "constraints": []})
        out.append(("nestable", {"factors": [A, B, C, D], "constraints": cons, "blocks": blocks, "main": blocks[-1]["id"],
                                 "shape": "nestable"}))
    # inner blocks with run-length / count constraints (block level, and below a Repeat)
    A = F(0, "A", ["a0", "a1"])
    B = F(1, "B", ["b0", "b1"])
    for kind, k, rep in (("AtMostKInARow", 1, 4), ("AtLeastKInARow", 1, 0), ("ExactlyK", 1, 0), ("ExactlyKInARow", 1, 4),
                         ("AtMostKInARow", 2, 0)):
        cons = [{"id": 0, "kind": kind, "k": k, "level": [1, "b0"]}]
        blocks = [{"id": 0, "kind": "CrossBlock", "design": [0], "crossing": [0], "constraints": [], "rcc": True},
                  {"id": 1, "kind": "CrossBlock", "design": [1], "crossing": [1], "constraints": [0], "rcc": True}]
        inner = 1
        if rep:
            cons.append({"id": 1, "kind": "MinimumTrials", "trials": rep})
            blocks.append({"id": 2, "kind": "Repeat", "block": 1, "constraints": [1]})
            inner = 2
        blocks.append({"id": len(blocks), "kind": "Nest", "outer": 0, "inner": inner, "constraints": []})
        out.append(("nestable-constraint", {"factors": [A, B], "constraints": cons, "blocks": blocks, "main": blocks[-1]["id"],
                                            "shape": "nestable"}))
    return out


def derived_family():
    """Nests with within-trial derived factors in the outer or the inner block (guard nestable_d_b of
    C25_nest_groups_derived)."""
    out = []
    for outer_w, outer_cross_c, inner_w, inner_cross_d in ((True, False, False, False), (True, True, False, False),
                                                          (False, False, True, False), (False, False, True, True),
                                                          (True, False, True, False)):
        A = F(0, "A", ["a0", "a1"])
        B = F(1, "B", ["b0", "b1"])
        C = F(2, "C", ["c0", "c1"])
        D = F(3, "D", ["d0", "d1"])
        factors = [A, B, C, D]
        od, oc, idn, ic = [0], [0], [1], [1]
        if outer_w:
            factors.append(within(4, "wAC", 0, 2, ["a0", "a1"], ["c0", "c1"]))
            od, oc = [0, 2, 4], ([0, 2] if outer_cross_c else [0])
        if inner_w:
            factors.append(within(5, "wBD", 1, 3, ["b0", "b1"], ["d0", "d1"]))
            idn, ic = [1, 3, 5], ([1, 3] if inner_cross_d else [1])
        blocks = [{"id": 0, "kind": "CrossBlock", "design": od, "crossing": oc, "constraints": [], "rcc": True},
                  {"id": 1, "kind": "CrossBlock", "design": idn, "crossing": ic, "constraints": [], "rcc": True},
                  {"id": 2, "kind": "Nest", "outer": 0, "inner": 1, "constraints": []}]
        out.append(("nestable-derived", {"factors": factors, "constraints": [], "blocks": blocks, "main": 2, "shape": "nestable2"}))
    return out


def constraint_family():
    """Nests with inner Exclude / Pin and outer Exclude / ExactlyK / AtMostKInARow constraints, the latter on crossed and
    on free outer factors (guards nestable_c_b, nestable_f_b of C25_nest_groups_constraints / _free)."""
    out = []
    cases = [("inner-exclude", 2, 3, None, {"kind": "Exclude", "level": [1, "b0"]}, False),
             ("inner-pin-last", 2, 2, None, {"kind": "Pin", "index": -1, "level": [1, "b1"]}, False),
             ("inner-pin-second", 2, 3, None, {"kind": "Pin", "index": 1, "level": [1, "b0"]}, False),
             ("outer-exclude", 3, 2, {"kind": "Exclude", "level": [0, "a0"]}, None, False),
             ("outer-exactlyk", 2, 2, {"kind": "ExactlyK", "k": 1, "level": [0, "a0"]}, None, False),
             ("outer-atmost", 2, 2, {"kind": "AtMostKInARow", "k": 2, "level": [0, "a0"]}, None, False),
             ("outer-atmost-3", 2, 2, {"kind": "AtMostKInARow", "k": 3, "level": [0, "a1"]}, {"kind": "Pin", "index": 0, "level": [1, "b0"]}, False),
             ("outer-free-atmost", 2, 2, {"kind": "AtMostKInARow", "k": 1, "level": [3, "d0"]}, None, True),
             ("outer-free-exactlyk", 2, 2, {"kind": "ExactlyK", "k": 1, "level": [3, "d0"]}, None, True),
             ("outer-free-exclude", 2, 2, {"kind": "Exclude", "level": [3, "d1"]}, None, True)]
    for tag, nA, nB, oc, ic, free in cases:
        A = F(0, "A", ["a%d" % i for i in range(nA)])
        B = F(1, "B", ["b%d" % i for i in range(nB)])
        C = F(2, "C", ["c0", "c1"])
        D = F(3, "D", ["d0", "d1"])
        cons = []
        ocs, ics = [], []
        if oc is not None:
            cons.append(dict(oc, id=len(cons)))
            ocs.append(cons[-1]["id"])
        if ic is not None:
            cons.append(dict(ic, id=len(cons)))
            ics.append(cons[-1]["id"])
        # an Exclude of a crossed level: complete crossing not required (otherwise the design is unsatisfiable by definition)
        orcc = not (oc is not None and oc["kind"] == "Exclude" and not free)
        ircc = not (ic is not None and ic["kind"] == "Exclude")
        blocks = [{"id": 0, "kind": "CrossBlock", "design": [0, 3] if free else [0], "crossing": [0], "constraints": [], "rcc": orcc},
                  {"id": 1, "kind": "CrossBlock", "design": [1], "crossing": [1], "constraints": ics, "rcc": ircc}]
        outer = 0
        if tag.startswith("outer-atmost"):
            # two repetitions of the outer crossing, the run-length constraint over all of them
            cons.append({"id": len(cons), "kind": "MinimumTrials", "trials": 4})
            blocks.append({"id": 2, "kind": "Repeat", "block": 0, "constraints": [cons[-1]["id"]] + ocs})
            outer = 2
        else:
            blocks[0]["constraints"] = ocs
        blocks.append({"id": len(blocks), "kind": "Nest", "outer": outer, "inner": 1, "constraints": []})
        out.append(("nestable-" + tag, {"factors": [A, B, C, D], "constraints": cons, "blocks": blocks, "main": blocks[-1]["id"],
                                        "shape": "nestable3"}))
    return out


GUARDS = ["nestable_b", "nestable_d_b", "nestable_c_b", "nestable_f_b", "nestable_s_b"]      # in the order extract/drv_front.ml (nestsem2) prints them


def renumber_sem(sem, pos):
    """A docsem normal form with its factors renumbered: position p becomes pos[p]."""
    T, fs, cs, ks = sem
    nf = [None] * len(fs)
    for p, f in enumerate(fs):
        d = f[2]
        nf[pos[p]] = [f[0], f[1], None if d is None else [[pos[x] for x in d[0]]] + list(d[1:])]
    ncs = [[[pos[x] for x in c[0]]] + list(c[1:]) for c in cs]
    nks = []
    for k in ks:
        kind = list(k[0])
        if kind[0].s == "latin":
            kind[1] = [[pos[x], n] for x, n in kind[1]]
        nks.append([kind, pos[k[1]], k[2], k[3]])
    return [T, nf, ncs, nks]


def nestsem2_observation(program):
    """(reason, None) or (None, dict): the documented normal forms of the outer block, the inner block and the Nest, the
    latter renumbered to the factor order outer ++ inner, and the model lines."""
    main = block_desc(program, program["main"])
    if main["kind"] != "Nest":
        return "not-a-nest", None
    try:
        o, i, n = docsem.doc_sem(program, main["outer"]), docsem.doc_sem(program, main["inner"]), docsem.doc_sem(program)
    except docsem.Unsupported:
        return "outside-docsem", None
    if o.unsat or i.unsat or n.unsat:
        return "unsatisfiable-crossing-marker", None   # docsem appends an unsatisfiable marker constraint sized by the block
    target = list(o.forder) + list(i.forder)
    if len(set(target)) != len(target) or sorted(target) != sorted(n.forder):
        return "shared-factors", None
    tpos = {f: j for j, f in enumerate(target)}
    pos = [tpos[f] for f in n.forder]
    rn = renumber_sem(n.sem, pos)
    own = None
    if main.get("constraints"):
        # the constraints of the Nest itself: the tail of the documented form's constraint list (after those inherited
        # from the outer and from the inner block), handed to the model as they are - C25_nest_groups_own_constraints
        # treats them as opaque conditions on the whole sequence
        own = rn[3][len(o.sem[3]) + len(i.sem[3]):]
    line = ("(nestsem2 %s %s)" % (to_wire(o.sem), to_wire(i.sem)) if own is None
            else "(nestsem2own %s %s %s)" % (to_wire(o.sem), to_wire(i.sem), to_wire(own)))
    return None, {"line": line, "expected": to_wire(rn), "o": o, "i": i, "n": n, "target": target, "own": own}


def nestgroups_line(ob, samples, cap=CAP):
    """The exhausted real sequences in the factor order outer ++ inner, as a (nestgroups ...) model line (None if a
    sample cannot be expressed)."""
    n = ob["n"]
    seqs = []
    for smp in samples[:cap]:
        rows = []
        for f in ob["target"]:
            name = n.names[f]
            if name not in smp:
                return None
            row = []
            for v in smp[name]:
                if v == "":
                    row.append(-1)
                elif v in n.levels[f]:
                    row.append(n.levels[f].index(v))
                else:
                    return None
            rows.append(row)
        seqs.append(rows)
    if not seqs:
        return None
    if ob.get("own") is not None:
        return "(nestgroupsown %s %s %s %s)" % (to_wire(ob["o"].sem), to_wire(ob["i"].sem), to_wire(ob["own"]), to_wire(seqs))
    return "(nestgroups %s %s %s)" % (to_wire(ob["o"].sem), to_wire(ob["i"].sem), to_wire(seqs))


def show_sem(sem):
    """A docsem normal form printed the way extract/drv_front.ml prints a Design/Sem.v [sem]."""
    T, fs, cs, ks = sem

    def kc(k):
        tag = k[0][0].s
        kind = "(%s %d)" % (tag, k[0][1]) if tag in ("atmost", "atleast", "exactlyrow", "exactlyk") else "(other)"
        return "(%s %d %d (%s))" % (kind, k[1], k[2], " ".join("(%d %d)" % tuple(w) for w in k[3]))
    return "(%d (%s) (%s) (%s))" % (
        T, " ".join("(%d %d %s)" % (f[0], f[1], "none" if f[2] is None else "derived") for f in fs),
        " ".join("((%s) %d %d (%s))" % (" ".join(map(str, c[0])), c[1], c[2],
                                        " ".join("((%s) %d)" % (" ".join(map(str, m[0])), m[1]) for m in c[3])) for c in cs),
        " ".join(kc(k) for k in ks))


def nestsem_observation(program):
    """(model line, expected) or None: the documented normal forms of outer block, inner block and Nest."""
    main = block_desc(program, program["main"])
    if main["kind"] != "Nest" or main.get("constraints"):
        return None          # nest_sem is the form of Nest(outer, inner) without constraints of its own
    try:
        o, i, n = docsem.doc_sem(program, main["outer"]), docsem.doc_sem(program, main["inner"]), docsem.doc_sem(program)
    except docsem.Unsupported:
        return None

    return "(nestsem %s %s)" % (to_wire(o.sem), to_wire(i.sem)), show_sem(n.sem)


def assoc_pair(rng):
    """(left, right): Nest(Nest(a,b),c) and Nest(a,Nest(b,c)) over the same three blocks."""
    A = F(0, "A", ["a0", "a1"])
    B = F(1, "B", ["b0", "b1"])
    C = F(2, "C", ["c0", "c1"])
    factors = [A, B, C, F(3, "D", ["d0", "d1"])]
    cons = []
    blocks = [gen_block(rng, 0, [0], factors, cons, "outer"), gen_block(rng, 1, [1], factors, cons, "inner"),
              gen_block(rng, 2, [2], factors, cons, "inner")]
    left = {"factors": factors, "constraints": cons,
            "blocks": copy.deepcopy(blocks) + [{"id": 3, "kind": "Nest", "outer": 0, "inner": 1, "constraints": []},
                                               {"id": 4, "kind": "Nest", "outer": 3, "inner": 2, "constraints": []}], "main": 4}
    right = {"factors": copy.deepcopy(factors), "constraints": copy.deepcopy(cons),
             "blocks": copy.deepcopy(blocks) + [{"id": 3, "kind": "Nest", "outer": 1, "inner": 2, "constraints": []},
                                                {"id": 4, "kind": "Nest", "outer": 0, "inner": 3, "constraints": []}], "main": 4}
    return left, right


# --------------------------------------------------------------------------- the group specification

def block_desc(program, bid):
    return {b["id"]: b for b in program["blocks"]}[bid]


def crossed_fids(program, bid):
    b = block_desc(program, bid)
    k = b["kind"]
    if k == "CrossBlock":
        return list(b["crossing"])
    if k == "MultiCrossBlock":
        return [f for c in b["crossings"] for f in c]
    if k == "Repeat":
        return crossed_fids(program, b["block"])
    if k == "Merge":
        return [f for x in b["blocks"] for f in crossed_fids(program, x)]
    if k == "Nest":
        return crossed_fids(program, b["outer"]) + crossed_fids(program, b["inner"])
    return []


def subtree(program, bid):
    b = block_desc(program, bid)
    out = [bid]
    for k in ("block", "outer", "inner"):
        if k in b:
            out += subtree(program, b[k])
    for x in b.get("blocks", []):
        out += subtree(program, x)
    return out


def crossing_only(program, bid):
    """(program', had_constraints): the blocks below `bid` keep only their MinimumTrials.  The property speaks
    of the outer block's *crossing* over the sequence of groups (the run-length parameters of outer constraints
    are not rescaled by Nest, in the library as in the reference semantics of the whole Nest)."""
    p = copy.deepcopy(program)
    cons = {c["id"]: c for c in p["constraints"]}
    ids = set(subtree(p, bid))
    had = False
    for b in p["blocks"]:
        if b["id"] in ids:
            keep = [c for c in b.get("constraints", []) if cons[c]["kind"] == "MinimumTrials"]
            had = had or len(keep) != len(b.get("constraints", []))
            b["constraints"] = keep
    return p, had


def part_oracle(program, bid):
    """DocSem of one argument block alone (None if outside the documented fragment)."""
    try:
        return docsem.doc_sem(program, bid)
    except docsem.Unsupported:
        return None


def split_check(program, samples, To, Ti, ods, ids):
    """For each returned sample: None if it meets the group specification, else a reason."""
    main = block_desc(program, program["main"])
    byid = {f["id"]: f for f in program["factors"]}
    ocross = [byid[f]["name"] for f in crossed_fids(program, main["outer"])]
    onames = [ods.names[f] for f in ods.forder]
    inames = [ids.names[f] for f in ids.forder]
    reasons = [None] * len(samples)
    outer_seqs, inner_seqs, owner = [], [], []
    for si, s in enumerate(samples):
        n = len(s[onames[0]]) if onames else len(s[inames[0]])
        if n != To * Ti:
            reasons[si] = "length %d is not outer trials %d x inner trials %d" % (n, To, Ti)
            continue
        bad = None
        for nm in ocross:
            for g in range(To):
                grp = s[nm][g * Ti:(g + 1) * Ti]
                if any(v != grp[0] for v in grp):
                    bad = "outer crossed factor %s is not constant in group %d: %s" % (nm, g, list(grp))
                    break
            if bad:
                break
        if bad:
            reasons[si] = bad
            continue
        rep = {nm: [s[nm][g * Ti] for g in range(To)] for nm in onames}
        q = docsem.seq_of_sample(ods, rep)
        outer_seqs.append(q if q is not None else [[-1] * To for _ in ods.forder])
        owner.append(si)
        for g in range(To):
            grp = {nm: list(s[nm][g * Ti:(g + 1) * Ti]) for nm in inames}
            q = docsem.seq_of_sample(ids, grp)
            inner_seqs.append(q if q is not None else [[-1] * Ti for _ in ids.forder])
    if outer_seqs:
        ov = designrun.oracle_valid(ods, outer_seqs)
        iv = designrun.oracle_valid(ids, inner_seqs)
        for j, si in enumerate(owner):
            if not ov[j]:
                rep = [[samples[si][nm][g * Ti] for g in range(To)] for nm in onames]
                reasons[si] = "the sequence of group representatives %s is not a valid sequence of the outer block" % (rep,)
                continue
            for g in range(To):
                if not iv[j * To + g]:
                    grp = [list(samples[si][nm][g * Ti:(g + 1) * Ti]) for nm in inames]
                    reasons[si] = "group %d restricted to the inner design %s is not a valid sequence of the inner block" % (g, grp)
                    break
    return reasons


def compositions(program, ods, ids, To, Ti, limit):
    """All compositions (name-level keys over the user factors of the main block), or None if too many."""
    _, oseqs = designrun.oracle_all(ods)
    _, iseqs = designrun.oracle_all(ids)
    total = len(oseqs) * (len(iseqs) ** To)
    if total > limit:
        return None, total
    names = ir.user_factor_names(program)
    osmp = [docsem.sample_of_seq(ods, q) for q in oseqs]
    ismp = [docsem.sample_of_seq(ids, q) for q in iseqs]
    out = collections.Counter()
    for o in osmp:
        for parts in itertools.product(ismp, repeat=To):
            d = {}
            for nm, vals in o.items():
                d[nm] = [v for v in vals for _ in range(Ti)]
            for nm in ismp[0] if ismp else []:
                d[nm] = [v for p in parts for v in p[nm]]
            out[ir.names_to_key(d, names)] += 1
    return out, total


def check_program(program, stats, keep=None):
    """[(sig, what, detail)]; `keep` (a dict) receives the sequences each strategy returned"""
    found = []
    main = block_desc(program, program["main"])
    built = ir.build(program)
    blk = ir.main_block(built, program)
    if blk is None:
        stats["rejected"] += 1
        return found, "rejected"
    ob, ib = built.blocks[main["outer"]], built.blocks[main["inner"]]
    with ir.quiet():
        T, To, Ti = blk.trials_per_sample(), ob.trials_per_sample(), ib.trials_per_sample()
        pre = any(blk.preamble_sizes) or any(ob.preamble_sizes) or any(ib.preamble_sizes)
    own_min = [c for c in program["constraints"] if c["id"] in main.get("constraints", []) and c["kind"] == "MinimumTrials"]
    if pre:
        stats["preamble"] += 1
        return found, "preamble"
    # ---- length
    if not own_min and T != To * Ti:
        found.append(("nest:length", "Nest reports %d trials; the outer block has %d and the inner block %d (no preamble trials): "
                      "expected %d" % (T, To, Ti, To * Ti), {"T": T, "outer": To, "inner": Ti}))
    outer_prog, outer_had_constraints = crossing_only(program, main["outer"])
    ods, ids = part_oracle(outer_prog, main["outer"]), part_oracle(program, main["inner"])
    if ods is None or ids is None:
        stats["unsupported"] += 1
        return found, "unsupported"
    if ods.T != To or ids.T != Ti:
        stats["part-trials-differ"] += 1     # C16's business
        return found, "part-trials-differ"
    # ---- groups, on everything IterateSATGen and RandomGen return
    got = {}
    for strat in ("IterateSATGen", "RandomGen"):
        if strat == "IterateSATGen":
            b2 = ir.build(program)
            r = ir.synthesize(ir.main_block(b2, program), CAP, strat)
        else:
            # a few samples only: asking RandomGen for more sequences than exist makes it scan its whole candidate space
            r = ir.synthesize_isolated(program, 8, strat, timeout=6)
        if r[0] != "ok":
            stats["%s-error" % strat] += 1
            continue
        samples = r[1]
        got[strat] = samples
        if keep is not None:
            keep[strat] = samples
        if T != To * Ti:
            continue
        reasons = split_check(program, samples, To, Ti, ods, ids)
        bad = [(s, why) for s, why in zip(samples, reasons) if why]
        stats["%s-sequences" % strat] += len(samples)
        if bad:
            s, why = bad[0]
            kind = ("not-constant" if "not constant" in why else "outer-invalid" if "outer block" in why else
                    "inner-invalid" if "inner block" in why else "length")
            if kind == "inner-invalid" and any(c[2] and Ti % c[2] for c in ids.sem[2]):
                # the inner trial count is not a multiple of an inner crossing's chunk: the Nest keeps cutting the
                # inner crossing every chunk trials across the group boundaries
                kind = "inner-partial-chunk"
            found.append(("nest:groups:%s" % kind if strat == "IterateSATGen" or kind == "inner-partial-chunk"
                          else "nest:groups:%s:%s" % (kind, strat),
                          "%s returns a Nest sequence violating the group specification (%d of %d returned): %s; sequence %s"
                          % (strat, len(bad), len(samples), why, {k: list(v) for k, v in s.items() if isinstance(k, str)}),
                          {"strategy": strat, "why": why, "sample": {str(k): list(v) for k, v in s.items()}}))
    # ---- converse / product rule
    byid = {f["id"]: f for f in program["factors"]}
    ocr = set(crossed_fids(program, main["outer"]))
    outer_all_crossed = all(f in ocr for f in ir.design_fids(program, main["outer"]) if byid[f]["kind"] == "simple")
    if not outer_all_crossed:
        stats["converse-skipped-uncrossed-outer-factor"] += 1    # such a factor is not held constant: compositions would undercount
    if outer_had_constraints:
        stats["converse-skipped-outer-constraints"] += 1         # the property says nothing about them
    if "IterateSATGen" in got and len(got["IterateSATGen"]) < CAP and not main.get("constraints") and T == To * Ti \
            and outer_all_crossed and not outer_had_constraints:
        comp, total = compositions(program, ods, ids, To, Ti, 4 * CAP)
        if comp is None:
            stats["compositions-too-many"] += 1
        else:
            names = ir.user_factor_names(program)
            real = collections.Counter(ir.names_to_key(s, names) for s in got["IterateSATGen"])
            stats["converse-compared"] += 1
            if real != comp:
                missing = sorted(k for k in comp if real.get(k, 0) < comp[k])
                extra = sorted(k for k in real if comp.get(k, 0) < real[k])
                partial = any(c[2] and Ti % c[2] for c in ids.sem[2])
                found.append(("nest:converse:inner-partial-chunk" if partial else "nest:converse" if missing else "nest:extra",
                              "exhausted IterateSATGen returns %d sequences; the compositions of valid outer sequences (%d trials) with "
                              "valid inner sequences (%d trials) per group number %d; compositions never returned: %s; returned but no "
                              "composition: %s" % (sum(real.values()), To, Ti, total, [show_key(k) for k in missing[:2]],
                                                   [show_key(k) for k in extra[:2]]),
                              {"returned": sum(real.values()), "compositions": total, "missing": [show_key(k) for k in missing[:10]],
                               "extra": [show_key(k) for k in extra[:10]]}))
    return found, "checked"


def check_assoc(left, right):
    l = exhaust(left, "IterateSATGen", cap=CAP)
    if l[0] == "capped":
        return None, "capped"
    r = exhaust(right, "IterateSATGen", cap=CAP)
    if l[0] != "ok" or r[0] != "ok":
        if l[0] == r[0] and l[1:2] == r[1:2]:
            return None, "both-" + l[0]
        if "capped" in (l[0], r[0]):
            return None, "capped"
        return (("nest:assoc:one-side-fails", "Nest(Nest(a,b),c) -> %s, Nest(a,Nest(b,c)) -> %s" % (l[:3], r[:3]),
                 {"left": repr(l[:3]), "right": repr(r[:3])}), "one-side-fails")
    if l[1] == r[1]:
        return None, "equal" if l[1] else "equal-empty"
    lo = sorted(k for k in l[1] if l[1][k] != r[1].get(k, 0))
    ro = sorted(k for k in r[1] if r[1][k] != l[1].get(k, 0))
    return (("nest:assoc:solutions-differ",
             "Nest(Nest(a,b),c) has %d solutions, Nest(a,Nest(b,c)) %d; only left: %s; only right: %s"
             % (sum(l[1].values()), sum(r[1].values()), [show_key(k) for k in lo[:2]], [show_key(k) for k in ro[:2]]),
             {"left_only": [show_key(k) for k in lo[:10]], "right_only": [show_key(k) for k in ro[:10]]}), "differ")


# --------------------------------------------------------------------------- run / replay

def run(ctx, res):
    n = 18 if ctx.quick else 120
    nassoc = 4 if ctx.quick else 30
    rng = ctx.rng
    progs = hand_programs() + nestable_family() + derived_family() + constraint_family() + [("gen", gen_nest(rng)) for _ in range(n)]
    res.rule = ("%d generated Nest programs (outer / inner CrossBlock or single-crossing MultiCrossBlock over 2-3-level factors, block "
                "constraints AtMostKInARow / ExactlyK / Pin / Sequential / AtLeastKInARow, sometimes a Nest-level constraint, Nest in "
                "Nest on either side) + %d associativity pairs; exhausted IterateSATGen (cap %d) and RandomGen; non-trivial = a "
                "program whose every returned sequence was judged group by group; distinct by program text" % (n, nassoc, CAP))
    lines, expect = [], []
    stats = collections.Counter()
    found = []
    for tag, p in progs:
        key = json.dumps(p, sort_keys=True)
        stats["shape:" + p.get("shape", tag)] += 1
        try:
            built, rec, steps = c16.instrumented_build(p)
            for st in steps:
                lines.append("(create %s)" % st["exp"])
                expect.append(("create", (rec, st), p))
                blk = built.blocks.get(st["bid"])
                if blk is not None and st["recorded"] is not None:
                    lines.append("(trials %s %s %s)" % (flat.flat_wire(blk), st["recorded"]["mode"], to_wire(list(st["recorded"]["weights"]))))
                    expect.append(("trials", c16.real_trials_view(blk), p))
            ob = nestsem_observation(p)
            if ob is not None:
                lines.append(ob[0])
                expect.append(("nestsem", ob[1], p))
            src = "gen" if tag == "gen" else "family"
            why2, ob2 = nestsem2_observation(p)
            stats["guard:%s:nests" % src] += 1
            if ob2 is None:
                stats["guard:%s:no-form:%s" % (src, why2)] += 1
            keep = {}
            fs, status = check_program(p, stats, keep)
            if ob2 is not None:
                lines.append(ob2["line"])
                expect.append(("nestsem2", (ob2, src), p))
                gl = nestgroups_line(ob2, keep.get("IterateSATGen", []))
                if gl is not None:
                    lines.append(gl)
                    expect.append(("nestgroups", (ob2, src, len(keep["IterateSATGen"]) < CAP), p))
        except Exception as e:  # noqa
            found.append(("harness", "harness error: %s %s" % (type(e).__name__, str(e)[:300]), {}, p, False))
            continue
        stats["status:" + status] += 1
        res.count(key, nontrivial=(status == "checked"))
        for sig, what, detail in fs:
            found.append((sig, what, detail, p, True))
        if status == "checked" and not fs:
            res.sample({"shape": p.get("shape"), "blocks": [b["kind"] for b in p["blocks"]],
                        "constraints": [c["kind"] for c in p["constraints"]]})
    for _ in range(nassoc):
        left, right = assoc_pair(rng)
        v, status = check_assoc(left, right)
        stats["assoc:" + status] += 1
        res.count(json.dumps([left, right], sort_keys=True), nontrivial=(status == "equal"))
        if v is not None:
            found.append((v[0], v[1], dict(v[2], right=right), left, True))
    outs = ctx.model(lines) if lines else []
    corr_bad = []
    for (kind, real, p), mod in zip(expect, outs):
        if kind == "create":
            rec, st = real
            rv = c16.real_create_view(rec, st)
            try:
                mv = c16.model_create_view(mod)[0]
            except Exception:  # noqa
                mv = "!" + mod
        elif kind == "nestsem":
            # Front/NestSem.v nest_sem(outer form, inner form) vs the documentation's form of the Nest; claimed
            # only under the guard nestable_b of C25_nest_groups
            guard, _, msem = mod.partition(" ")
            if guard != "true":
                stats["nestsem:outside-guard"] += 1
                continue
            stats["nestsem:nestable"] += 1
            rv, mv = real, msem
        elif kind == "nestsem2":
            ob2, src = real
            gtxt, _, msem = mod.partition(") ")
            guards = dict(zip(GUARDS, [g == "true" for g in gtxt.lstrip("(").split()]))
            ob2["guards"] = guards
            for g in GUARDS:
                if guards.get(g):
                    # a Nest with constraints of its own is inside a guard through C25_nest_groups_own_constraints (widest guard)
                    if ob2.get("own") is None:
                        stats["guard:%s:%s" % (src, g)] += 1
                    elif g == GUARDS[-1]:
                        stats["guard:%s:%s+own-constraints" % (src, g)] += 1
            if not guards.get(GUARDS[-1]):
                stats["nestsem2:outside-guard"] += 1
                continue
            stats["nestsem2:inside-guard"] += 1
            rv, mv = ob2["expected"], msem
        elif kind == "nestgroups":
            ob2, src, exhausted = real
            pairs = common.parse_sexp(mod)[0] if not mod.startswith("!") else None
            if pairs is None:
                rv, mv = "pairs", mod
            else:
                inside = ob2.get("guards", {}).get(GUARDS[-1])
                agree = all(a == b for a, b in pairs)
                hold = all(a == "true" and b == "true" for a, b in pairs)
                if not inside:
                    # outside the guards the two sides may differ: reported as a statistic only
                    stats["nestgroups:outside-guard:%s" % ("agree" if agree else "differ")] += 1
                    continue
                stats["nestgroups:programs"] += 1
                stats["nestgroups:sequences"] += len(pairs)
                if agree and not hold:
                    bad = [j for j, (a, b) in enumerate(pairs) if a != "true"]
                    found.append(("nest:groups:sem-invalid", "IterateSATGen returns %d of %d sequences of a Nest inside the guard of "
                                  "C25_nest_groups_* that are not valid for the documented normal form of the Nest (hence, by the "
                                  "theorem, no group composition), first: index %d" % (len(bad), len(pairs), bad[0]),
                                  {"indices": bad[:10]}, p, True))
                    continue
                rv, mv = "agree", ("agree" if agree else "differ: %s" % (pairs[:6],))
        else:
            rv, mv = real, c16.model_trials_view(mod)
        ok = (rv == mv)
        res.layer("L1-" + kind, ok)
        if not ok:
            corr_bad.append((kind, p, rv, mv))
    res.extra["input_distribution"] = dict(stats)
    seen = set()
    for sig, what, detail, p, concrete in found:
        if sig in seen:
            continue
        seen.add(sig)
        res.violations.append(Violation(sig, what + "  program=" + json.dumps({k: p[k] for k in ("blocks", "constraints")},
                                                                             sort_keys=True)[:800],
                                        {"program": p, "detail": detail, "sig": sig}, failing_input=concrete))
    if corr_bad:
        kind, p, rv, mv = corr_bad[0]
        res.violations.append(Violation("corr:L1-" + kind, "model and real constructors disagree on %d observations, first: real=%s model=%s"
                                        % (len(corr_bad), rv[:300], mv[:300]),
                                        {"layer": "L1-" + kind, "program": p, "real": rv, "model": mv, "theorems": ["C25_*"]},
                                        failing_input=False))
    res.notes.append("group specification written in the harness; validity of the outer representative sequence and of each inner "
                     "group judged by the reference oracle on doc_sem(program, outer) / doc_sem(program, inner); converse by enumerating "
                     "all compositions; associativity by exhausted sets of both nestings")


def replay(ctx, data):
    if "program" not in data:
        # a broken-tie replay (no failing input): re-run the audit of the theorem file
        import common
        return bool(common.property_audit(ctx.prop)[4])
    p = data["program"]
    sig = data.get("sig", "")
    if sig.startswith("nest:assoc"):
        v, status = check_assoc(p, data["detail"]["right"])
        return v is not None and v[0] == sig
    stats = collections.Counter()
    fs, status = check_program(p, stats)
    return any(f[0] == sig for f in fs)
